#!/usr/bin/env python3
"""Rust-subset -> Lean 4 translator for the Shadowsocks AEAD chunk layer `octo-squirrel/src/codec/shadowsocks.rs`.

usage:  translate_sschunk.py <path/to/octo-squirrel/src/codec/shadowsocks.rs> <out.lean>

Translated from the argument (located by kind): every top-level `struct` (`Authenticator`, `ChunkEncoder`, `ChunkDecoder`),
every top-level `enum` (`DecodeState`) and every method of the inherent `impl` blocks of those structs (`new`, `size_bytes`,
`encode_size`, `decode_size`, `seal`, `open`, `encode_chunk`, `encode_payload`, `encode_packet`, `decode_packet`,
`decode_payload`).  `mod` declarations, `use` items (read for name binding) and everything cfg-gated are skipped by
balanced-bracket matching and listed in the generated header.

One more source file is read, found next to the argument: `<dir>/aead.rs` (= `codec/aead.rs`, `use super::aead::..`):
  * `CipherMethod::encrypt_in_place_detached` is translated (it has a `len - tag_size` that can underflow);
  * `CipherMethod::{tag_size, encrypt_in_place, decrypt_in_place}` and the two dispatch macros must be token-for-token the
    dispatches to the AEAD crates the translator knows; they - and the crates behind them - are the ASSUMED EXTERNALS: the
    fields of the generated structure `CipherMethod` (a record of functions);
  * `IncreasingNonceGenerator::{init, generate}` are the functions of `Octo/Gen/NonceGen.lean` (written by
    translate_nonce.py from the same file; the sha256 recorded there is compared when that file is next to the output).

Tokenizer of translate_nonce.py, parser / type checker / emitter of translate_addr.py + translate_trojan.py, extended here:
nested structs and calls of methods on fields (`self.auth.seal(..)`, with write-back of a `&mut self` receiver), struct
literals `Self { .. }`, by-value `mut` parameters, `&mut [u8]` and `&mut dyn Buffer` parameters, `&mut <temporary>` arguments,
`size_of::<u16>()`, `usize::min`, `split_off`, `reserve`, `loop { .. }` / `while c { .. }` (cut off by an explicit `fuel`, see the
generated header), `let (a, b) = s.split_at_mut(k)`, `copy_from_slice`, log macros (skipped when their arguments are free of
effects) and ONE trusted idiom: the `unsafe` six-statement sequence of `encode_chunk` (reserve / raw slice over the spare
capacity / `put_u16` / encrypt in place detached / `advance_mut`), recognised token by token.

Exit status:
  0  a Lean module was written
  2  usage / IO error (also: a `NonceGen.lean` next to the output that was generated from another `aead.rs`)
  3  a construct outside the supported subset inside a target item (or a target item / source file is missing, or the
     idiom / an assumed external deviates from the known shape); one line on stderr; nothing is written (never a guess).
"""
import hashlib
import os
import re
import sys

sys.path.insert(0, os.path.dirname(os.path.abspath(__file__)))
import translate_pw as pw  # noqa: E402
import translate_nonce as tn  # noqa: E402
import translate_addr as ta  # noqa: E402
import translate_trojan as tt  # noqa: E402   (its import extends translate_addr in this process; intended)
from translate_pw import Unsupported, Node, RUST_KEYWORDS, LEAN_KEYWORDS  # noqa: E402
from translate_addr import INTS, ARITH_INTS, LEAN_INT, PREFIX, Var  # noqa: E402
from translate_trojan import FnSig, SELF_NAME, KNOWN_NAMED  # noqa: E402

LOG_MACROS = ("trace", "debug", "info", "warn", "error")
EXT_TYPES = ("CipherMethod", "IncreasingNonceGenerator")
LIB_NAMES = ("BytesMut", "Bytes", "Vec", "Result", "Option", "Ok", "Err", "Some", "None", "CipherMethod",
             "IncreasingNonceGenerator", "Buffer", "String")

USE_SUFFIX = {
    "CipherMethod": ["aead", "CipherMethod"],
    "IncreasingNonceGenerator": ["aead", "IncreasingNonceGenerator"],
    "Buffer": ["aes_gcm", "aead", "Buffer"],
    "BytesMut": ["bytes", "BytesMut"],
    "Buf": ["bytes", "Buf"],
    "BufMut": ["bytes", "BufMut"],
    "size_of": ["mem", "size_of"],
    "slice": ["core", "slice"],
    "trace": ["log", "trace"], "debug": ["log", "debug"], "info": ["log", "info"], "warn": ["log", "warn"], "error": ["log", "error"],
}

# --- the assumed externals of `impl CipherMethod` in codec/aead.rs: exact token sequences ---------------------------------
VARIANTS = ("Aes128Gcm", "Aes256Gcm", "ChaCha8Poly1305", "ChaCha20Poly1305", "XChaCha8Poly1305", "XChaCha20Poly1305")
EXT_SHAPES = {
    "tag_size": "pub const fn tag_size ( & self ) -> usize { method_match_aead_trait ! ( self , AeadCore , TagSize ) }",
    "encrypt_in_place": "pub fn encrypt_in_place ( & self , nonce : & [ u8 ] , associated_data : & [ u8 ] , plaintext : & mut dyn Buffer ) "
                        "-> Result < ( ) , aead :: Error > { method_match_aead_fn ! ( self , encrypt_in_place , ( nonce . into ( ) , "
                        "associated_data , plaintext ) ) }",
    "decrypt_in_place": "pub fn decrypt_in_place ( & self , nonce : & [ u8 ] , associated_data : & [ u8 ] , ciphertext : & mut dyn Buffer ) "
                        "-> Result < ( ) , aead :: Error > { method_match_aead_fn ! ( self , decrypt_in_place , ( nonce . into ( ) , "
                        "associated_data , ciphertext ) ) }",
}
MACRO_SHAPES = {
    "method_match_aead_fn": "macro_rules ! method_match_aead_fn { ( $ self : ident , $ fn : ident , $ param : tt ) => { match $ self { "
                            + " ".join("Self :: %s ( cipher ) => cipher . $ fn $ param ," % v for v in VARIANTS) + " } } ; }",
    "method_match_aead_trait": "macro_rules ! method_match_aead_trait { ( $ self : ident , $ trait : ident , $ type : ident ) => { match $ self { "
                               + " ".join("Self :: %s ( _ ) => < %s as $ trait > :: $ type :: USIZE ," % (v, v) for v in VARIANTS) + " } } ; }",
}
ENUM_SHAPE = "pub enum CipherMethod { " + " ".join("%s ( %s ) ," % (v, v) for v in VARIANTS) + " }"

# --- the trusted idiom of `encode_chunk`: metavariables D (dst), X (temp), T (tag size), L (len), M (method) -----------------
IDIOM = ("D . reserve ( 2 + T ) ; "
         "let X = & mut D . chunk_mut ( ) [ .. 2 + T ] ; "
         "let X = unsafe { slice :: from_raw_parts_mut ( X . as_mut_ptr ( ) , X . len ( ) ) } ; "
         "D . put_u16 ( L as u16 ) ; "
         "self . M ( X ) ? ; "
         "unsafe { D . advance_mut ( T ) } ;").split()


# --------------------------------------------------------------------------------------------
# names looked up in the inherited modules are replaced by the extended ones (this process only)
# --------------------------------------------------------------------------------------------

_tt_lean_type = tt.lean_type
_tt_type_str = tt.type_str
_tt_show_expr = tt.show_expr
_tt_method_sig = tt.method_sig
_ta_is_bytes = ta.is_bytes


def is_bytes(t):
    return t in ("DynBuffer", "Tag") or _ta_is_bytes(t)


def lean_type(t):
    if t == "IncreasingNonceGenerator":
        return "Octo.NonceGen.IncreasingNonceGenerator"
    if t in ("DynBuffer", "Tag"):
        return "List UInt8"
    return _tt_lean_type(t)


def lean_atom(t):
    s = lean_type(t)
    return "(%s)" % s if " " in s else s


def type_str(t):
    if t == "DynBuffer":
        return "dyn Buffer"
    return _tt_type_str(t)


def show_expr(e):
    k = e.kind
    if k == "structlit":
        return "%s { %s }" % (e.name, ", ".join(f if x is None else "%s: %s" % (f, show_expr(x)) for f, x, _ in e.fields))
    if k == "loop":
        return "loop { ... }"
    if k == "while":
        return "while %s { ... }" % show_expr(e.cond)
    if k == "aeadmacro":
        return "method_match_aead_fn!(self, %s, (%s))" % (e.name, ", ".join(show_expr(a) for a in e.args))
    if k == "call" and getattr(e, "targ", None) is not None:
        return "%s::<%s>()" % ("::".join(e.segs), tt.show_type(e.targ))
    return _tt_show_expr(e)


def method_sig(rty, name):
    if rty == "usize" and name == "min":
        return (["usize"], "usize", "pure", "Usize.min")
    if rty == "BytesMut" and name == "split_off":
        return (["usize"], "BytesMut", "read", "Flow.split_off")
    if rty == "CipherMethod" and name == "tag_size":
        return ([], "usize", "pure", "CipherMethod.tag_size")
    if rty == "Tag" and name == "as_slice":
        return ([], "SliceU8", "pure", "Tag.as_slice")
    if rty in ("DynBuffer", "Tag"):
        if name == "len":
            return ([], "usize", "pure", "Cursor.len")
        return None
    return _tt_method_sig(rty, name)


for _m in (ta, tt):
    _m.lean_type = lean_type
    _m.lean_atom = lean_atom
    _m.type_str = type_str
    _m.show_expr = show_expr
    _m.method_sig = method_sig
    _m.is_bytes = is_bytes
lean_name = tt.lean_name
_show_type = tt._show_type


def lookahead_text(toks, k, n):
    return [t.text for t in toks[k:k + n]]


# --------------------------------------------------------------------------------------------
# parser
# --------------------------------------------------------------------------------------------

class Parser(tt.Parser):
    """`role`: main (codec/shadowsocks.rs) | aead (codec/aead.rs)"""

    def __init__(self, toks, role):
        tt.Parser.__init__(self, toks, role)
        self.ext_tokens = {}     # aead: name -> (line, token texts) of the externals, macros, enum
        self.aead_fns = []       # aead: parsed fns of `impl CipherMethod`
        self.nonce_items = []    # aead: names seen of IncreasingNonceGenerator

    # -- items
    def parse_file(self):
        self.parse_items(0, "eof")

    def parse_items(self, depth, stop):
        while not (self.tok.kind == "eof" or (stop == "}" and self.at("}"))):
            if self.at(";"):
                self.advance()
                continue
            first = self.tok
            start = self.pos
            attrs = self.parse_attrs()
            self.parse_vis()
            t = self.tok
            nxt = self.peek()
            gated = any(re.sub(r"\s+", "", text).startswith(("cfg(", "test")) for text, _ in attrs)
            kw = t.text
            name = nxt.text if nxt.kind == "ident" else ""
            if gated:
                end = self.skip_item()
                if self.role == "main":
                    self.note_skip("cfg/test-gated %s %s" % (kw, name), first.line, end)
                continue
            if self.at("use"):
                self.parse_use()
                continue
            if self.role == "main":
                if self.at("enum"):
                    self.check_attrs(attrs)
                    self.enums.append(self.parse_enum())
                    continue
                if self.at("struct"):
                    self.check_attrs(attrs)
                    self.structs.append(self.parse_struct())
                    continue
                if t.kind == "ident" and kw in ("union", "trait", "type", "fn", "const", "static") and name in LIB_NAMES:
                    raise Unsupported("`%s %s`: a local definition of a name the translator reads as a library name" % (kw, name), t.line)
                if self.at("impl"):
                    hdr = self.impl_header()
                    if hdr is not None and hdr[0] is None:
                        self.check_attrs(attrs)
                        self.impls.append(self.parse_impl(hdr))
                        continue
                    end = self.skip_item()
                    self.note_skip("impl block `%s`" % self.header_text(first), first.line, end)
                    continue
                if self.at("mod") and self.peek(2).text == ";":
                    end = self.skip_item()
                    self.note_skip("mod %s (declaration)" % name, first.line, end)
                    continue
                end = self.skip_item()
                self.note_skip("%s %s" % (kw, name) if name else "item starting with `%s`" % kw, first.line, end)
                continue
            # role aead
            if self.at("enum") and name == "CipherMethod":
                self.pos = self.pos   # tokens from the visibility on
                k = start
                while self.toks[k].text == "#":
                    # skip the attribute
                    d = 0
                    k += 1
                    while True:
                        if self.toks[k].text == "[":
                            d += 1
                        elif self.toks[k].text == "]":
                            d -= 1
                            if d == 0:
                                k += 1
                                break
                        k += 1
                self.skip_item()
                self.ext_tokens["enum CipherMethod"] = (t.line, [x.text for x in self.toks[k:self.pos]])
                continue
            if self.at("macro_rules") and nxt.text == "!":
                mname = self.peek(2).text
                s = self.pos
                self.skip_item()
                self.ext_tokens[mname] = (t.line, [x.text for x in self.toks[s:self.pos]])
                continue
            if self.at("impl"):
                hdr = self.impl_header()
                if hdr is not None and hdr[0] is None and hdr[2] == "CipherMethod":
                    self.parse_cipher_impl(hdr)
                    continue
                if hdr is not None and hdr[0] is None and hdr[2] == "IncreasingNonceGenerator":
                    s = self.pos
                    self.skip_item()
                    texts = [x.text for x in self.toks[s:self.pos]]
                    for i, x in enumerate(texts):
                        if x == "fn":
                            self.nonce_items.append(texts[i + 1])
                    continue
            self.skip_item()

    def parse_cipher_impl(self, hdr):
        self.pos = hdr[3]
        self.expect("{")
        while not self.at("}"):
            s = self.pos
            attrs = self.parse_attrs()
            v = self.pos
            self.parse_vis()
            k = self.pos
            if self.at("const"):
                k += 1
            if self.toks[k].text != "fn":
                raise Unsupported("`%s` item in `impl CipherMethod`" % self.tok.text, self.tok.line)
            name = self.toks[k + 1].text
            line = self.toks[k].line
            if name == "encrypt_in_place_detached":
                self.check_attrs(attrs)
                self.accept("const")
                self.aead_fns.append(self.parse_fn())
            else:
                self.skip_item()
                self.ext_tokens[name] = (line, [x.text for x in self.toks[v:self.pos]])
        self.expect("}")

    def parse_impl(self, hdr):
        trait, targs, ty, brace = hdr
        line = self.tok.line
        self.pos = brace
        self.expect("{")
        fns = []
        while not self.at("}"):
            attrs = self.parse_attrs()
            self.check_attrs(attrs)
            self.parse_vis()
            if self.at("const") and self.peek().text == "fn":
                self.advance()
            if self.at("fn"):
                fns.append(self.parse_fn())
            else:
                raise Unsupported("`%s` item in `impl %s`" % (self.tok.text, ty), self.tok.line)
        self.expect("}")
        return Node("impl", line, trait=trait, targs=targs, ty=ty, types={}, fns=fns)

    def parse_fn(self):
        line = self.expect("fn").line
        name = self.ident().text
        if self.at("<"):
            raise Unsupported("generic fn", line)
        self.expect("(")
        params = []
        recv = None
        first = True
        while not self.at(")"):
            if first and (self.at("&") or self.at("self")):
                if self.accept("&"):
                    if self.tok.kind == "lifetime":
                        self.advance()
                    recv = "mut" if self.accept("mut") else "ref"
                    self.expect("self")
                else:
                    raise Unsupported("receiver `self` by value", self.tok.line)
                first = False
                if not self.accept(","):
                    break
                continue
            first = False
            mutbind = bool(self.accept("mut"))
            pl = self.tok.line
            pname = self.ident().text
            self.expect(":")
            pty = self.parse_type()
            if mutbind and pty.kind == "tref":
                raise Unsupported("`mut` binding of a reference parameter", pl)
            params.append(Node("param", pl, name=pname, ty=pty, mutbind=mutbind))
            if not self.accept(","):
                break
        self.expect(")")
        ret = Node("tunit", line)
        if self.accept("->"):
            ret = self.parse_type()
        if self.at("where"):
            raise Unsupported("where clause", self.tok.line)
        body = self.parse_block()
        return Node("fn", line, name=name, params=params, ret=ret, body=body, recv=recv)

    # -- types
    def parse_type(self):
        t = self.tok
        if self.at("dyn"):
            self.advance()
            n = self.ident().text
            if self.at("<") or self.at("+") or self.at("::"):
                raise Unsupported("trait object type other than `dyn Buffer`", t.line)
            return Node("tname", t.line, name=n, segs=["dyn " + n], args=[])
        if self.at("&") or self.at("&&"):
            n = 2 if self.at("&&") else 1
            self.advance()
            if self.tok.kind == "lifetime":
                self.advance()
            mut = bool(self.accept("mut"))
            inner = self.parse_type()
            node = Node("tref", t.line, mut=mut, inner=inner)
            if n == 2:
                node = Node("tref", t.line, mut=False, inner=node)
            return node
        return tt.Parser.parse_type(self)

    # -- statements
    def match_idiom(self):
        """at a statement that starts like the idiom: the whole token template must follow"""
        k = self.pos
        env = {}
        for want in IDIOM:
            t = self.toks[k]
            if want in ("D", "X", "T", "L", "M"):
                if t.kind != "ident" or t.text in RUST_KEYWORDS:
                    return None, t.line
                if env.setdefault(want, t.text) != t.text:
                    return None, t.line
            elif t.text != want or t.kind not in ("punct", "ident", "int"):
                return None, t.line
            k += 1
        if len(set(env[m] for m in ("D", "X", "T", "L"))) != 4:
            return None, self.toks[self.pos].line
        return (env, k), None

    def parse_block(self):
        line = self.expect("{").line
        stmts = []
        tail = None
        while not self.at("}"):
            if self.tok.kind == "eof":
                raise Unsupported("unterminated block", line)
            if tail is not None:
                raise Unsupported("expression statement without `;`", tail.line)
            if self.at("#"):
                raise Unsupported("attribute on a statement", self.tok.line)
            t = self.tok
            if self.at(";"):
                self.advance()
                continue
            # the trusted idiom starts with `D.reserve(2 + T);` followed by `let X = &mut D.chunk_mut()`
            if t.kind == "ident" and lookahead_text(self.toks, self.pos + 1, 3) == [".", "reserve", "("] and \
                    any(x.text in ("chunk_mut", "from_raw_parts_mut", "advance_mut") for x in self.toks[self.pos:self.pos + 70]):
                got, bad = self.match_idiom()
                if got is None:
                    raise Unsupported("statements around `chunk_mut` / `from_raw_parts_mut` / `advance_mut` deviate from the trusted idiom "
                                      "(reserve; raw slice over the spare capacity; put_u16; encrypt in place detached; advance_mut)", bad)
                env, k = got
                end = self.toks[k - 1].line
                self.pos = k
                stmts.append(Node("idiom", t.line, end=end, dst=env["D"], temp=env["X"], tag=env["T"], len=env["L"], method=env["M"]))
                continue
            if t.kind == "ident" and t.text in ("chunk_mut", "from_raw_parts_mut", "advance_mut", "as_mut_ptr", "set_len"):
                raise Unsupported("`%s` outside the trusted idiom" % t.text, t.line)
            if self.at("let"):
                if self.peek().text == "(":
                    stmts.append(self.parse_let_split())
                else:
                    stmts.append(self.parse_let())
                continue
            if self.at("return"):
                self.advance()
                e = None
                if not self.at(";") and not self.at("}"):
                    e = self.parse_expr()
                node = Node("return", t.line, expr=e)
                if self.at("}"):
                    tail = node
                else:
                    self.expect(";")
                    stmts.append(node)
                continue
            if self.at("loop"):
                self.advance()
                body = self.parse_block()
                node = Node("loop", t.line, body=body)
                if self.at("}"):
                    tail = node
                else:
                    self.accept(";")
                    stmts.append(Node("exprstmt", t.line, expr=node))
                continue
            if self.at("while"):
                self.advance()
                if self.at("let"):
                    raise Unsupported("while-let", t.line)
                cond = self.parse_expr(no_struct=True)
                body = self.parse_block()
                self.accept(";")
                stmts.append(Node("exprstmt", t.line, expr=Node("while", t.line, cond=cond, body=body)))
                continue
            if t.kind == "ident" and t.text in ("for", "break", "continue", "fn", "struct", "const",
                                                 "use", "static", "impl", "mod", "enum", "trait", "type", "async", "move"):
                raise Unsupported("`%s`" % t.text, t.line)
            if self.at("unsafe"):
                raise Unsupported("`unsafe` block outside the trusted idiom", t.line)
            if self.at("if") or self.at("match") or self.at("{"):
                e = self.parse_primary(False)
                if self.at("}"):
                    tail = e
                else:
                    self.accept(";")
                    stmts.append(Node("exprstmt", t.line, expr=e))
                continue
            e = self.parse_expr()
            if self.at("="):
                self.advance()
                rhs = self.parse_expr()
                self.expect(";")
                stmts.append(Node("assign", t.line, target=e, op=None, expr=rhs))
            elif self.tok.kind == "punct" and self.tok.text in ("+=", "-=", "*=", "&=", "|=", "<<=", ">>=", "/=", "%=", "^="):
                op = self.advance().text[:-1]
                rhs = self.parse_expr()
                self.expect(";")
                stmts.append(Node("assign", t.line, target=e, op=op, expr=rhs))
            elif self.at(";"):
                self.advance()
                stmts.append(Node("exprstmt", t.line, expr=e))
            elif self.at("}"):
                tail = e
            else:
                raise Unsupported("token `%s` after expression" % self.tok.text, self.tok.line)
        self.expect("}")
        return Node("block", line, stmts=stmts, tail=tail, unsafe=False)

    def parse_let_split(self):
        """`let (a, b) = s.split_at_mut(k);`"""
        line = self.expect("let").line
        self.expect("(")
        a = self.ident().text
        self.expect(",")
        b = self.ident().text
        self.expect(")")
        if not self.at("="):
            raise Unsupported("tuple pattern in `let` (only `let (a, b) = s.split_at_mut(k);`)", line)
        self.advance()
        e = self.parse_expr()
        self.expect(";")
        if not (e.kind == "mcall" and e.name == "split_at_mut" and e.base.kind == "var" and len(e.args) == 1) or a == b:
            raise Unsupported("tuple pattern in `let` (only `let (a, b) = s.split_at_mut(k);`)", line)
        return Node("letsplit", line, a=a, b=b, base=e.base.name, at=e.args[0])

    # -- expressions
    def parse_unary(self, ns):
        t = self.tok
        if t.kind == "punct" and t.text in ("&", "&&"):
            self.advance()
            mut = bool(self.accept("mut"))
            inner = self.parse_unary(ns)
            node = Node("ref", t.line, mut=mut, expr=inner)
            if t.text == "&&":
                node = Node("ref", t.line, mut=False, expr=node)
            return node
        return tt.Parser.parse_unary(self, ns)

    def parse_primary(self, ns):
        t = self.tok
        if self.at("unsafe"):
            raise Unsupported("`unsafe` block outside the trusted idiom", t.line)
        if self.at("loop") or self.at("while"):
            raise Unsupported("`%s` in expression position" % t.text, t.line)
        if self.at("Self") and self.peek().text == "{" and not ns:
            self.advance()
            return self.struct_literal("Self", t.line)
        if t.kind == "ident" and t.text == "method_match_aead_fn" and self.peek().text == "!":
            self.advance()
            self.advance()
            self.expect("(")
            self.expect("self")
            self.expect(",")
            name = self.ident().text
            self.expect(",")
            args = self.parse_args()
            self.expect(")")
            return Node("aeadmacro", t.line, name=name, args=args)
        if t.kind == "ident" and t.text not in RUST_KEYWORDS:
            # path with explicit type arguments: `[std::mem::]size_of::<T>()`
            k = self.pos
            segs = [self.toks[k].text]
            while self.toks[k + 1].text == "::" and self.toks[k + 2].kind == "ident":
                segs.append(self.toks[k + 2].text)
                k += 2
            if self.toks[k + 1].text == "::" and self.toks[k + 2].text == "<":
                self.pos = k + 3
                targ = self.parse_type()
                self.expect(">")
                self.expect("(")
                self.expect(")")
                return Node("call", t.line, segs=segs, args=[], targ=targ)
        return tt.Parser.parse_primary(self, ns)

    def struct_literal(self, name, line):
        self.expect("{")
        fields = []
        while not self.at("}"):
            fl = self.tok.line
            if self.at(".."):
                raise Unsupported("struct update syntax", fl)
            fname = self.ident().text
            fe = None
            if self.accept(":"):
                fe = self.parse_expr()
            fields.append((fname, fe, fl))
            if not self.accept(","):
                break
        self.expect("}")
        return Node("structlit", line, name=name, fields=fields)


# --------------------------------------------------------------------------------------------
# type checker + emitter
# --------------------------------------------------------------------------------------------

class Gen(tt.Gen):
    def __init__(self, all_idents, uses):
        tt.Gen.__init__(self, all_idents, uses)
        self.fuel = self.fresh_fixed("fuel")
        self.has_loop = False
        self.alias = {}          # `&mut [u8]` parameter that has been split: name -> (a, b)
        self.fuel_fns = set()
        self.idiom_lines = []
        self.log_lines = []
        self.mutbinds = []
        KNOWN_NAMED.add("CipherMethod")

    # -- `use` bindings
    def require_use(self, name, line):
        self.used_names.add(name)
        want = USE_SUFFIX[name]
        got = self.uses.get(name)
        ok = got is not None and got[-len(want):] == want
        if name == "slice" and got is not None and got[-2:] == ["std", "slice"]:
            ok = True
        if not ok:
            raise Unsupported("`%s` is not imported as `..::%s` (found: %s)" % (name, "::".join(want), "::".join(got) if got else "no `use`"), line)

    # -- types
    def resolve_type(self, t):
        k = t.kind
        if k == "tname":
            segs = t.segs
            name = t.name
            if segs[0].startswith("dyn "):
                if name != "Buffer":
                    raise Unsupported("trait object `dyn %s`" % name, t.line)
                if self.in_main:
                    self.require_use("Buffer", t.line)
                return "DynBuffer", False
            if name == "Result" and len(t.args) == 2 and segs in (["Result"], ["std", "result", "Result"]):
                inner, _ = self.resolve_type(t.args[0])
                e = t.args[1]
                if not (e.kind == "tname" and e.segs[-2:] == ["aead", "Error"] and not e.args):
                    raise Unsupported("error type `%s` (only `..::aead::Error`)" % _show_type(e), t.line)
                return ("result", inner), False
            if name in EXT_TYPES and len(segs) == 1 and not t.args:
                if self.in_main:
                    self.require_use(name, t.line)
                return name, False
            if name == "BytesMut" and self.in_main and len(segs) == 1:
                self.require_use("BytesMut", t.line)
            if name in self.enums and not t.args and name not in ta.BUILTIN_ENUMS:
                return name, False
        return tt.Gen.resolve_type(self, t)

    def field_ty(self, sty, fname):
        for f, ty in self.structs.get(sty, []) if isinstance(sty, str) else []:
            if f == fname:
                return ty
        return None

    # -- types of expressions that are determined without context
    def try_type(self, e):
        k = e.kind
        if k == "structlit":
            return self.self_type if e.name == "Self" else None
        if k == "aeadmacro":
            return ("result", "Tag")
        if k == "call":
            if getattr(e, "targ", None) is not None:
                return "usize" if e.segs[-1] == "size_of" else None
            if e.segs == ["IncreasingNonceGenerator", "init"]:
                return "IncreasingNonceGenerator"
            if len(e.segs) == 1 and e.segs[0] not in ("Ok", "Err", "Some"):
                return None
        if k == "mcall":
            rty = self.try_type(e.base)
            if rty == "IncreasingNonceGenerator" and e.name == "generate":
                return "SliceU8"
            if rty == "CipherMethod" and e.name in ("encrypt_in_place", "decrypt_in_place"):
                return ("result", "unit")
            if isinstance(rty, str) and (rty, e.name) in self.fns and self.fns[(rty, e.name)].recv is not None:
                return self.fns[(rty, e.name)].ret
            if rty is None:
                return None
            sig = method_sig(rty, e.name)
            return sig[1] if sig else None
        if k in ("loop", "while"):
            return "unit"
        return tt.Gen.try_type(self, e)

    # -- expressions
    def ex(self, e, expected, pre):
        k = e.kind
        if k == "structlit":
            return self.ex_structlit(e, pre)
        if k == "aeadmacro":
            return self.ex_aeadmacro(e, pre)
        if k == "ref" and e.mut:
            inner = e.expr
            while inner.kind == "paren":
                inner = inner.expr
            if inner.kind != "var":
                raise Unsupported("`&mut` of `%s` in value position" % show_expr(inner), e.line)
        if k == "var":
            if e.name in self.alias:
                raise Unsupported("use of `%s` while it is split by `split_at_mut`" % e.name, e.line)
        return tt.Gen.ex(self, e, expected, pre)

    def ex_structlit(self, e, pre):
        sty = self.self_type
        fields = self.structs.get(sty)
        if fields is None:
            raise Unsupported("struct literal of `%s`" % e.name, e.line)
        given = {}
        terms = []
        for fname, fe, fl in e.fields:
            fty = self.field_ty(sty, fname)
            if fty is None or fname in given:
                raise Unsupported("field `%s` in a literal of `%s` (rustc would reject)" % (fname, sty), fl)
            node = fe if fe is not None else Node("var", fl, name=fname)
            ty, t = self.ex(node, fty, pre)
            if ty != fty:
                raise Unsupported("field `%s: %s` initialised with a `%s` (rustc would reject)" % (fname, type_str(fty), type_str(ty)), fl)
            given[fname] = t
        if set(given) != set(f for f, _ in fields):
            raise Unsupported("struct literal of `%s` does not give every field (rustc would reject)" % sty, e.line)
        for f, _ in fields:
            terms.append("%s := %s" % (lean_name(f), given[f]))
        return sty, "({ %s } : %s)" % (", ".join(terms), lean_type(sty))

    def ex_aeadmacro(self, e, pre):
        """`method_match_aead_fn!(self, encrypt_in_place_detached, (nonce.into(), aad, buffer))` = `cipher.encrypt_in_place_detached(..)`
        on whichever variant `self` is: the assumed external `cipher_encrypt_in_place_detached`"""
        if e.name != "encrypt_in_place_detached" or self.self_type != "CipherMethod" or len(e.args) != 3:
            raise Unsupported("`method_match_aead_fn!(self, %s, ..)` (only the detached encryption is known)" % e.name, e.line)
        a0 = e.args[0]
        if not (a0.kind == "mcall" and a0.name == "into" and not a0.args):
            raise Unsupported("first argument of the cipher call is not `nonce.into()`", e.line)
        nty, n = self.ex(a0.base, None, pre)
        aty, a = self.ex(e.args[1], None, pre)
        if nty != "SliceU8" or aty != "SliceU8":
            raise Unsupported("nonce / associated data of the cipher call are not `&[u8]`", e.line)
        v = self.place(e.args[2], "the cipher call")
        if v.ty != "SliceU8":
            raise Unsupported("buffer of the cipher call is not a `&mut [u8]`", e.line)
        x = self.fresh()
        b = lean_name(v.name)
        pre.append("Flow.bind (Flow.detached (%s.cipher_encrypt_in_place_detached %s %s %s) %s) fun (%s, %s) =>" % (SELF_NAME[0], n, a, b, b, b, x))
        return ("result", "Tag"), x

    def ex_call(self, e, expected, pre):
        if getattr(e, "targ", None) is not None:
            if e.segs[-1] != "size_of" or e.segs[:-1] not in ([], ["mem"], ["std", "mem"], ["core", "mem"]):
                raise Unsupported("call `%s`" % show_expr(e), e.line)
            if len(e.segs) == 1 and self.in_main:
                self.require_use("size_of", e.line)
            ty, _ = self.resolve_type(e.targ)
            if ty not in ("u8", "u16", "u32", "u64", "usize"):
                raise Unsupported("`size_of::<%s>()`" % _show_type(e.targ), e.line)
            return "usize", "Mem.size_of_%s" % ty
        if e.segs == ["IncreasingNonceGenerator", "init"]:
            if self.in_main:
                self.require_use("IncreasingNonceGenerator", e.line)
            if e.args:
                raise Unsupported("`IncreasingNonceGenerator::init` with arguments", e.line)
            x = self.fresh()
            pre.append("Flow.bind (Flow.call (Octo.NonceGen.IncreasingNonceGenerator.init %s)) fun %s =>" % (self.ov, x))
            return "IncreasingNonceGenerator", x
        return tt.Gen.ex_call(self, e, expected, pre)

    # receivers: a variable, or a field of a variable (written back when the method takes `&mut self`)
    def receiver(self, base, need_mut, pre, what):
        """(term, write-back function taking the new value's term and appending to pre)"""
        b = base
        while b.kind in ("paren", "ref", "deref"):
            b = b.expr
        if b.kind == "var":
            v = self.lookup(b.name, b.line)
            if need_mut and not v.mut:
                raise Unsupported("%s needs `&mut self`, `%s` is not mutable (rustc would reject)" % (what, b.name), b.line)
            return lean_name(v.name), v.ty, (lambda t, v=v: pre.append("let %s : %s := %s" % (lean_name(v.name), lean_type(v.ty), t)))
        if b.kind == "field":
            bb = b.base
            while bb.kind in ("paren", "ref", "deref"):
                bb = bb.expr
            if bb.kind == "var":
                v = self.lookup(bb.name, bb.line)
                fty = self.field_ty(v.ty, b.name)
                if fty is None:
                    raise Unsupported("field `.%s` of a `%s`" % (b.name, type_str(v.ty)), b.line)
                if need_mut and not v.mut:
                    raise Unsupported("%s needs `&mut self`, `%s` is not mutable (rustc would reject)" % (what, bb.name), b.line)
                term = "%s.%s" % (lean_name(v.name), lean_name(b.name))
                return term, fty, (lambda t, v=v, f=b.name: pre.append(
                    "let %s : %s := { %s with %s := %s }" % (lean_name(v.name), lean_type(v.ty), lean_name(v.name), lean_name(f), t)))
            if not need_mut:
                ty, t = self.ex(b, None, pre)
                return t, ty, None
        if not need_mut:
            ty, t = self.ex(b, None, pre)
            return t, ty, None
        raise Unsupported("%s on `%s` (only on a variable or a field of a variable)" % (what, show_expr(base)), base.line)

    def call_translated(self, f, base, arg_nodes, pre, line):
        """call of a translated method `base.f(args)`: receiver, arguments left to right, then the call; the callee's panic is
        the caller's; a `&mut self` receiver and `&mut` arguments get their final values"""
        if len(arg_nodes) != len(f.params):
            raise Unsupported("%s takes %d argument(s), %d given (rustc would reject)" % (f.what, len(f.params), len(arg_nodes)), line)
        if f.lean in self.fuel_fns:
            raise Unsupported("call of %s, which contains a loop" % f.what, line)
        rterm, rty, rwb = self.receiver(base, f.recv == "mut", pre, f.what)
        outs = []      # write-backs in the order of the callee's result tuple
        terms = []
        if f.recv == "mut":
            outs.append(rwb)
        roots = set()
        for a, (want, mut) in zip(arg_nodes, f.params):
            if mut:
                s = a
                while s.kind in ("paren", "ref", "deref"):
                    s = s.expr
                if s.kind == "var":
                    v = self.place(a, "passing `&mut` to %s" % f.what)
                    if not (v.ty == want or (want == "DynBuffer" and v.ty == "BytesMut")):
                        raise Unsupported("argument of %s has type `%s`, expected `%s` (rustc would reject)" % (f.what, type_str(v.ty), type_str(want)), a.line)
                    if v.name in roots:
                        raise Unsupported("`%s` borrowed mutably twice (rustc would reject)" % v.name, a.line)
                    roots.add(v.name)
                    terms.append(lean_name(v.name))
                    outs.append(lambda t, v=v: pre.append("let %s : %s := %s" % (lean_name(v.name), lean_type(v.ty), t)))
                else:
                    # `&mut <temporary>`: the value is passed, its final content is dropped with the temporary
                    if not (a.kind == "ref" and a.mut):
                        raise Unsupported("argument `%s` of %s (a `&mut` place or `&mut <temporary>`)" % (show_expr(a), f.what), a.line)
                    ty, t = tt.Gen.ex(self, s, None, pre)
                    if not (ty == want or (want == "DynBuffer" and ty == "BytesMut")):
                        raise Unsupported("argument of %s has type `%s`, expected `%s` (rustc would reject)" % (f.what, type_str(ty), type_str(want)), a.line)
                    terms.append(t)
                    outs.append(None)
            else:
                ty, t = self.ex(a, want if want != "SliceU8" else None, pre)
                if not (ty == want or (want == "SliceU8" and is_bytes(ty))):
                    raise Unsupported("argument of %s has type `%s`, expected `%s` (rustc would reject)" % (f.what, type_str(ty), type_str(want)), a.line)
                terms.append(t)
        # the receiver term is read after the arguments have been evaluated (they may have updated other fields of it)
        rterm, _, _ = self.receiver(base, f.recv == "mut", [], f.what)
        x = self.fresh()
        names = [self.fresh() for _ in outs]
        pre.append("Flow.bind (Flow.call (%s)) fun %s =>" % (" ".join([f.lean, self.ov, rterm] + terms), self.pat(names + [x])))
        for n, wb in zip(names, outs):
            if wb is not None:
                wb(n)
        return f.ret, x

    def ex_mcall(self, e, expected, pre):
        rty = self.try_type(e.base)
        what = "`.%s(..)`" % e.name
        if isinstance(rty, str) and (rty, e.name) in self.fns and self.fns[(rty, e.name)].recv is not None:
            return self.call_translated(self.fns[(rty, e.name)], e.base, e.args, pre, e.line)
        if rty == "IncreasingNonceGenerator" and e.name == "generate":
            if e.args:
                raise Unsupported("`generate` with arguments", e.line)
            rterm, _, wb = self.receiver(e.base, True, pre, "`IncreasingNonceGenerator::generate`")
            g, x = self.fresh(), self.fresh()
            pre.append("Flow.bind (Flow.call (Octo.NonceGen.IncreasingNonceGenerator.generate %s %s)) fun (%s, %s) =>" % (self.ov, rterm, g, x))
            wb(g)
            return "SliceU8", "%s.toList" % x
        if rty == "CipherMethod" and e.name in ("encrypt_in_place", "decrypt_in_place"):
            if len(e.args) != 3:
                raise Unsupported("%s takes 3 arguments (rustc would reject)" % what, e.line)
            nty, n = self.ex(e.args[0], None, pre)
            aty, a = self.ex(e.args[1], None, pre)
            if not (nty == "SliceU8" and is_bytes(aty)):
                raise Unsupported("nonce / associated data of %s are not byte slices" % what, e.line)
            v = self.place(e.args[2], what)
            if v.ty not in ("DynBuffer", "BytesMut"):
                raise Unsupported("buffer of %s is a `%s`" % (what, type_str(v.ty)), e.line)
            rterm, _, _ = self.receiver(e.base, False, pre, what)
            b = lean_name(v.name)
            x = self.fresh()
            pre.append("Flow.bind (Flow.in_place (CipherMethod.%s %s %s %s %s) %s) fun (%s, %s) =>" % (e.name, rterm, n, a, b, b, b, x))
            return ("result", "unit"), x
        if e.name == "reserve" and rty == "BytesMut":
            # capacity only: no observable effect (running out of memory is not modelled)
            v = self.place(e.base, what)
            (t,) = self.args(e, ["usize"], pre, what)
            return "unit", "()"
        if e.name == "copy_from_slice" and rty == "SliceU8":
            v = self.place(e.base, what)
            (t,) = self.args(e, ["bytes"], pre, what)
            n = lean_name(v.name)
            pre.append("Flow.bind (Flow.copy_from_slice %s %s) fun %s =>" % (n, t, n))
            return "unit", "()"
        if rty is not None and method_sig(rty, e.name) is not None and method_sig(rty, e.name)[2] == "pure":
            # a pure library method: the receiver may be any expression (e.g. a field path)
            argtys, ret, kind, fn = method_sig(rty, e.name)
            _, r = self.ex(e.base, None, pre)
            terms = self.args(e, argtys, pre, what)
            return ret, "(%s)" % " ".join([fn, r] + terms)
        return tt.Gen.ex_mcall(self, e, expected, pre)

    # ------------------------------------------------------------------------------------
    # statements
    # ------------------------------------------------------------------------------------
    def ret_term(self, val):
        names = ([SELF_NAME[0]] if self.recv == "mut" else [])
        for n in self.mut_params:
            if n in self.alias:
                a, b = self.alias[n]
                names.append("(%s ++ %s)" % (lean_name(a), lean_name(b)))
            else:
                names.append(lean_name(n))
        t = "(%s)" % ", ".join(names + [val]) if names else val
        if self.has_loop:
            return "(some %s)" % t
        return t

    def outer_mutated(self, nodes):
        """outer variables that may be assigned / advanced / appended to inside `nodes` (syntactic over-approximation: the root of
        every assignment target, of every receiver of a method that is not a known pure one, of every `&mut` operand and of
        every argument in a `&mut` position of a translated method)"""
        found, declared = [], set()

        def root(e):
            b = e
            while b.kind in ("paren", "ref", "deref", "index", "field", "index_full", "try"):
                b = b.expr if b.kind in ("paren", "ref", "deref", "try") else b.base
            return b

        def add(e):
            b = root(e)
            if b.kind == "mcall":
                add(b.base)
            elif b.kind == "var" and b.name not in found:
                found.append(b.name)

        def walk(n):
            if isinstance(n, list):
                for x in n:
                    walk(x)
                return
            if not isinstance(n, Node):
                return
            if n.kind in ("let", "pbind"):
                declared.add(n.name)
            if n.kind == "letsplit":
                declared.add(n.a)
                declared.add(n.b)
            if n.kind == "assign":
                add(n.target)
            if n.kind == "idiom":
                for name in ("self", n.dst):
                    if name not in found:
                        found.append(name)
            if n.kind == "ref" and n.mut:
                add(n.expr)
            if n.kind == "mcall":
                pure = n.name in ("len", "is_empty", "remaining", "has_remaining", "min", "tag_size", "as_slice", "to_vec", "reserve")
                for key, f in self.fns.items():
                    if key[1] == n.name and f.recv is not None:
                        pure = f.recv != "mut"
                        for a, (_, mut) in zip(n.args, f.params):
                            if mut:
                                add(a)
                if n.name in ("encrypt_in_place", "decrypt_in_place") and len(n.args) == 3:
                    add(n.args[2])
                    pure = True
                if not pure:
                    add(n.base)
            if n.kind == "aeadmacro" and n.args:
                add(n.args[-1])
            for key, val in n.__dict__.items():
                if key in ("kind", "line", "ty", "targ"):
                    continue
                if isinstance(val, (Node, list)):
                    walk(val)
                if key == "fields" and isinstance(val, list):
                    for item in val:
                        if isinstance(item, tuple) and isinstance(item[1], Node):
                            walk(item[1])
        walk(nodes)
        names = []
        for n in found:
            if n in declared:
                continue
            for scope in self.scopes:
                if n in scope:
                    names.append(n)
                    break
        names.sort(key=lambda n: self.lookup(n, 0).order)
        return names

    def log_macro(self, e, ind):
        self.require_use(e.name, e.line)
        for a in e.args:
            if a.kind == "str":
                continue
            scratch = []
            saved = self.fresh_n
            self.ex(a, self.try_type(a), scratch)
            self.fresh_n = saved
            if scratch:
                raise Unsupported("argument `%s` of `%s!` can panic or has an effect" % (show_expr(a), e.name), a.line)
        self.emit(ind, "-- L%d: %s   (log output: skipped, its arguments are free of effects)" % (e.line, show_expr(e)))
        self.log_lines.append(e.line)

    def stmts(self, stmts, ind):
        done = False
        for s in stmts:
            if done:
                raise Unsupported("statement after `return` / a `loop` without `break`", s.line)
            k = s.kind
            if k == "exprstmt" and s.expr.kind == "macro" and s.expr.name in LOG_MACROS:
                self.log_macro(s.expr, ind)
            elif k == "exprstmt" and s.expr.kind == "loop":
                self.stmt_loop(s.expr, ind)
                done = True
            elif k == "exprstmt" and s.expr.kind == "while":
                self.stmt_while(s.expr, ind)
            elif k == "idiom":
                self.stmt_idiom(s, ind)
            elif k == "letsplit":
                self.stmt_letsplit(s, ind)
            elif k == "let" and s.name in [n for sc in self.scopes for n in sc] and not self.lookup(s.name, s.line).mut and False:
                pass
            else:
                done = tt.Gen.stmts(self, [s], ind)
        return done

    def loop_state(self, body):
        names = self.outer_mutated([body])
        if not names:
            raise Unsupported("loop that changes no variable", body.line)
        return names

    def stmt_loop(self, e, ind):
        """`loop { body }` without `break`: left only by `return` (or a panic); cut off after `fuel` iterations"""
        names = self.loop_state(e.body)
        self.emit(ind, "-- L%d: loop { ... }   (carries: %s; left only by `return`)" % (e.line, ", ".join(names)))
        self.emit(ind, "Flow.loop (fun %s =>" % self.pat(names))
        self.cf(e.body, ind + 2, ("stmt", names))
        self.emit(ind, "  ) %s %s" % (self.fuel, self.pat(names)))

    def stmt_while(self, e, ind):
        names = self.loop_state(e.body)
        for n in self.outer_mutated([e.cond]):
            raise Unsupported("`while` condition with an effect on `%s`" % n, e.line)
        cpre = []
        cty, c = self.ex(e.cond, "bool", cpre)
        if cpre or cty != "bool":
            raise Unsupported("`while` condition that can panic / is not a `bool`", e.line)
        self.emit(ind, "-- L%d: while %s { ... }   (carries: %s)" % (e.line, show_expr(e.cond), ", ".join(names)))
        self.emit(ind, "Flow.bind (Flow.while (fun %s => %s) (fun %s =>" % (self.pat(names), c, self.pat(names)))
        self.cf(e.body, ind + 2, ("stmt", names))
        self.emit(ind, "  ) %s %s) fun %s =>" % (self.fuel, self.pat(names), self.pat(names)))

    def cf(self, e, ind, mode):
        if e.kind == "loop":
            if mode[0] != "tail":
                raise Unsupported("`loop` in value position", e.line)
            self.stmt_loop(e, ind)
            return
        if e.kind == "while":
            raise Unsupported("`while` in value position", e.line)
        tt.Gen.cf(self, e, ind, mode)

    def stmt_idiom(self, s, ind):
        """the trusted idiom (see the generated header)"""
        self.require_use("slice", s.line)
        dst = self.lookup(s.dst, s.line)
        tag = self.lookup(s.tag, s.line)
        ln = self.lookup(s.len, s.line)
        slf = self.lookup("self", s.line)
        if not (dst.ty == "BytesMut" and dst.mut and tag.ty == "usize" and not tag.mut and ln.ty == "usize" and slf.mut):
            raise Unsupported("types in the trusted idiom (dst: &mut BytesMut, tag size: usize, len: usize, &mut self)", s.line)
        f = self.fns.get((slf.ty, s.method))
        if f is None or f.recv != "mut" or f.params != [("SliceU8", True)] or f.ret != ("result", "unit"):
            raise Unsupported("`self.%s(..)` in the trusted idiom is not a translated `fn(&mut self, &mut [u8]) -> Result<(), _>`" % s.method, s.line)
        for n in (s.temp,):
            for scope in self.scopes:
                if n in scope:
                    raise Unsupported("`%s` of the trusted idiom shadows a variable" % n, s.line)
        D, T, L, X = lean_name(s.dst), lean_name(s.tag), lean_name(s.len), lean_name(s.temp)
        me = lean_name("self")
        self.emit(ind, "-- L%d-L%d: TRUSTED IDIOM  %s.reserve(2 + %s); let %s = &mut %s.chunk_mut()[..2 + %s]; <raw slice>; %s.put_u16(%s as u16);"
                  % (s.line, s.end, s.dst, s.tag, s.temp, s.dst, s.tag, s.dst, s.len))
        self.emit(ind, "--            self.%s(%s)?; unsafe { %s.advance_mut(%s) }   =   the 2 length bytes and %s spare bytes are handed to `%s`"
                  % (s.method, s.temp, s.dst, s.tag, s.tag, s.method))
        self.emit(ind, "--            in place and then belong to `%s`; on `Err` only the 2 bytes of `put_u16` have been appended" % s.dst)
        self.emit(ind, "Flow.bind (Flow.arith %s (U64.addOk (2 : Usize) %s)) fun () =>   -- `2 + %s` of `reserve`" % (self.ov, T, s.tag))
        self.emit(ind, "Flow.bind (Flow.arith %s (U64.addOk (2 : Usize) %s)) fun () =>   -- `2 + %s` of `[..2 + %s]`" % (self.ov, T, s.tag, s.tag))
        self.emit(ind, "let %s : List UInt8 := Cursor.put_u16 [] (Usize.as_u16 %s) ++ Spare.bytes %s" % (X, L, T))
        x = self.fresh()
        self.emit(ind, "Flow.bind (Flow.call (%s %s %s %s)) fun (%s, %s, %s) =>" % (f.lean, self.ov, me, X, me, X, x))
        saved = D
        self.emit(ind, "Flow.bind (Flow.question %s %s) fun %s =>" % (x, self.ret_term_with({s.dst: "(%s ++ %s.take 2)" % (D, X)}, "RResult.err"), self.fresh()))
        self.emit(ind, "let %s : Cursor := %s ++ %s" % (D, saved, X))
        self.idiom_lines.append((s.line, s.end))

    def ret_term_with(self, subst, val):
        names = ([SELF_NAME[0]] if self.recv == "mut" else [])
        for n in self.mut_params:
            names.append(subst.get(n, lean_name(n)))
        t = "(%s)" % ", ".join(names + [val]) if names else val
        return "(some %s)" % t if self.has_loop else t

    def stmt_letsplit(self, s, ind):
        v = self.lookup(s.base, s.line)
        if not (v.ty == "SliceU8" and v.mut and s.base in self.mut_params) or s.base in self.alias:
            raise Unsupported("`split_at_mut` on `%s` (only on a `&mut [u8]` parameter, once)" % s.base, s.line)
        self.emit(ind, "-- L%d: let (%s, %s) = %s.split_at_mut(%s);" % (s.line, s.a, s.b, s.base, show_expr(s.at)))
        pre = []
        ty, t = self.ex(s.at, "usize", pre)
        if ty != "usize":
            raise Unsupported("`split_at_mut` at a `%s` (rustc would reject)" % type_str(ty), s.line)
        self.emit_pre(ind, pre)
        self.declare(s.a, "SliceU8", True, s.line)
        self.declare(s.b, "SliceU8", True, s.line)
        self.emit(ind, "Flow.bind (Flow.split_at_mut %s %s) fun (%s, %s) =>" % (lean_name(s.base), t, lean_name(s.a), lean_name(s.b)))
        self.alias[s.base] = (s.a, s.b)

    # ------------------------------------------------------------------------------------
    # items
    # ------------------------------------------------------------------------------------
    def register_struct(self, st):
        fields = []
        for f in st.fields:
            ty, mut = self.resolve_type(f.ty)
            if mut or ty in ("unit", "str", "anyerr", "DynBuffer", "SliceU8") or (isinstance(ty, tuple) and ty[0] == "result"):
                raise Unsupported("field `%s: %s`" % (f.name, _show_type(f.ty)), f.line)
            if any(f.name == g[0] for g in fields):
                raise Unsupported("duplicate field `%s`" % f.name, f.line)
            fields.append((f.name, ty))
        if not fields:
            raise Unsupported("`struct %s` without fields" % st.name, st.line)
        self.structs[st.name] = fields
        KNOWN_NAMED.add(st.name)
        out = self.out
        out.append("/-! ### struct %s -/" % st.name)
        out.append("structure %s where" % st.name)
        for f, (fname, ty) in zip(st.fields, fields):
            out.append("  -- L%d: %s: %s" % (f.line, fname, _show_type(f.ty)))
            out.append("  %s : %s" % (lean_name(fname), lean_type(ty)))
        out.append("")

    def fn_sig(self, fn, qualifier, lean):
        params = []
        for prm in fn.params:
            ty, mut = self.resolve_type(prm.ty)
            if ty in ("unit", "str", "anyerr") or isinstance(ty, tuple) and ty[0] == "result":
                raise Unsupported("parameter of type `%s`" % _show_type(prm.ty), prm.line)
            if mut and ty not in ("BytesMut", "SliceU8", "DynBuffer"):
                raise Unsupported("`&mut %s` parameter" % type_str(ty), prm.line)
            if ty == "DynBuffer" and not mut:
                raise Unsupported("`dyn Buffer` parameter that is not `&mut`", prm.line)
            params.append((ty, mut))
        ret, _ = self.resolve_type(fn.ret)
        if ret in ("str", "anyerr", "DynBuffer", "SliceU8"):
            raise Unsupported("return type `%s`" % _show_type(fn.ret), fn.line)
        return FnSig(lean, getattr(fn, "recv", None), params, ret, "`%s::%s`" % (qualifier, fn.name))

    def contains_loop(self, n):
        if isinstance(n, list):
            return any(self.contains_loop(x) for x in n)
        if not isinstance(n, Node):
            return False
        if n.kind in ("loop", "while"):
            return True
        return any(self.contains_loop(v) for k, v in n.__dict__.items() if k not in ("kind", "line") and isinstance(v, (Node, list)))

    def gen_method(self, fn, qualifier, self_type, lean, in_main, origin):
        out = self.out
        self.self_type = self_type
        self.assoc_types = {}
        self.in_main = in_main
        self.scopes = [{}]
        self.order = 0
        self.lines = []
        self.unsafe_depth = 0
        self.uses_utf8 = False
        self.alias = {}
        self.has_loop = self.contains_loop(fn.body)
        sig = self.fn_sig(fn, qualifier, lean)
        self.ret_ty = sig.ret
        self.recv = sig.recv
        params, sigtxt = [], []
        self.mut_params = []
        if sig.recv is not None:
            if self_type not in self.structs and self_type != "CipherMethod":
                raise Unsupported("receiver of type `%s`" % self_type, fn.line)
            self.order += 1
            self.scopes[-1]["self"] = Var("self", self_type, sig.recv == "mut", self.order)
            params.append("(%s : %s)" % (SELF_NAME[0], lean_type(self_type)))
            sigtxt.append("&mut self" if sig.recv == "mut" else "&self")
        for prm, (ty, mut) in zip(fn.params, sig.params):
            self.declare(prm.name, ty, mut or prm.mutbind, prm.line)
            if mut:
                self.mut_params.append(prm.name)
            params.append("(%s : %s)" % (lean_name(prm.name), lean_type(ty)))
            sigtxt.append("%s%s: %s" % ("mut " if prm.mutbind else "", prm.name, _show_type(prm.ty)))
        self.cf(fn.body, 1, ("tail",))
        rty = lean_type(self.ret_ty)
        finals = (["final `*self`"] if sig.recv == "mut" else []) + ["final `*%s`" % n for n in self.mut_params]
        if finals:
            tys = ([lean_type(self_type)] if sig.recv == "mut" else []) + [lean_type(self.lookup(n, fn.line).ty) for n in self.mut_params]
            rty = " × ".join(tys + [lean_atom(self.ret_ty) if " × " in rty else rty])
        out.append("-- %s L%d: fn %s(%s) -> %s" % (origin, fn.line, fn.name, ", ".join(sigtxt), _show_type(fn.ret)))
        doc = "`%s::%s`" % (qualifier, fn.name)
        if finals:
            doc += "; the result is the tuple (%s, returned value)" % ", ".join(finals)
        head = ["(%s : Bool)" % self.ov]
        if self.has_loop:
            doc += "; `none` = a loop was cut off after `%s` iterations (nothing is said about the Rust then)" % self.fuel
            head.append("(%s : Nat)" % self.fuel)
            rty = "Option (%s)" % rty
            self.fuel_fns.add(lean)
        out.append("/-- %s -/" % doc)
        out.append("def %s %s : Res (%s) :=" % (lean, " ".join(head + params), rty))
        out.append("  Flow.run (")
        out.extend(self.lines)
        out.append("  )")
        out.append("")
        self.fns[(qualifier, fn.name)] = sig
        self.self_type = None
        self.recv = None
        self.has_loop = False
        return sig


# --------------------------------------------------------------------------------------------
# fixed run-time support written into every generated file
# --------------------------------------------------------------------------------------------

PRELUDE = r'''
/-! ### fixed run-time support (not derived from the source): library semantics

`Res`, `Flow`, `Flow.bind/run/arith`, `Usize` are those of `Octo.PWGen`; `RResult`, `Flow.question`, `Cursor`, the `bytes`
operations and the integer casts are those of `Octo.AddrGen` (`Octo/Gen/AddrGen.lean`); `IncreasingNonceGenerator` with `init` /
`generate` is `Octo.NonceGen` (`Octo/Gen/NonceGen.lean`, generated from codec/aead.rs). -/

/-- call of a translated function: its value, or its panic -/
def Flow.call {α ρ : Type} : Res α → Flow α ρ
  | .ok a => .next a
  | .panic => .panic

/-- `size_of::<T>()` -/
def Mem.size_of_u8 : Usize := 1
def Mem.size_of_u16 : Usize := 2
def Mem.size_of_u32 : Usize := 4
def Mem.size_of_u64 : Usize := 8
def Mem.size_of_usize : Usize := 8

/-- `a.min(b)` on `usize` -/
def Usize.min (a b : Usize) : Usize := if a ≤ b then a else b

/-- `BytesMut::split_off(at)`: panics when `at > len`; yields (what `self` keeps = the first `at` bytes, the returned rest) -/
def Flow.split_off {ρ : Type} (b : Cursor) (n : Usize) : Flow (Cursor × Cursor) ρ :=
  if n.toNat ≤ b.length then .next (b.take n.toNat, b.drop n.toNat) else .panic

/-- `s.split_at_mut(mid)`: panics when `mid > len`; the two disjoint views (the slice *is* their concatenation from then on) -/
def Flow.split_at_mut {ρ : Type} (s : List UInt8) (mid : Usize) : Flow (List UInt8 × List UInt8) ρ :=
  if mid.toNat ≤ s.length then .next (s.take mid.toNat, s.drop mid.toNat) else .panic

/-- `dst.copy_from_slice(src)`: panics when the lengths differ; the new content of `dst` -/
def Flow.copy_from_slice {ρ : Type} (dst src : List UInt8) : Flow (List UInt8) ρ :=
  if src.length = dst.length then .next src else .panic

/-- `loop { body }` without `break`: the body falls through (`next`: the next iteration), returns or panics; after `fuel`
iterations the loop is cut off and the function's result is `none` (no statement about the Rust) -/
def Flow.loop {σ ρ : Type} (body : σ → Flow σ (Option ρ)) : Nat → σ → Flow Empty (Option ρ)
  | 0, _ => .ret none
  | fuel + 1, s =>
    match body s with
    | .next s' => Flow.loop body fuel s'
    | .ret r => .ret r
    | .panic => .panic

/-- `while cond { body }`, cut off in the same way -/
def Flow.while {σ ρ : Type} (cond : σ → Bool) (body : σ → Flow σ (Option ρ)) : Nat → σ → Flow σ (Option ρ)
  | 0, s => if cond s then .ret none else .next s
  | fuel + 1, s => if cond s then (body s).bind (Flow.while cond body fuel) else .next s

/-! ### ASSUMED EXTERNALS: the AEAD behind `CipherMethod` (codec/aead.rs dispatches to the crates `aes-gcm`, `chacha20poly1305`)

A `CipherMethod` value (an AEAD algorithm with its key schedule) is seen through the four operations the translated code
uses.  Each is total here; what the crates do beyond that is not modelled:
 * `tag_size`: `<Alg as AeadCore>::TagSize::USIZE` of the variant (`method_match_aead_trait!`);
 * `encrypt_in_place nonce aad buf` / `decrypt_in_place nonce aad buf` (`AeadInPlace::{en,de}crypt_in_place` on a `dyn Buffer`):
   `Err`, or the new content of the buffer (ciphertext ‖ tag, resp. the plaintext); on `Err` the buffer is taken to be unchanged;
 * `cipher_encrypt_in_place_detached nonce aad buf` (`AeadInPlace::encrypt_in_place_detached` on a `&mut [u8]`): `Err`, or
   (the new content of the buffer, the tag);
 * `nonce.into()` (slice → `GenericArray`) panics in the crate when the nonce has the wrong length - not modelled: every nonce
   handed over comes from `IncreasingNonceGenerator` (12 bytes), which is the nonce size of every variant Shadowsocks constructs. -/
structure CipherMethod where
  tag_size : Usize
  encrypt_in_place : List UInt8 → List UInt8 → List UInt8 → RResult (List UInt8)
  decrypt_in_place : List UInt8 → List UInt8 → List UInt8 → RResult (List UInt8)
  cipher_encrypt_in_place_detached : List UInt8 → List UInt8 → List UInt8 → RResult (List UInt8 × List UInt8)

/-- an in-place operation on a `dyn Buffer`: (content of the buffer afterwards, `Ok(())` / `Err`) -/
def Flow.in_place {ρ : Type} (r : RResult (List UInt8)) (old : List UInt8) : Flow (List UInt8 × RResult Unit) ρ :=
  match r with
  | .ok b => .next (b, .ok ())
  | .err => .next (old, .err)

/-- the detached in-place encryption of a `&mut [u8]`: (content of the slice afterwards, `Ok(tag)` / `Err`) -/
def Flow.detached {ρ : Type} (r : RResult (List UInt8 × List UInt8)) (old : List UInt8) : Flow (List UInt8 × RResult (List UInt8)) ρ :=
  match r with
  | .ok (b, t) => .next (b, .ok t)
  | .err => .next (old, .err)

/-- `GenericArray::as_slice` of a tag -/
def Tag.as_slice (t : List UInt8) : List UInt8 := t

/-- the `n` bytes of spare capacity behind the 2 length bytes in the trusted idiom of `encode_chunk`: uninitialised memory,
represented by zeros; the translated callee only overwrites them (`Octo/Proofs/SsChunkGen.lean`: `detached_spare_irrelevant`) -/
def Spare.bytes (n : Usize) : List UInt8 := List.replicate n.toNat 0
'''


# --------------------------------------------------------------------------------------------
# driver
# --------------------------------------------------------------------------------------------

def parse_source(path, role):
    data = open(path, "rb").read()
    try:
        src = data.decode("utf-8")
    except UnicodeDecodeError:
        raise Unsupported("non-UTF-8 source %s" % path, 1)
    toks = tn.tokenize(src)
    p = Parser(toks, role)
    try:
        p.parse_file()
    except Unsupported as u:
        if role != "main":
            raise Unsupported("%s (in %s)" % (u.what, os.path.basename(path)), u.line)
        raise
    return data, toks, p


def check_externals(ap, fname):
    for name, want in list(EXT_SHAPES.items()) + list(MACRO_SHAPES.items()) + [("enum CipherMethod", ENUM_SHAPE)]:
        got = ap.ext_tokens.get(name)
        if got is None:
            raise Unsupported("`%s` not found in %s" % (name, fname), 1)
        if got[1] != want.split():
            k = next((i for i, (a, b) in enumerate(zip(got[1], want.split())) if a != b), min(len(got[1]), len(want.split())))
            raise Unsupported("`%s` in %s is not the dispatch to the AEAD crates the translator knows (token %d: `%s`)"
                              % (name, fname, k, got[1][k] if k < len(got[1]) else "<end>"), got[0])
    for n in ("init", "generate"):
        if n not in ap.nonce_items:
            raise Unsupported("`IncreasingNonceGenerator::%s` not found in %s" % (n, fname), 1)


def header(path, digest, p, apath, adigest, g):
    L = []
    L.append("/- GENERATED by translate_sschunk.py — do not edit.")
    L.append("   source: %s" % path)
    L.append("   sha256: %s" % digest)
    L.append("   further source (found next to the first):")
    L.append("     - aead.rs (sha256 %s): `CipherMethod::encrypt_in_place_detached` (translated); the shapes of `enum CipherMethod`," % adigest)
    L.append("       `tag_size`, `encrypt_in_place`, `decrypt_in_place`, `method_match_aead_fn!`, `method_match_aead_trait!` (checked token")
    L.append("       for token: assumed externals); `IncreasingNonceGenerator::{init, generate}` (bodies: Octo.NonceGen)")
    L.append("")
    L.append("   Statement-by-statement translation of the top-level structs / enums of the source and of the methods of their inherent")
    L.append("   `impl` blocks.  Conventions of translate_addr.py / translate_trojan.py (see Octo/Gen/AddrGen.lean, TrojanGen.lean):")
    L.append("   u8/u16/usize = UIntN (usize = 64 bit), `as` = zero-extension / truncation, `+ - *` wrap and are preceded by")
    L.append("   `Flow.arith ov (..)` (panic when overflow-checks are on), `BytesMut`/`&[u8]` = List UInt8 (a read cursor = the bytes that")
    L.append("   remain; appending at the end), `get_*`/`split_to`/`split_off` panic when fewer bytes remain, `Result<T, aead::Error>` =")
    L.append("   RResult T, `e?` = Flow.question, `match` = a case tree over the constructors; a method with `&mut self` takes the struct")
    L.append("   value first and returns (final `*self`, final `&mut` arguments.., returned value) - also on `Err`; a call of a translated")
    L.append("   function is `Flow.call` (the callee's panic is the caller's panic).  In addition here:")
    L.append("   * `&mut [u8]` and `&mut dyn Buffer` = List UInt8, returned with their final content; `&mut <temporary>`: the final")
    L.append("     content is dropped; a by-value `mut` parameter is a local variable;")
    L.append("   * `x.f.m(..)` with `&mut self`: the field is written back (`{ x with f := .. }`) - also when the call returns `Err`;")
    L.append("   * `let (a, b) = s.split_at_mut(k)`: panics when `k > s.len()`; from then on `s` is `a ++ b`;")
    L.append("   * `reserve` changes the capacity only: no effect (memory exhaustion is not modelled);")
    L.append("   * LOOPS: a function that contains `loop` / `while` takes `%s : Nat` and returns an `Option`: every loop runs at most `%s`" % (g.fuel, g.fuel))
    L.append("     iterations; `none` = a loop was cut off (then nothing is said about the Rust).  Octo/Proofs/SsChunkGen.lean proves")
    L.append("     that a `%s` above the buffer length is never exhausted (the buffer shrinks in every iteration that does not return)." % g.fuel)
    L.append("   * TRUSTED IDIOM (`unsafe`, recognised token by token, lines %s):" % ", ".join("%d-%d" % x for x in g.idiom_lines))
    L.append("         D.reserve(2 + T); let X = &mut D.chunk_mut()[..2 + T];")
    L.append("         let X = unsafe { slice::from_raw_parts_mut(X.as_mut_ptr(), X.len()) };")
    L.append("         D.put_u16(L as u16); self.M(X)?; unsafe { D.advance_mut(T) };")
    L.append("     `X` aliases the spare capacity of `D`: the 2 bytes `put_u16` writes and the `T` uninitialised bytes behind them.  It is")
    L.append("     translated as: X := be16(L as u16) ++ T spare bytes; `self.M(X)` works on X in place; on `Err` D has grown by the first 2")
    L.append("     bytes of X; otherwise D := D ++ X.  Trusted: that the raw slice is exactly this alias and that `chunk_mut` / `advance_mut`")
    L.append("     have room (guaranteed by the `reserve`); the two `2 + T` are overflow-checked.")
    L.append("   * log macros (%s) are skipped; their arguments were checked to be free of effects and panics." %
             (", ".join("line %d" % x for x in g.log_lines) if g.log_lines else "none here"))
    L.append("   ASSUMED EXTERNALS (fields of `structure CipherMethod` below, never defaulted): tag_size, encrypt_in_place,")
    L.append("     decrypt_in_place, cipher_encrypt_in_place_detached.")
    L.append("   names are bound through the `use` items of the source (checked for: %s)." % ", ".join(sorted(g.used_names)))
    L.append("   skipped (not parsed, bracket matching only):")
    if p.nuse:
        L.append("     - %d `use` items (read for name binding only)" % p.nuse)
    for s in p.skipped:
        L.append("     - %s" % s)
    L.append("-/")
    return L


def topo_methods(methods, line):
    """callee before caller (by `self.name(` occurrences, the trusted idiom included); a cycle is unsupported"""
    names = {m[0].name for m in methods}

    def callees(fn):
        found = set()

        def walk(n):
            if isinstance(n, list):
                for x in n:
                    walk(x)
            elif isinstance(n, Node):
                if n.kind == "mcall" and n.name in names and n.base.kind == "var" and n.base.name == "self":
                    found.add(n.name)
                if n.kind == "idiom" and n.method in names:
                    found.add(n.method)
                for key, val in n.__dict__.items():
                    if key not in ("kind", "line") and isinstance(val, (Node, list)):
                        walk(val)
        walk(fn.body)
        return found
    order, state, by_name = [], {}, {}
    for m in methods:
        if m[0].name in by_name:
            raise Unsupported("two methods named `%s`" % m[0].name, m[0].line)
        by_name[m[0].name] = m

    def visit(n):
        if state.get(n) == 2:
            return
        if state.get(n) == 1:
            raise Unsupported("recursive method `%s`" % n, by_name[n][0].line)
        state[n] = 1
        for c in sorted(callees(by_name[n][0])):
            visit(c)
        state[n] = 2
        order.append(by_name[n])
    for m in methods:
        visit(m[0].name)
    return order


def translate(path, out_path):
    data, toks, p = parse_source(path, "main")
    digest = hashlib.sha256(data).hexdigest()
    idents = [t.text for t in toks if t.kind == "ident"]
    here = os.path.dirname(os.path.abspath(path))
    apath = os.path.join(here, "aead.rs")
    if not os.path.exists(apath):
        raise Unsupported("source file codec/aead.rs not found (looked for %s)" % apath, 1)
    adata, atoks, ap = parse_source(apath, "aead")
    adigest = hashlib.sha256(adata).hexdigest()
    idents += [t.text for t in atoks if t.kind == "ident"]
    check_externals(ap, "aead.rs")

    nonce_gen = os.path.join(os.path.dirname(os.path.abspath(out_path)), "NonceGen.lean")
    if os.path.exists(nonce_gen):
        m = re.search(r"sha256: (\w+)", open(nonce_gen, encoding="utf-8").read())
        if m and m.group(1) != adigest:
            raise OSError("%s was generated from another aead.rs (sha256 %s, this one is %s): run translate_nonce.py first"
                          % (nonce_gen, m.group(1)[:16], adigest[:16]))

    if not p.structs:
        raise Unsupported("no `struct` found", 1)
    g = Gen(idents, p.uses)

    # -- codec/aead.rs: CipherMethod::encrypt_in_place_detached
    aead_out = []
    g.out = aead_out
    if len(ap.aead_fns) != 1:
        raise Unsupported("`CipherMethod::encrypt_in_place_detached` not found exactly once in aead.rs", 1)
    aead_out.append("/-! ### `CipherMethod::encrypt_in_place_detached` (translated from codec/aead.rs) -/")
    g.uses = ap.uses
    try:
        g.gen_method(ap.aead_fns[0], "CipherMethod", "CipherMethod", "CipherMethod.encrypt_in_place_detached", False, "aead.rs impl CipherMethod")
    except Unsupported as u:
        raise Unsupported("%s (in aead.rs)" % u.what, u.line)
    sig = g.fns[("CipherMethod", "encrypt_in_place_detached")]
    if sig.recv != "ref" or sig.params != [("SliceU8", False), ("SliceU8", False), ("SliceU8", True)] or sig.ret != ("result", "unit"):
        raise Unsupported("signature of `CipherMethod::encrypt_in_place_detached` (in aead.rs)", ap.aead_fns[0].line)
    g.uses = p.uses

    # -- the source itself
    main_out = []
    g.out = main_out
    g.in_main = True
    for en in p.enums:
        if en.name in EXT_TYPES or en.name in LIB_NAMES:
            raise Unsupported("`enum %s`: a local definition of a name the translator reads as a library name" % en.name, en.line)
        g.register_enum(en, True, "this file")
    for st in p.structs:
        if st.name in EXT_TYPES or st.name in LIB_NAMES:
            raise Unsupported("`struct %s`: a local definition of a name the translator reads as a library name" % st.name, st.line)
        g.register_struct(st)
    by_ty = {}
    for im in p.impls:
        if im.ty not in g.structs:
            raise Unsupported("`impl %s`: not a struct of this file" % im.ty, im.line)
        by_ty.setdefault(im.ty, []).append(im)
    for st in p.structs:          # structs in source order: a method may call methods of the structs declared before
        methods = [(fn, im) for im in by_ty.get(st.name, []) for fn in im.fns]
        if not methods:
            continue
        main_out.append("/-! ### methods of `%s` -/" % st.name)
        for fn, im in topo_methods(methods, st.line):
            g.gen_method(fn, st.name, st.name, "%s.%s" % (st.name, lean_name(fn.name)), True, "impl %s" % im.ty)
    g.in_main = False

    out = []
    out.extend(header(path, digest, p, apath, adigest, g))
    out.append("import Octo.Gen.AddrGen")
    out.append("import Octo.Gen.NonceGen")
    out.append("set_option linter.unusedVariables false")
    out.append("namespace Octo.SsChunkGen")
    out.append("open Octo.PWGen Octo.AddrGen")
    out.append(PRELUDE)
    out.extend(aead_out)
    out.extend(main_out)
    out.append("end Octo.SsChunkGen")
    return "\n".join(out) + "\n"


def main(argv):
    if len(argv) != 3:
        sys.stderr.write("usage: translate_sschunk.py <path/to/octo-squirrel/src/codec/shadowsocks.rs> <out.lean>\n")
        return 2
    try:
        text = translate(argv[1], argv[2])
    except Unsupported as u:
        sys.stderr.write("translate_sschunk: unsupported: %s at line %d\n" % (u.what, u.line))
        return 3
    except OSError as e:
        sys.stderr.write("translate_sschunk: %s\n" % e)
        return 2
    try:
        with open(argv[2], "w", encoding="utf-8") as f:
            f.write(text)
    except OSError as e:
        sys.stderr.write("translate_sschunk: %s\n" % e)
        return 2
    return 0


if __name__ == "__main__":
    sys.exit(main(sys.argv))
