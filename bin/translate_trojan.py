#!/usr/bin/env python3
"""Rust-subset -> Lean 4 translator for the Trojan server codec `octo-squirrel-server/src/server/trojan.rs`.

usage:  translate_trojan.py <path/to/octo-squirrel-server/src/server/trojan.rs> <out.lean>

Translated from the argument (located by name): every top-level `enum` / `struct` (here `CodecState`, `ServerCodec`)
and every method of `impl ServerCodec`, `impl Decoder for ServerCodec`, `impl Encoder<..> for ServerCodec`
(`decode_packet`, `decode`, `encode`).  Free functions (`new_codec`: it hashes the password), cfg-gated items, other
impls and `use` items are skipped by balanced-bracket matching and listed in the generated header.

Five more source files are read; they are found relative to the argument (`<root>` = three directories above the
argument's directory, i.e. the workspace), or - for copies kept in one directory - under the flat name:

  message   <dir>/template.rs                                      `enum InboundIn`, `enum OutboundIn` (in `mod message`)
  socks5    <root>/octo-squirrel/src/protocol/socks5.rs  | <dir>/socks5.rs
                                                                   `enum Socks5CommandType { .. = n }`, `impl Socks5CommandType { fn new }`
  consts    <root>/octo-squirrel/src/protocol/trojan.rs  | <dir>/protocol_trojan.rs       `const CR_LF`
  address   <root>/octo-squirrel/src/protocol/address.rs | <dir>/address_type.rs
                                                                   `enum Address`, `impl From<SocketAddr> for Address { fn from }`
  codec     <root>/octo-squirrel/src/protocol/socks5/address.rs | <dir>/socks5_address.rs
                                                                   signatures of `encode`, `decode`, `try_decode_at` (their bodies are
                                                                   `Octo/Gen/AddrGen.lean`, written by translate_addr.py from the same file)
  util      <root>/octo-squirrel/src/util.rs | <dir>/util.rs       `mod hex`: the table `HEX_BYTES` (read from the source) and
                                                                   `fn encode`, which must be token-for-token the table lookup the
                                                                   translator knows (closures/iterators are outside the subset)

Tokenizer of translate_nonce.py, recursive-descent parser / type checker / emitter of translate_addr.py, extended here:
`impl` blocks with `&self` / `&mut self` receivers and associated types, struct fields (read, assigned), `Self`,
explicit discriminants and `Enum::V as u8`, `Option` (`Some` / `None`), tuple types and tuple patterns, byte literals
`b'x'`, array literals of bytes, `s[..]`, `==` / `!=` on byte strings, `u16::from_be_bytes`, `x.into()` through a
translated `From` impl, `||` / `&&` whose right operand can return or panic (short circuit), calls of translated
functions (a panic of the callee is a panic of the caller; `&mut` arguments come back updated), shadowing of an
immutable binding.  Names are bound through the file's `use` items (checked: `address` must be
`...::protocol::socks5::address`, and so on).

Exit status:
  0  a Lean module was written
  2  usage / IO error (also: an `AddrGen.lean` next to the output that was generated from another `address.rs`)
  3  a construct outside the supported subset inside a target item (or a target item / source file is missing);
     one line on stderr; nothing is written (never a guess).
"""
import hashlib
import os
import re
import sys

sys.path.insert(0, os.path.dirname(os.path.abspath(__file__)))
import translate_pw as pw  # noqa: E402
import translate_nonce as tn  # noqa: E402
import translate_addr as ta  # noqa: E402
from translate_pw import Unsupported, Node, RUST_KEYWORDS, LEAN_KEYWORDS  # noqa: E402
from translate_addr import (INTS, ARITH_INTS, BITS, LEAN_INT, PREFIX, ARITH_PREFIX, ALLOWED_ATTRS, show_type, show_pat,  # noqa: E402
                            is_bytes, Var)

TARGET_STRUCT = "ServerCodec"
TARGET_TRAITS = (None, "Decoder", "Encoder")
ADDR_FNS = ("encode", "decode", "try_decode_at")
LIB_NAMES = ("SocketAddr", "SocketAddrV4", "SocketAddrV6", "Ipv4Addr", "Ipv6Addr", "String", "BytesMut", "Bytes", "Vec",
             "Result", "Option", "Ok", "Err", "Some", "None", "Address", "Socks5AddressType", "Socks5CommandType",
             "InboundIn", "OutboundIn")

# what a name must be imported as for the translator to read it the way it does
USE_SUFFIX = {
    "address": ["protocol", "socks5", "address"],
    "trojan": ["protocol", "trojan"],
    "hex": ["util", "hex"],
    "Socks5CommandType": ["protocol", "socks5", "Socks5CommandType"],
    "InboundIn": ["template", "message", "InboundIn"],
    "OutboundIn": ["template", "message", "OutboundIn"],
    "BytesMut": ["bytes", "BytesMut"],
    "Decoder": ["codec", "Decoder"],
    "Encoder": ["codec", "Encoder"],
    "bail": ["anyhow", "bail"],
    "SocketAddr": ["net", "SocketAddr"],
}

HEX_ENCODE_TOKENS = ("fn encode ( bytes : & [ u8 ] ) -> String { bytes . iter ( ) . map ( | & b | unsafe { let i = 2 * b as usize ; "
                     "HEX_BYTES . get_unchecked ( i .. i + 2 ) } ) . collect ( ) }").split()

SELF_NAME = ["self_"]


# --------------------------------------------------------------------------------------------
# the functions of translate_addr that are looked up in that module by the inherited emitter methods are
# replaced there by the extended ones (this process only)
# --------------------------------------------------------------------------------------------

_addr_lean_type = ta.lean_type
_addr_type_str = ta.type_str
_addr_method_sig = ta.method_sig
_addr_show_expr = ta.show_expr
KNOWN_NAMED = set()     # enum / struct names declared in the generated file


def lean_type(t):
    if isinstance(t, tuple) and t[0] == "option":
        return "Option %s" % lean_atom(t[1])
    if isinstance(t, tuple) and t[0] == "tuple":
        return " × ".join(lean_atom(x) for x in t[1])
    if isinstance(t, tuple) and t[0] == "result":
        return "RResult %s" % lean_atom(t[1])
    if isinstance(t, str) and t in KNOWN_NAMED:
        return t
    return _addr_lean_type(t)


def lean_atom(t):
    s = lean_type(t)
    return "(%s)" % s if " " in s else s


def type_str(t):
    if isinstance(t, tuple) and t[0] == "option":
        return "Option<%s>" % type_str(t[1])
    if isinstance(t, tuple) and t[0] == "tuple":
        return "(%s)" % ", ".join(type_str(x) for x in t[1])
    if isinstance(t, tuple) and t[0] == "result":
        return "Result<%s>" % type_str(t[1])
    return _addr_type_str(t)


def lean_name(n):
    if n == "self":
        return SELF_NAME[0]
    return pw.lean_name(n)


def show_expr(e):
    k = e.kind
    if k == "field":
        return "%s.%s" % (show_expr(e.base), e.name)
    if k == "array":
        return "[%s]" % ", ".join(show_expr(x) for x in e.elems)
    if k == "index_full":
        return "%s[..]" % show_expr(e.base)
    if k == "lit" and getattr(e, "text", None):
        return e.text
    if k == "call":
        return "%s(%s)" % ("::".join(e.segs), ", ".join(show_expr(a) for a in e.args))
    if k == "macro":
        return "%s!(%s)" % (e.name, ", ".join(show_expr(a) for a in e.args))
    if k == "paren":
        return "(%s)" % show_expr(e.expr)
    if k == "bin":
        return "%s %s %s" % (show_expr(e.l), e.op, show_expr(e.r))
    if k == "cast":
        return "%s as %s" % (show_expr(e.expr), show_type(e.ty))
    if k == "index":
        return "%s[%s]" % (show_expr(e.base), show_expr(e.idx))
    if k == "ref":
        return "&%s%s" % ("mut " if e.mut else "", show_expr(e.expr))
    if k == "deref":
        return "*%s" % show_expr(e.expr)
    if k == "not":
        return "!%s" % show_expr(e.expr)
    if k == "try":
        return "%s?" % show_expr(e.expr)
    if k == "mcall":
        return "%s.%s(%s)" % (show_expr(e.base), e.name, ", ".join(show_expr(a) for a in e.args))
    if k == "return":
        return "return%s" % ((" " + show_expr(e.expr)) if e.expr else "")
    return _addr_show_expr(e)


def method_sig(rty, name):
    if isinstance(rty, tuple) and rty[0] in ("option", "tuple", "result"):
        return None
    return _addr_method_sig(rty, name)


def _show_type(t):
    if t.kind == "ttuple":
        return "(%s)" % ", ".join(_show_type(x) for x in t.elems)
    if t.kind == "tname":
        s = "::".join(t.segs)
        if t.args:
            s += "<%s>" % ", ".join(_show_type(a) for a in t.args)
        return s
    if t.kind == "tref":
        return "&%s%s" % ("mut " if t.mut else "", _show_type(t.inner))
    if t.kind == "tslice":
        return "[%s]" % _show_type(t.elem)
    return _addr_show_type(t)


_addr_show_type = ta.show_type
show_type = _show_type  # noqa: F811

ta.lean_type = lean_type
ta.lean_atom = lean_atom
ta.type_str = type_str
ta.lean_name = lean_name
ta.show_expr = show_expr
ta.method_sig = method_sig
ta.show_type = _show_type


class FnSig:
    """a translated (or, for `address::*`, separately generated) function that can be called"""
    def __init__(self, lean, recv, params, ret, what):
        self.lean = lean        # Lean name
        self.recv = recv        # None | "ref" | "mut"   (`&self` / `&mut self`)
        self.params = params    # [(type, is `&mut`)]
        self.ret = ret
        self.what = what        # for messages


# --------------------------------------------------------------------------------------------
# parser
# --------------------------------------------------------------------------------------------

class Parser(ta.Parser):
    """`role`: main | message | socks5 | consts | address | util"""

    def __init__(self, toks, role):
        ta.Parser.__init__(self, toks, False)
        self.role = role
        self.structs = []
        self.impls = []      # Node impl(trait, trait_args, ty, types, fns)
        self.consts = []
        self.uses = {}       # imported name -> path segments
        self.hex = None      # (table text line, table bytes, fn line)

    # -- items
    def wanted_enum(self, name, depth):
        return {"main": depth == 0, "message": name in ("InboundIn", "OutboundIn"), "socks5": name == "Socks5CommandType",
                "address": name == "Address"}.get(self.role, False)

    def wanted_impl(self, trait, targs, ty):
        if self.role == "main":
            return ty == TARGET_STRUCT and trait in TARGET_TRAITS
        if self.role == "socks5":
            return ty == "Socks5CommandType" and trait is None
        if self.role == "address":
            return ty == "Address" and trait == "From" and targs == ["SocketAddr"]
        return False

    def parse_use(self):
        line = self.expect("use").line

        def tree(prefix):
            if self.at("{"):
                self.advance()
                while not self.at("}"):
                    tree(list(prefix))
                    if not self.accept(","):
                        break
                self.expect("}")
                return
            if self.at("*"):
                self.advance()
                return
            t = self.tok
            if t.kind != "ident":
                raise Unsupported("`use` item", line)
            self.advance()
            prefix = prefix + [t.text]
            if self.accept("::"):
                tree(prefix)
                return
            name = prefix[-1]
            if self.accept("as"):
                name = self.advance().text
            if name == "self" and len(prefix) >= 2:
                name = prefix[-2]
                prefix = prefix[:-1]
            self.uses[name] = prefix
        self.accept("::")
        tree([])
        self.expect(";")
        self.nuse += 1

    def parse_file(self):
        self.parse_items(0, "eof")

    def parse_items(self, depth, stop):
        while not (self.tok.kind == "eof" or (stop == "}" and self.at("}"))):
            if self.at(";"):
                self.advance()
                continue
            first = self.tok
            attrs = self.parse_attrs()
            self.parse_vis()
            t = self.tok
            nxt = self.peek()
            gated = any(re.sub(r"\s+", "", text).startswith(("cfg(", "test")) for text, _ in attrs)
            kw = t.text
            name = nxt.text if nxt.kind == "ident" else ""
            if gated:
                end = self.skip_item()
                if self.role == "main":
                    self.note_skip("cfg/test-gated %s %s" % (kw, name), first.line, end)
                continue
            if self.at("use"):
                if depth == 0:
                    self.parse_use()
                else:
                    self.skip_item()
                continue
            if self.at("mod") and self.peek(2).text == "{":
                if self.role in ("message", "util"):
                    self.advance()
                    mname = self.ident().text
                    self.expect("{")
                    if self.role == "util" and mname == "hex":
                        self.parse_hex_mod(t.line)
                    elif self.role == "message":
                        self.parse_items(depth + 1, "}")
                    else:
                        self.pos -= 1
                        self.skip_item()
                        continue
                    self.expect("}")
                    continue
                end = self.skip_item()
                if self.role == "main":
                    self.note_skip("mod %s" % name, first.line, end)
                continue
            if self.at("enum") and self.wanted_enum(name, depth):
                self.check_attrs(attrs)
                self.enums.append(self.parse_enum())
                continue
            if self.at("struct") and self.role == "main" and depth == 0:
                self.check_attrs(attrs)
                self.structs.append(self.parse_struct())
                continue
            if self.at("const") and self.role == "consts" and name == "CR_LF":
                self.check_attrs(attrs)
                self.consts.append(self.parse_const())
                continue
            if t.kind == "ident" and kw in ("struct", "enum", "union", "trait", "type", "mod", "fn", "const", "static") \
                    and name in LIB_NAMES and self.role == "main":
                raise Unsupported("`%s %s`: a local definition of a name the translator reads as a library name" % (kw, name), t.line)
            if self.at("impl"):
                hdr = self.impl_header()
                if hdr is not None and self.wanted_impl(*hdr[:3]):
                    self.check_attrs(attrs)
                    self.impls.append(self.parse_impl(hdr))
                    continue
                end = self.skip_item()
                if self.role == "main":
                    self.note_skip("impl block `%s`" % self.header_text(first), first.line, end)
                continue
            if self.at("macro_rules") and nxt.text == "!":
                name = self.peek(2).text
            end = self.skip_item()
            if self.role == "main":
                what = "%s %s" % (kw, name) if name else "item starting with `%s`" % kw
                self.note_skip(what, first.line, end)

    def header_text(self, first):
        k = self.toks.index(first)
        parts = []
        while self.toks[k].kind != "eof" and not (self.toks[k].kind == "punct" and self.toks[k].text in ("{", ";")):
            parts.append(self.toks[k].text)
            k += 1
        return " ".join(parts)

    def impl_header(self):
        """look ahead (nothing consumed): (trait name | None, trait argument names, self type name, index of `{`), or
        None when the header is not of the plain form `impl [Trait[<A, ..>] for] Type {`"""
        k = self.pos + 1
        toks = self.toks

        def path(k):
            segs = []
            while toks[k].kind == "ident":
                segs.append(toks[k].text)
                k += 1
                if toks[k].text == "::":
                    k += 1
                else:
                    break
            return segs, k
        if toks[k].text == "<":
            return None
        segs, k = path(k)
        if not segs:
            return None
        targs = []
        if toks[k].text == "<":
            k += 1
            while toks[k].text != ">":
                a, k = path(k)
                if not a:
                    return None
                targs.append(a[-1])
                if toks[k].text == ",":
                    k += 1
            k += 1
        if toks[k].text == "for":
            ty, k = path(k + 1)
            if not ty or toks[k].text != "{":
                return None
            return segs[-1], targs, ty[-1], k
        if toks[k].text != "{" or targs:
            return None
        return None, [], segs[-1], k

    def parse_impl(self, hdr):
        trait, targs, ty, brace = hdr
        line = self.tok.line
        self.pos = brace
        self.expect("{")
        types, fns = {}, []
        while not self.at("}"):
            attrs = self.parse_attrs()
            self.check_attrs(attrs)
            self.parse_vis()
            if self.at("type"):
                self.advance()
                n = self.ident().text
                self.expect("=")
                types[n] = self.parse_type()
                self.expect(";")
            elif self.at("fn"):
                fns.append(self.parse_fn())
            else:
                raise Unsupported("`%s` item in `impl %s`" % (self.tok.text, ty), self.tok.line)
        self.expect("}")
        return Node("impl", line, trait=trait, targs=targs, ty=ty, types=types, fns=fns)

    def parse_struct(self):
        line = self.expect("struct").line
        name = self.ident().text
        if self.at("<"):
            raise Unsupported("generic struct", line)
        if not self.at("{"):
            raise Unsupported("tuple/unit struct `%s`" % name, line)
        self.advance()
        fields = []
        while not self.at("}"):
            self.check_attrs(self.parse_attrs())
            self.parse_vis()
            fl = self.tok.line
            fname = self.ident().text
            self.expect(":")
            fields.append(Node("fielddef", fl, name=fname, ty=self.parse_type()))
            if not self.accept(","):
                break
        self.expect("}")
        return Node("struct", line, name=name, fields=fields)

    def parse_const(self):
        line = self.expect("const").line
        name = self.ident().text
        self.expect(":")
        ty = self.parse_type()
        self.expect("=")
        e = self.parse_expr()
        self.expect(";")
        return Node("const", line, name=name, ty=ty, expr=e)

    def parse_enum(self):
        line = self.expect("enum").line
        name = self.ident().text
        if self.at("<"):
            raise Unsupported("generic enum", line)
        self.expect("{")
        variants = []
        while not self.at("}"):
            self.check_attrs(self.parse_attrs())
            vl = self.tok.line
            vname = self.ident().text
            fields = []
            if self.accept("("):
                while not self.at(")"):
                    fields.append(self.parse_type())
                    if not self.accept(","):
                        break
                self.expect(")")
            elif self.at("{"):
                raise Unsupported("struct-like enum variant", vl)
            disc = None
            if self.accept("="):
                d = self.tok
                if d.kind != "int":
                    raise Unsupported("discriminant of `%s::%s` is not an integer literal" % (name, vname), vl)
                self.advance()
                disc = ta.parse_int(d)["value"]
            variants.append(Node("variant", vl, name=vname, fields=fields, disc=disc))
            if not self.accept(","):
                break
        self.expect("}")
        return Node("enum", line, name=name, variants=variants)

    def parse_hex_mod(self, line):
        """inside `mod hex {`: the table and the shape of `encode`; everything else is skipped"""
        table, fn_ok, fn_line = None, False, None
        while not self.at("}"):
            if self.tok.kind == "eof":
                raise Unsupported("unterminated `mod hex`", line)
            self.parse_attrs()
            self.parse_vis()
            if self.at("const") and self.peek().text == "HEX_BYTES":
                cl = self.tok.line
                texts = []
                while not self.at(";"):
                    texts.append(self.advance())
                self.expect(";")
                if [x.text for x in texts[:6]] != ["const", "HEX_BYTES", ":", "&", "str", "="] or len(texts) != 7 or texts[6].kind != "str":
                    raise Unsupported("`const HEX_BYTES` is not `const HEX_BYTES: &str = \"...\";`", cl)
                table = (cl, rust_string(texts[6].text, cl))
                continue
            if self.at("fn") and self.peek().text == "encode":
                fn_line = self.tok.line
                start = self.pos
                self.skip_item()
                got = [x.text for x in self.toks[start:self.pos]]
                if got != HEX_ENCODE_TOKENS:
                    raise Unsupported("`hex::encode` is not the table lookup the translator knows "
                                      "(`bytes.iter().map(|&b| unsafe { let i = 2 * b as usize; HEX_BYTES.get_unchecked(i..i + 2) }).collect()`)", fn_line)
                fn_ok = True
                continue
            self.skip_item()
        if table is None or not fn_ok:
            raise Unsupported("`mod hex` without `HEX_BYTES` / `encode`", line)
        if len(table[1]) < 512:
            raise Unsupported("`HEX_BYTES` has %d bytes: `get_unchecked(i..i + 2)` would read out of bounds (undefined behaviour, not modelled)" % len(table[1]), table[0])
        self.hex = (table[0], table[1], fn_line)

    # -- types
    def parse_type(self):
        t = self.tok
        if self.at("("):
            self.advance()
            if self.at(")"):
                self.advance()
                return Node("tunit", t.line)
            elems = [self.parse_type()]
            while self.accept(","):
                if self.at(")"):
                    break
                elems.append(self.parse_type())
            self.expect(")")
            if len(elems) == 1:
                return elems[0]
            return Node("ttuple", t.line, elems=elems)
        if self.at("Self"):
            self.advance()
            segs = ["Self"]
            while self.at("::"):
                self.advance()
                segs.append(self.ident().text)
            if self.at("<"):
                raise Unsupported("generic arguments after `Self`", t.line)
            return Node("tname", t.line, name=segs[-1], segs=segs, args=[])
        return ta.Parser.parse_type(self)

    def parse_fn(self):
        line = self.expect("fn").line
        name = self.ident().text
        if self.at("<"):
            raise Unsupported("generic fn", line)
        self.expect("(")
        params = []
        recv = None
        first = True
        while not self.at(")"):
            if first and (self.at("&") or self.at("self") or self.at("mut")):
                if self.accept("&"):
                    if self.tok.kind == "lifetime":
                        self.advance()
                    recv = "mut" if self.accept("mut") else "ref"
                    self.expect("self")
                else:
                    raise Unsupported("receiver `self` by value", self.tok.line)
                first = False
                if not self.accept(","):
                    break
                continue
            first = False
            if self.at("mut"):
                raise Unsupported("`mut` parameter binding", self.tok.line)
            pl = self.tok.line
            pname = self.ident().text
            self.expect(":")
            pty = self.parse_type()
            params.append(Node("param", pl, name=pname, ty=pty))
            if not self.accept(","):
                break
        self.expect(")")
        ret = Node("tunit", line)
        if self.accept("->"):
            ret = self.parse_type()
        if self.at("where"):
            raise Unsupported("where clause", self.tok.line)
        body = self.parse_block()
        return Node("fn", line, name=name, params=params, ret=ret, body=body, recv=recv)

    # -- patterns
    def parse_pattern(self):
        t = self.tok
        if self.at("("):
            self.advance()
            subs = []
            while not self.at(")"):
                if self.at(".."):
                    raise Unsupported("rest pattern `..`", self.tok.line)
                subs.append(self.parse_pattern())
                if not self.accept(","):
                    break
            self.expect(")")
            if len(subs) == 1:
                return subs[0]
            if not subs:
                raise Unsupported("unit pattern", t.line)
            return Node("ptuple", t.line, subs=subs)
        if self.at("Self"):
            self.advance()
            segs = ["Self"]
            while self.accept("::"):
                segs.append(self.ident().text)
            if self.at("(") or self.at("{") or self.at("@"):
                raise Unsupported("`Self::..` pattern with fields", t.line)
            return Node("pctor", t.line, segs=segs, subs=[])
        return ta.Parser.parse_pattern(self)

    # -- expressions
    def parse_postfix(self, ns):
        e = self.parse_primary(ns)
        while True:
            if self.at("."):
                line = self.advance().line
                if self.tok.kind in ("int", "float"):
                    raise Unsupported("tuple field access", line)
                if self.at("await"):
                    raise Unsupported("`.await`", line)
                f = self.ident().text
                if self.at("::"):
                    raise Unsupported("method call with explicit type arguments `.%s::<...>`" % f, line)
                if not self.at("("):
                    e = Node("field", line, base=e, name=f)
                else:
                    e = Node("mcall", line, base=e, name=f, args=self.parse_args())
            elif self.at("["):
                line = self.advance().line
                if self.at(".."):
                    self.advance()
                    if not self.at("]"):
                        raise Unsupported("range index other than `[..]`", line)
                    self.advance()
                    e = Node("index_full", line, base=e)
                    continue
                if self.at("..="):
                    raise Unsupported("range index", line)
                idx = self.parse_expr()
                if self.at("..") or self.at("..="):
                    raise Unsupported("range index other than `[..]`", line)
                self.expect("]")
                e = Node("index", line, base=e, idx=idx)
            elif self.at("("):
                raise Unsupported("call of a computed function value", self.tok.line)
            elif self.at("?"):
                line = self.advance().line
                e = Node("try", line, expr=e)
            else:
                return e

    def parse_primary(self, ns):
        t = self.tok
        if t.kind == "char":
            self.advance()
            return Node("lit", t.line, value=byte_literal(t), suffix="u8", text=t.text)
        if self.at("["):
            self.advance()
            elems = []
            while not self.at("]"):
                elems.append(self.parse_expr())
                if self.at(";"):
                    raise Unsupported("array repeat expression `[x; n]`", t.line)
                if not self.accept(","):
                    break
            self.expect("]")
            return Node("array", t.line, elems=elems)
        if self.at("self"):
            self.advance()
            if self.at("::"):
                raise Unsupported("`self::` path", t.line)
            return Node("var", t.line, name="self")
        if self.at("Self"):
            self.advance()
            segs = ["Self"]
            while self.at("::"):
                self.advance()
                if self.at("<"):
                    raise Unsupported("explicit type arguments in a path", t.line)
                segs.append(self.ident().text)
            if self.at("!"):
                raise Unsupported("macro path", t.line)
            if self.at("{") and not ns:
                raise Unsupported("struct literal", t.line)
            if self.at("("):
                return Node("call", t.line, segs=segs, args=self.parse_args())
            if len(segs) == 1:
                raise Unsupported("`Self` as a value", t.line)
            return Node("path", t.line, segs=segs)
        return ta.Parser.parse_primary(self, ns)


def byte_literal(t):
    text = t.text
    if not (text.startswith("b'") and text.endswith("'")):
        raise Unsupported("char literal `%s` (only byte literals `b'x'`)" % text, t.line)
    body = text[2:-1]
    esc = {"\\n": 10, "\\r": 13, "\\t": 9, "\\\\": 92, "\\0": 0, "\\'": 39, "\\\"": 34}
    if body in esc:
        return esc[body]
    m = re.fullmatch(r"\\x([0-9a-fA-F]{2})", body)
    if m:
        return int(m.group(1), 16)
    if len(body) == 1 and 32 <= ord(body) < 127 and body not in "\\'":
        return ord(body)
    raise Unsupported("byte literal `%s`" % text, t.line)


def rust_string(text, line):
    """bytes of an ordinary (escaped) string literal token, with `\\`-newline continuation"""
    if not (text.startswith('"') and text.endswith('"')):
        raise Unsupported("string literal form", line)
    s = text[1:-1]
    out = []
    i = 0
    while i < len(s):
        c = s[i]
        if c == "\\":
            n = s[i + 1:i + 2]
            if n == "\n" or (n == "\r" and s[i + 2:i + 3] == "\n"):
                i += 2
                while i < len(s) and s[i] in " \t\r\n":
                    i += 1
                continue
            simple = {"n": 10, "r": 13, "t": 9, "\\": 92, "0": 0, "'": 39, '"': 34}
            if n in simple:
                out.append(simple[n])
                i += 2
                continue
            raise Unsupported("escape `\\%s` in a string literal" % n, line)
        if ord(c) >= 128:
            raise Unsupported("non-ASCII string literal", line)
        out.append(ord(c))
        i += 1
    return out


# --------------------------------------------------------------------------------------------
# type checker + emitter
# --------------------------------------------------------------------------------------------

class Gen(ta.Gen):
    def __init__(self, all_idents, uses):
        ta.Gen.__init__(self, all_idents)
        self.uses = uses
        self.structs = {}       # name -> [(field, type)]
        self.consts = {}        # name -> (qualifier | None, type, lean name)
        self.cenums = {}        # enums with only unit variants: name -> [(variant, discriminant)]
        self.fns = {}           # (qualifier, name) -> FnSig
        self.froms = {}         # (source type, target type) -> FnSig
        self.self_type = None
        self.assoc_types = {}
        self.recv = None
        self.in_main = False
        self.used_names = set()
        SELF_NAME[0] = self.fresh_fixed("self_")

    # -- `use` bindings
    def require_use(self, name, line):
        self.used_names.add(name)
        want = USE_SUFFIX[name]
        got = self.uses.get(name)
        if got is None or got[-len(want):] != want:
            raise Unsupported("`%s` is not imported as `..::%s` (found: %s)" % (name, "::".join(want), "::".join(got) if got else "no `use`"), line)

    # -- types
    def resolve_type(self, t):
        k = t.kind
        if k == "ttuple":
            elems = []
            for x in t.elems:
                ty, mut = self.resolve_type(x)
                if mut or ty == "unit":
                    raise Unsupported("tuple type `%s`" % _show_type(t), t.line)
                elems.append(ty)
            return ("tuple", tuple(elems)), False
        if k == "tname":
            segs = t.segs
            if segs[0] == "Self":
                if self.self_type is None:
                    raise Unsupported("`Self` outside an impl", t.line)
                if len(segs) == 1:
                    return self.self_type, False
                if len(segs) == 2 and segs[1] in self.assoc_types:
                    return self.resolve_type(self.assoc_types[segs[1]])
                raise Unsupported("type `%s`" % "::".join(segs), t.line)
            name = t.name
            if name == "Result" and len(t.args) == 2 and segs in (["Result"], ["std", "result", "Result"]):
                inner, _ = self.resolve_type(t.args[0])
                err, _ = self.resolve_type(t.args[1])
                if err != "anyerr":
                    raise Unsupported("error type `%s` (only `anyhow::Error`)" % _show_type(t.args[1]), t.line)
                return ("result", inner), False
            if name == "Error" and segs == ["anyhow", "Error"] and not t.args:
                return "anyerr", False
            if name == "Option" and len(t.args) == 1 and segs in (["Option"], ["std", "option", "Option"]):
                inner, mut = self.resolve_type(t.args[0])
                if mut or inner == "unit":
                    raise Unsupported("type `%s`" % _show_type(t), t.line)
                return ("option", inner), False
            if not t.args and name in self.structs:
                return name, False
            if name in USE_SUFFIX and name in ("BytesMut", "InboundIn", "OutboundIn", "Socks5CommandType") and self.in_main:
                self.require_use(name, t.line)
        return ta.Gen.resolve_type(self, t)

    # -- names
    def declare(self, name, ty, mut, line):
        for scope in self.scopes:
            if name in scope and scope[name].mut:
                raise Unsupported("shadowing of the mutable binding / `&mut` parameter `%s`" % name, line)
        if name in (self.ov, "utf8Ok", SELF_NAME[0]):
            raise Unsupported("local name `%s` clashes with a generated name" % name, line)
        self.order += 1
        self.scopes[-1][name] = Var(name, ty, mut, self.order)

    def strip(self, e):
        while e.kind in ("paren", "ref", "deref"):
            e = e.expr
        return e

    def norm_segs(self, segs, line):
        if segs and segs[0] == "Self":
            if self.self_type is None:
                raise Unsupported("`Self` outside an impl", line)
            return [self.self_type] + list(segs[1:])
        return segs

    def ctor_of(self, segs, line):
        segs = self.norm_segs(segs, line)
        if len(segs) >= 2 and segs[-2] in ("InboundIn", "OutboundIn", "Socks5CommandType") and self.in_main:
            self.require_use(segs[-2], line)
        return ta.Gen.ctor_of(self, segs, line)

    def const_of(self, segs):
        if len(segs) == 1 and segs[0] in self.consts and self.consts[segs[0]][0] is None:
            return self.consts[segs[0]]
        if len(segs) == 2 and segs[1] in self.consts and self.consts[segs[1]][0] == segs[0]:
            return self.consts[segs[1]]
        return None

    def fn_of(self, segs, line, check=True):
        """FnSig of a path call, or None"""
        segs = self.norm_segs(segs, line)
        if len(segs) < 2:
            return None
        key = (segs[-2], segs[-1])
        if key in self.fns:
            if check and self.in_main and segs[-2] in USE_SUFFIX:
                self.require_use(segs[-2], line)
            return self.fns[key]
        return None

    def method_of(self, e, check=True):
        """FnSig of `recv.name(..)` when it is a translated method of the receiver's type, or None"""
        rty = self.try_type(e.base)
        if isinstance(rty, str) and (rty, e.name) in self.fns and self.fns[(rty, e.name)].recv is not None:
            return self.fns[(rty, e.name)]
        return None

    # -- types of expressions that are determined without context
    def try_type(self, e):
        k = e.kind
        if k == "field":
            bt = self.try_type(e.base)
            for f, ty in self.structs.get(bt, []) if isinstance(bt, str) else []:
                if f == e.name:
                    return ty
            return None
        if k == "array":
            return ("array", len(e.elems))
        if k == "index_full":
            return "SliceU8" if is_bytes(self.try_type(e.base)) else None
        if k == "var" and e.name == "None":
            return None
        if k == "path":
            c = self.const_of(e.segs)
            if c:
                return c[1]
            return ta.Gen.try_type(self, Node("path", e.line, segs=self.norm_segs(e.segs, e.line)))
        if k == "call":
            if e.segs == ["Some"]:
                if len(e.args) == 1:
                    t = self.try_type(e.args[0])
                    return ("option", t) if t else None
                return None
            if e.segs == ["Ok"] and len(e.args) == 1:
                t = self.try_type(e.args[0])
                return ("result", t) if t else None
            f = self.fn_of(e.segs, e.line, check=False)
            if f:
                return f.ret
            if e.segs[-2:] == ["hex", "encode"]:
                return "String"
            if e.segs[-2:] == ["u16", "from_be_bytes"]:
                return "u16"
            return ta.Gen.try_type(self, Node("call", e.line, segs=self.norm_segs(e.segs, e.line), args=e.args))
        if k == "cast":
            return self.resolve_type(e.ty)[0]
        if k == "mcall":
            if e.name == "into" and not e.args:
                return None
            m = self.method_of(e)
            if m:
                return m.ret
        return ta.Gen.try_type(self, e)

    def compatible(self, ty, want):
        if want == "bytes":
            return is_bytes(ty)
        return ty == want

    # -- expressions
    def ex(self, e, expected, pre):
        k = e.kind
        if k == "var" and e.name == "None":
            if not (isinstance(expected, tuple) and expected[0] == "option"):
                raise Unsupported("cannot determine the type of `None`", e.line)
            return expected, "(none : %s)" % lean_type(expected)
        if k == "field":
            bty, b = self.ex(e.base, None, pre)
            for f, ty in self.structs.get(bty, []) if isinstance(bty, str) else []:
                if f == e.name:
                    return ty, "%s.%s" % (b, lean_name(f))
            raise Unsupported("field `.%s` of a `%s`" % (e.name, type_str(bty)), e.line)
        if k == "array":
            terms = []
            for x in e.elems:
                ty, t = self.ex(x, "u8", pre)
                if ty != "u8":
                    raise Unsupported("array literal of `%s` (only bytes)" % type_str(ty), x.line)
                terms.append(t)
            return ("array", len(terms)), "[%s]" % ", ".join(terms)
        if k == "index_full":
            bty, b = self.ex(e.base, None, pre)
            if not is_bytes(bty):
                raise Unsupported("`[..]` on a `%s`" % type_str(bty), e.line)
            return "SliceU8", b
        if k == "path":
            c = self.const_of(e.segs)
            if c:
                if c[0] is not None and self.in_main:
                    self.require_use(c[0], e.line)
                return c[1], c[2]
            return ta.Gen.ex(self, Node("path", e.line, segs=self.norm_segs(e.segs, e.line)), expected, pre)
        return ta.Gen.ex(self, e, expected, pre)

    def call_fn(self, f, recv_var, arg_nodes, pre, line):
        """emit a call of a translated function: arguments left to right, then the call; a panic of the callee
        propagates, `&mut` arguments (and a `&mut self` receiver) are rebound to their final values"""
        if len(arg_nodes) != len(f.params):
            raise Unsupported("%s takes %d argument(s), %d given (rustc would reject)" % (f.what, len(f.params), len(arg_nodes)), line)
        terms, rebound = [], []
        if f.recv is not None:
            if f.recv == "mut" and not recv_var.mut:
                raise Unsupported("%s needs `&mut self`, the receiver is not mutable (rustc would reject)" % f.what, line)
            terms.append(lean_name(recv_var.name))
            if f.recv == "mut":
                rebound.append(recv_var.name)
        for a, (want, mut) in zip(arg_nodes, f.params):
            if mut:
                v = self.place(a, "passing `&mut` to %s" % f.what)
                if v.ty != want:
                    raise Unsupported("argument of %s has type `%s`, expected `%s` (rustc would reject)" % (f.what, type_str(v.ty), type_str(want)), a.line)
                if v.name in rebound:
                    raise Unsupported("`%s` borrowed mutably twice (rustc would reject)" % v.name, a.line)
                terms.append(lean_name(v.name))
                rebound.append(v.name)
            else:
                ty, t = self.ex(a, want, pre)
                if ty != want:
                    raise Unsupported("argument of %s has type `%s`, expected `%s` (rustc would reject)" % (f.what, type_str(ty), type_str(want)), a.line)
                terms.append(t)
        x = self.fresh()
        pre.append("Flow.bind (Flow.call (%s)) fun %s =>" % (" ".join([f.lean, self.ov] + terms), self.pat(rebound + [x])))
        return f.ret, x

    def ex_call(self, e, expected, pre):
        if e.segs == ["Some"]:
            want = expected[1] if isinstance(expected, tuple) and expected[0] == "option" else None
            if len(e.args) != 1:
                raise Unsupported("`Some` with %d arguments" % len(e.args), e.line)
            ty, t = self.ex(e.args[0], want, pre)
            return ("option", ty), "(some %s)" % t
        f = self.fn_of(e.segs, e.line)
        if f:
            return self.call_fn(f, None, e.args, pre, e.line)
        if e.segs[-2:] == ["hex", "encode"] and len(e.segs) == 2:
            self.require_use("hex", e.line)
            (t,) = self.args(e, ["bytes"], pre, "`hex::encode`")
            return "String", "(hex_encode %s)" % t
        if e.segs == ["u16", "from_be_bytes"]:
            (t,) = self.args(e, [("array", 2)], pre, "`u16::from_be_bytes`")
            return "u16", "(U16.from_be_bytes %s)" % t
        e2 = Node("call", e.line, segs=self.norm_segs(e.segs, e.line), args=e.args)
        return ta.Gen.ex_call(self, e2, expected, pre)

    def ex_cast(self, e, pre):
        target, _ = self.resolve_type(e.ty)
        if target not in ARITH_INTS:
            raise Unsupported("cast to `%s`" % _show_type(e.ty), e.line)
        if self.is_bare_literal(e.expr):
            raise Unsupported("cast of an unsuffixed literal", e.line)
        sty, s = self.ex(e.expr, None, pre)
        if sty in self.cenums:
            if target != "u8":
                raise Unsupported("cast of a `%s` to `%s` (only `as u8`)" % (sty, target), e.line)
            return "u8", "(%s.as_u8 %s)" % (sty, s)
        if sty == "Socks5AddressType":
            s = "(Socks5AddressType.as_u8 %s)" % s
            sty = "u8"
        if sty not in ARITH_INTS:
            raise Unsupported("cast from `%s`" % type_str(sty), e.line)
        if sty == target:
            return target, s
        return target, "(%s.as_%s %s)" % (PREFIX[sty], target, s)

    def ex_mcall(self, e, expected, pre):
        if e.name == "into" and not e.args:
            sty = self.try_type(e.base)
            if sty is None or expected is None:
                raise Unsupported("cannot determine the types of `.into()`", e.line)
            if sty == expected:
                return self.ex(e.base, expected, pre)
            f = self.froms.get((sty, expected))
            if f is None:
                raise Unsupported("`.into()` from `%s` to `%s` (no translated `From` impl)" % (type_str(sty), type_str(expected)), e.line)
            return self.call_fn(f, None, [e.base], pre, e.line)
        m = self.method_of(e)
        if m:
            b = self.strip(e.base)
            if b.kind != "var":
                raise Unsupported("call of `.%s(..)` on `%s` (only on a variable)" % (e.name, show_expr(e.base)), e.line)
            return self.call_fn(m, self.lookup(b.name, b.line), e.args, pre, e.line)
        return ta.Gen.ex_mcall(self, e, expected, pre)

    def ex_bin(self, e, expected, pre):
        op = e.op
        if op in ("&&", "||"):
            lt, l = self.ex(e.l, "bool", pre)
            rpre = []
            rt, r = self.ex(e.r, "bool", rpre)
            if lt != "bool" or rt != "bool":
                raise Unsupported("`%s` on non-bool operands (rustc would reject)" % op, e.line)
            if not rpre:
                return "bool", "(%s %s %s)" % (l, op, r)
            if self.outer_mutated([e.r]):
                raise Unsupported("right operand of `%s` changes a variable" % op, e.line)
            v = self.fresh()
            pre.append("Flow.bind (")
            if op == "||":
                pre.append("  if %s then Flow.next true else" % l)
            else:
                pre.append("  if !%s then Flow.next false else" % l)
            pre.extend("  " + x for x in rpre)
            pre.append("  Flow.next %s" % r)
            pre.append(") fun %s =>" % v)
            return "bool", v
        if op in ("==", "!="):
            lt0, rt0 = self.try_type(e.l), self.try_type(e.r)
            if (lt0 is not None and is_bytes(lt0)) or (rt0 is not None and is_bytes(rt0)):
                lt, l = self.ex(e.l, None, pre)
                rt, r = self.ex(e.r, None, pre)
                if not (is_bytes(lt) and is_bytes(rt)):
                    raise Unsupported("comparison of a `%s` with a `%s`" % (type_str(lt), type_str(rt)), e.line)
                return "bool", "(%s %s %s)" % (l, op, r)
            ty = lt0 or rt0
            if ty in self.cenums:
                raise Unsupported("comparison of `%s` values" % ty, e.line)
        return ta.Gen.ex_bin(self, e, expected, pre)

    # ------------------------------------------------------------------------------------
    # statements
    # ------------------------------------------------------------------------------------
    def outer_mutated(self, nodes):
        found, declared = [], set()

        def add(e):
            b = self.strip(e)
            while b.kind in ("index", "field", "index_full"):
                b = self.strip(b.base)
            if b.kind == "var" and b.name not in found:
                found.append(b.name)

        def walk(n):
            if isinstance(n, list):
                for x in n:
                    walk(x)
                return
            if not isinstance(n, Node):
                return
            if n.kind == "let":
                declared.add(n.name)
            if n.kind == "pbind":
                declared.add(n.name)
            if n.kind == "assign":
                add(n.target)
            if n.kind == "mcall":
                if ta.MUTATING.fullmatch(n.name):
                    add(n.base)
                for key, f in self.fns.items():
                    if key[1] == n.name and f.recv is not None:
                        if f.recv == "mut":
                            add(n.base)
                        for a, (_, mut) in zip(n.args, f.params):
                            if mut:
                                add(a)
            if n.kind == "call" and len(n.segs) >= 2:
                for key, f in self.fns.items():
                    if key[1] == n.segs[-1] and f.recv is None:
                        for a, (_, mut) in zip(n.args, f.params):
                            if mut:
                                add(a)
            for key, val in n.__dict__.items():
                if key in ("kind", "line", "ty"):
                    continue
                if isinstance(val, (Node, list)):
                    walk(val)
        walk(nodes)
        names = []
        for n in found:
            if n in declared:
                continue
            for scope in self.scopes:
                if n in scope:
                    names.append(n)
                    break
        names.sort(key=lambda n: self.lookup(n, 0).order)
        return names

    def ret_term(self, val):
        names = ([SELF_NAME[0]] if self.recv == "mut" else []) + [lean_name(n) for n in self.mut_params]
        if names:
            return "(%s)" % ", ".join(names + [val])
        return val

    def stmts(self, stmts, ind):
        done = False
        for s in stmts:
            if done:
                raise Unsupported("statement after `return`/`bail!`", s.line)
            if s.kind == "exprstmt" and s.expr.kind == "call" and not (s.expr.kind == "macro"):
                e = s.expr
                self.emit(ind, "-- L%d: %s;" % (s.line, show_expr(e)))
                pre = []
                self.ex(e, None, pre)
                self.emit_pre(ind, pre)
                continue
            done = ta.Gen.stmts(self, [s], ind)
        return done

    def stmt_assign(self, s, ind):
        tgt = self.strip(s.target) if s.target.kind == "paren" else s.target
        if tgt.kind != "field":
            return ta.Gen.stmt_assign(self, s, ind)
        self.emit(ind, "-- L%d: %s %s= %s;" % (s.line, show_expr(tgt), s.op or "", show_expr(s.expr)))
        base = self.strip(tgt.base)
        if base.kind != "var":
            raise Unsupported("assignment target `%s`" % show_expr(tgt), s.line)
        v = self.lookup(base.name, base.line)
        if not v.mut:
            raise Unsupported("assignment to a field of immutable `%s` (rustc would reject)" % base.name, s.line)
        fty = None
        for f, ty in self.structs.get(v.ty, []) if isinstance(v.ty, str) else []:
            if f == tgt.name:
                fty = ty
        if fty is None:
            raise Unsupported("field `.%s` of a `%s`" % (tgt.name, type_str(v.ty)), s.line)
        value = s.expr
        if s.op is not None:
            value = Node("bin", s.line, op=s.op, l=tgt, r=Node("paren", s.line, expr=s.expr))
        pre = []
        ty, t = self.ex(value, fty, pre)
        if ty != fty:
            raise Unsupported("assignment of `%s` to a field of type `%s` (rustc would reject)" % (type_str(ty), type_str(fty)), s.line)
        self.emit_pre(ind, pre)
        self.emit(ind, "let %s : %s := { %s with %s := %s }" % (lean_name(v.name), lean_type(v.ty), lean_name(v.name), lean_name(tgt.name), t))

    # -- match: tuple patterns (of variables / `_`) are bound by projection at the leaves of the case tree
    def case_tree(self, cols, rows, ind, mode, line):
        newrows = []
        changed = False
        newcols = list(cols)
        for pats, binds, arm in rows:
            pats = list(pats)
            binds = list(binds)
            for i, p in enumerate(pats):
                if p.kind == "ptuple":
                    term, ty = cols[i]
                    if not (isinstance(ty, tuple) and ty[0] == "tuple" and len(ty[1]) == len(p.subs)):
                        raise Unsupported("tuple pattern `%s` for a `%s`" % (show_pat_t(p), type_str(ty)), p.line)
                    n = len(p.subs)
                    for j, sp in enumerate(p.subs):
                        proj = "".join(".2" for _ in range(j)) + (".1" if j < n - 1 else "")
                        if sp.kind == "pbind":
                            binds.append((sp.name, "%s%s" % (term, proj), ty[1][j], sp.line))
                        elif sp.kind != "pwild":
                            raise Unsupported("nested pattern inside a tuple pattern", sp.line)
                    pats[i] = Node("pwild", p.line)
                    changed = True
            newrows.append((pats, binds, arm))
        return ta.Gen.case_tree(self, newcols, newrows if changed else rows, ind, mode, line)

    # ------------------------------------------------------------------------------------
    # items
    # ------------------------------------------------------------------------------------
    def register_enum(self, en, emit, origin):
        variants = []
        for v in en.variants:
            ftys = []
            for f in v.fields:
                ty, mut = self.resolve_type(f)
                if ty in ("unit", "str", "anyerr") or mut or (isinstance(ty, tuple) and ty[0] in ("result",)):
                    raise Unsupported("field of type `%s` in `enum %s`" % (_show_type(f), en.name), f.line)
                ftys.append(ty)
            if any(v.name == w[0] for w in variants):
                raise Unsupported("duplicate variant `%s`" % v.name, v.line)
            variants.append((v.name, ftys))
        if not variants:
            raise Unsupported("`enum %s` without variants" % en.name, en.line)
        discs = None
        if all(not f for _, f in variants):
            discs, nxt = [], 0
            for v in en.variants:
                d = nxt if v.disc is None else v.disc
                discs.append((v.name, d))
                nxt = d + 1
            if len(set(d for _, d in discs)) != len(discs):
                raise Unsupported("duplicate discriminant in `enum %s` (rustc would reject)" % en.name, en.line)
        elif any(v.disc is not None for v in en.variants):
            raise Unsupported("discriminant on an enum with fields", en.line)
        self.enums[en.name] = variants
        if discs is not None:
            self.cenums[en.name] = discs
        if not emit:
            return
        KNOWN_NAMED.add(en.name)
        out = self.out
        out.append("/-! ### enum %s (parsed from %s) -/" % (en.name, origin))
        out.append("inductive %s where" % en.name)
        for v, (vname, ftys) in zip(en.variants, variants):
            out.append("  -- L%d: %s%s%s" % (v.line, vname, ("(%s)" % ", ".join(_show_type(f) for f in v.fields)) if v.fields else "",
                                             (" = %d" % v.disc) if v.disc is not None else ""))
            out.append("  | %s%s" % (lean_name(vname), "".join(" (a%d : %s)" % (i, lean_type(t)) for i, t in enumerate(ftys))))
        out.append("deriving DecidableEq, Repr")
        if discs is not None and any(v.disc is not None for v in en.variants):
            if any(d > 255 for _, d in discs):
                raise Unsupported("discriminant above 255 in `enum %s`" % en.name, en.line)
            out.append("/-- `x as u8`: the discriminant -/")
            out.append("def %s.as_u8 : %s → UInt8" % (en.name, en.name))
            for vname, d in discs:
                out.append("  | .%s => %d" % (lean_name(vname), d))
        elif discs is not None:
            # no explicit discriminant anywhere: `as u8` is still defined by Rust (0, 1, ..); emitted for uniformity
            out.append("/-- `x as u8`: the (implicit) discriminant -/")
            out.append("def %s.as_u8 : %s → UInt8" % (en.name, en.name))
            for vname, d in discs:
                out.append("  | .%s => %d" % (lean_name(vname), d))
        out.append("")

    def register_struct(self, st):
        fields = []
        for f in st.fields:
            ty, mut = self.resolve_type(f.ty)
            if mut or ty in ("unit", "str", "anyerr") or (isinstance(ty, tuple) and ty[0] == "result"):
                raise Unsupported("field `%s: %s`" % (f.name, _show_type(f.ty)), f.line)
            if any(f.name == g[0] for g in fields):
                raise Unsupported("duplicate field `%s`" % f.name, f.line)
            fields.append((f.name, ty))
        if not fields:
            raise Unsupported("`struct %s` without fields" % st.name, st.line)
        self.structs[st.name] = fields
        KNOWN_NAMED.add(st.name)
        out = self.out
        out.append("/-! ### struct %s -/" % st.name)
        out.append("structure %s where" % st.name)
        for f, (fname, ty) in zip(st.fields, fields):
            out.append("  -- L%d: %s: %s" % (f.line, fname, _show_type(f.ty)))
            out.append("  %s : %s" % (lean_name(fname), lean_type(ty)))
        out.append("deriving DecidableEq, Repr")
        out.append("")

    def register_const(self, c, qualifier):
        ty, _ = self.resolve_type(c.ty)
        if not (isinstance(ty, tuple) and ty[0] == "array"):
            raise Unsupported("`const %s: %s` (only byte arrays)" % (c.name, _show_type(c.ty)), c.line)
        e = c.expr
        if e.kind != "array" or len(e.elems) != ty[1]:
            raise Unsupported("initializer of `const %s`" % c.name, c.line)
        vals = []
        for x in e.elems:
            while x.kind == "paren":
                x = x.expr
            if x.kind != "lit" or (x.suffix not in (None, "u8")) or x.value > 255:
                raise Unsupported("element of `const %s` is not a byte literal" % c.name, x.line)
            vals.append(x.value)
        name = lean_name(c.name)
        self.consts[c.name] = (qualifier, ty, name)
        self.out.append("-- L%d: const %s: %s = %s;" % (c.line, c.name, _show_type(c.ty), show_expr(e)))
        self.out.append("def %s : List UInt8 := [%s]" % (name, ", ".join("(%d : UInt8)" % v for v in vals)))
        self.out.append("")

    def fn_sig(self, fn, qualifier, lean):
        params = []
        for prm in fn.params:
            ty, mut = self.resolve_type(prm.ty)
            if ty in ("unit", "str", "anyerr") or isinstance(ty, tuple) and ty[0] == "result":
                raise Unsupported("parameter of type `%s`" % _show_type(prm.ty), prm.line)
            if mut and ty not in ("BytesMut", "Bytes", "VecU8"):
                raise Unsupported("`&mut %s` parameter" % type_str(ty), prm.line)
            params.append((ty, mut))
        ret, _ = self.resolve_type(fn.ret)
        if ret in ("str", "anyerr"):
            raise Unsupported("return type `%s`" % _show_type(fn.ret), fn.line)
        return FnSig(lean, getattr(fn, "recv", None), params, ret, "`%s::%s`" % (qualifier, fn.name))

    def gen_method(self, fn, qualifier, self_type, assoc_types, lean, in_main, origin):
        """translate one fn (a method of `self_type` when it has a receiver) and register it as callable"""
        out = self.out
        self.self_type = self_type
        self.assoc_types = assoc_types
        self.in_main = in_main
        self.scopes = [{}]
        self.order = 0
        self.lines = []
        self.unsafe_depth = 0
        self.uses_utf8 = False
        sig = self.fn_sig(fn, qualifier, lean)
        self.ret_ty = sig.ret
        self.recv = sig.recv
        params, sigtxt = [], []
        self.mut_params = []
        if sig.recv is not None:
            if self_type not in self.structs:
                raise Unsupported("receiver of type `%s`" % self_type, fn.line)
            self.order += 1
            self.scopes[-1]["self"] = Var("self", self_type, sig.recv == "mut", self.order)
            params.append("(%s : %s)" % (SELF_NAME[0], lean_type(self_type)))
            sigtxt.append("&mut self" if sig.recv == "mut" else "&self")
        for prm, (ty, mut) in zip(fn.params, sig.params):
            self.declare(prm.name, ty, mut, prm.line)
            if mut:
                self.mut_params.append(prm.name)
            params.append("(%s : %s)" % (lean_name(prm.name), lean_type(ty)))
            sigtxt.append("%s: %s" % (prm.name, _show_type(prm.ty)))
        self.cf(fn.body, 1, ("tail",))
        if self.uses_utf8:
            raise Unsupported("`String::from_utf8` in `%s`" % fn.name, fn.line)
        rty = lean_type(self.ret_ty)
        finals = (["final `*self`"] if sig.recv == "mut" else []) + ["final `*%s`" % n for n in self.mut_params]
        if finals:
            tys = ([lean_type(self_type)] if sig.recv == "mut" else []) + [lean_type(self.lookup(n, fn.line).ty) for n in self.mut_params]
            rty = " × ".join(tys + [lean_atom(self.ret_ty) if " × " in rty else rty])
        out.append("-- %s L%d: fn %s(%s) -> %s" % (origin, fn.line, fn.name, ", ".join(sigtxt), _show_type(fn.ret)))
        if finals:
            out.append("/-- `%s::%s`; the result is the tuple (%s, returned value) -/" % (qualifier, fn.name, ", ".join(finals)))
        else:
            out.append("/-- `%s::%s` -/" % (qualifier, fn.name))
        out.append("def %s %s : Res (%s) :=" % (lean, " ".join(["(%s : Bool)" % self.ov] + params), rty))
        out.append("  Flow.run (")
        out.extend(self.lines)
        out.append("  )")
        out.append("")
        self.fns[(qualifier, fn.name)] = sig
        self.self_type = None
        self.assoc_types = {}
        self.recv = None
        return sig


def show_pat_t(p):
    if p.kind == "ptuple":
        return "(%s)" % ", ".join(show_pat_t(x) for x in p.subs)
    return _addr_show_pat(p)


_addr_show_pat = ta.show_pat
ta.show_pat = show_pat_t


# --------------------------------------------------------------------------------------------
# fixed run-time support written into every generated file
# --------------------------------------------------------------------------------------------

PRELUDE = r'''
/-! ### fixed run-time support (not derived from the source): library semantics

`Res`, `Flow`, `Flow.bind/run/arith` are those of `Octo.PWGen`; `RResult`, `Cursor`, the `bytes` operations, the integer
casts, `String`, `std::net`, `Address` and the functions `encode` / `decode` / `try_decode_at` of
`protocol/socks5/address.rs` are those of `Octo.AddrGen` (`Octo/Gen/AddrGen.lean`, generated from that file). -/

/-- call of a translated function: its value, or its panic -/
def Flow.call {α ρ : Type} : Res α → Flow α ρ
  | .ok a => .next a
  | .panic => .panic

/-- `u16::from_be_bytes([a, b])` -/
def U16.from_be_bytes (b : List UInt8) : UInt16 := UInt16.ofNat (beNat b)
'''

HEX_SUPPORT = r'''
/-- `util::hex::encode(bytes)`: for every byte `b` the two characters `HEX_BYTES[2*b .. 2*b + 2]`, concatenated -/
def hexLower (bytes : List UInt8) : List UInt8 := bytes.flatMap fun b => (HEX_BYTES.drop (2 * b.toNat)).take 2
/-- the `String` that `hex::encode` returns -/
def hex_encode (bytes : List UInt8) : RString := ⟨hexLower bytes⟩
'''


# --------------------------------------------------------------------------------------------
# driver
# --------------------------------------------------------------------------------------------

def find_side(main_path, role):
    here = os.path.dirname(os.path.abspath(main_path))
    root = os.path.normpath(os.path.join(here, "..", "..", ".."))
    core = os.path.join(root, "octo-squirrel", "src")
    cands = {
        "message": [os.path.join(here, "template.rs")],
        "socks5": [os.path.join(core, "protocol", "socks5.rs"), os.path.join(here, "socks5.rs")],
        "consts": [os.path.join(core, "protocol", "trojan.rs"), os.path.join(here, "protocol_trojan.rs")],
        "address": [os.path.join(core, "protocol", "address.rs"), os.path.join(here, "address_type.rs")],
        "codec": [os.path.join(core, "protocol", "socks5", "address.rs"), os.path.join(here, "socks5_address.rs")],
        "util": [os.path.join(core, "util.rs"), os.path.join(here, "util.rs")],
    }[role]
    for c in cands:
        if os.path.exists(c):
            return c
    raise Unsupported("source file for `%s` not found (looked for %s)" % (role, ", ".join(cands)), 1)


def parse_source(path, role):
    data = open(path, "rb").read()
    try:
        src = data.decode("utf-8")
    except UnicodeDecodeError:
        raise Unsupported("non-UTF-8 source %s" % path, 1)
    toks = tn.tokenize(src)
    if role == "codec":
        p = ta.Parser(toks, True)
        p.uses = {}
    else:
        p = Parser(toks, role)
    try:
        p.parse_file()
    except Unsupported as u:
        if role != "main":
            raise Unsupported("%s (in %s)" % (u.what, os.path.basename(path)), u.line)
        raise
    return data, toks, p


def header(path, digest, p, sides, g):
    lines = []
    lines.append("/- GENERATED by translate_trojan.py — do not edit.")
    lines.append("   source: %s" % path)
    lines.append("   sha256: %s" % digest)
    lines.append("   further sources (found relative to the first):")
    for role, (spath, sdigest, what) in sides.items():
        lines.append("     - %s: %s (sha256 %s): %s" % (role, os.path.basename(spath) if role != "codec" else "socks5/address.rs", sdigest, what))
    lines.append("")
    lines.append("   Statement-by-statement translation of the top-level enums / structs of the source and of the methods of")
    lines.append("   `impl ServerCodec`, `impl Decoder for ServerCodec`, `impl Encoder<..> for ServerCodec` (located by name).")
    lines.append("   Conventions of translate_addr.py (see Octo/Gen/AddrGen.lean): u8/u16/usize = UIntN (usize = 64 bit), `as` =")
    lines.append("   zero-extension / truncation, `+ - *` wrap and are preceded by `Flow.arith ov (..)` (panic when overflow-checks")
    lines.append("   are on), `BytesMut`/`&[u8]`/`[u8; N]` = List UInt8 (a read cursor = the bytes that remain), `get_*`/`split_to`/")
    lines.append("   `advance` panic when fewer bytes remain, `b[i]` panics out of bounds, `Result<T>` = RResult T (error texts are")
    lines.append("   not modelled; format arguments of `bail!` must be free of panics/effects), `e?` = Flow.question, `match` = a case")
    lines.append("   tree over the constructors in declaration order (first matching arm).  In addition here:")
    lines.append("   * a method with `&mut self` takes the struct value first and returns (final `*self`, final `&mut` arguments..,")
    lines.append("     returned value) - also on `Err`, with whatever had been consumed / assigned by then;")
    lines.append("     `self.f = e` = `{ self_ with f := e }`;")
    lines.append("   * a call of a translated function is `Flow.call` (the callee's panic is the caller's panic), `&mut` arguments and a")
    lines.append("     `&mut self` receiver are rebound to their final values;")
    lines.append("   * `a || b` / `a && b` whose right operand can return (`?`) or panic evaluates it only when the left one does not")
    lines.append("     decide (short circuit);")
    lines.append("   * `Option` = Option; a tuple pattern binds by projection; `x == y` on byte strings compares contents;")
    lines.append("   * `hex::encode` = `hexLower` over the table `HEX_BYTES` read from util.rs; `x.into()` = the translated `From` impl.")
    lines.append("   names are bound through the `use` items of the source (checked for: %s)." % ", ".join(sorted(g.used_names)))
    lines.append("   skipped (not parsed, bracket matching only):")
    if p.nuse:
        lines.append("     - %d `use` items (read for name binding only)" % p.nuse)
    for s in p.skipped:
        lines.append("     - %s" % s)
    lines.append("-/")
    return lines


def topo_methods(methods, line):
    """callee before caller (by `self.name(` occurrences); a cycle is unsupported"""
    names = {m[0].name for m in methods}

    def callees(fn):
        found = set()

        def walk(n):
            if isinstance(n, list):
                for x in n:
                    walk(x)
            elif isinstance(n, Node):
                if n.kind == "mcall" and n.name in names and n.base.kind == "var" and n.base.name == "self":
                    found.add(n.name)
                for key, val in n.__dict__.items():
                    if key not in ("kind", "line") and isinstance(val, (Node, list)):
                        walk(val)
        walk(fn.body)
        return found
    order, state = [], {}
    by_name = {}
    for m in methods:
        if m[0].name in by_name:
            raise Unsupported("two methods named `%s` (inherent and trait): calls would be ambiguous for the translator" % m[0].name, m[0].line)
        by_name[m[0].name] = m

    def visit(n):
        if state.get(n) == 2:
            return
        if state.get(n) == 1:
            raise Unsupported("recursive method `%s`" % n, by_name[n][0].line)
        state[n] = 1
        for c in sorted(callees(by_name[n][0])):
            visit(c)
        state[n] = 2
        order.append(by_name[n])
    for m in methods:
        visit(m[0].name)
    return order


def translate(path, out_path):
    data, toks, p = parse_source(path, "main")
    digest = hashlib.sha256(data).hexdigest()
    idents = [t.text for t in toks if t.kind == "ident"]
    loaded = {}
    for role in ("message", "socks5", "consts", "address", "codec", "util"):
        spath = find_side(path, role)
        sdata, stoks, sp = parse_source(spath, role)
        loaded[role] = (spath, hashlib.sha256(sdata).hexdigest(), sp)
        idents += [t.text for t in stoks if t.kind == "ident"]

    # AddrGen.lean next to the output must come from the same address.rs
    addr_gen = os.path.join(os.path.dirname(os.path.abspath(out_path)), "AddrGen.lean")
    if os.path.exists(addr_gen):
        m = re.search(r"sha256: (\w+)", open(addr_gen, encoding="utf-8").read())
        if m and m.group(1) != loaded["codec"][1]:
            raise OSError("%s was generated from another socks5/address.rs (sha256 %s, this one is %s): run translate_addr.py first"
                          % (addr_gen, m.group(1)[:16], loaded["codec"][1][:16]))

    structs = [s for s in p.structs]
    if not any(s.name == TARGET_STRUCT for s in structs):
        raise Unsupported("`struct %s` not found" % TARGET_STRUCT, 1)
    methods = []
    for im in p.impls:
        for fn in im.fns:
            methods.append((fn, im))
    if not methods:
        raise Unsupported("no method of `%s` found" % TARGET_STRUCT, 1)

    g = Gen(idents, p.uses)
    g.in_main = False
    sides = {}

    # -- library side: enums, constants, functions of the other files
    pre_out = []
    g.out = pre_out
    pre_out.append(PRELUDE)

    # util.rs: the hex table
    spath, sdig, sp = loaded["util"]
    if sp.hex is None:
        raise Unsupported("`mod hex` not found in %s" % os.path.basename(spath), 1)
    tline, table, fline = sp.hex
    sides["util"] = (spath, sdig, "`hex::HEX_BYTES` (line %d, %d bytes), shape of `hex::encode` (line %d)" % (tline, len(table), fline))
    pre_out.append("/-! ### `util::hex` (table read from util.rs line %d) -/" % tline)
    pre_out.append("def HEX_BYTES : List UInt8 := [%s]" % ", ".join(str(b) for b in table))
    pre_out.append(HEX_SUPPORT)

    # protocol/trojan.rs: CR_LF
    spath, sdig, sp = loaded["consts"]
    if len(sp.consts) != 1:
        raise Unsupported("`const CR_LF` not found exactly once in %s" % os.path.basename(spath), 1)
    sides["consts"] = (spath, sdig, "`const CR_LF`")
    pre_out.append("/-! ### constants (protocol/trojan.rs) -/")
    g.register_const(sp.consts[0], "trojan")

    # protocol/address.rs: enum Address (declared by AddrGen), `From<SocketAddr>`
    spath, sdig, sp = loaded["address"]
    if len(sp.enums) != 1:
        raise Unsupported("`enum Address` not found exactly once in %s" % os.path.basename(spath), 1)
    g.register_enum(sp.enums[0], False, "address.rs")
    froms = [im for im in sp.impls if im.trait == "From"]
    what = "`enum Address` (declared in Octo.AddrGen)"
    if froms:
        if len(froms) != 1 or len(froms[0].fns) != 1 or froms[0].fns[0].name != "from":
            raise Unsupported("`impl From<SocketAddr> for Address` has an unexpected shape", froms[0].line)
        got = sp.uses.get("SocketAddr")
        if got is None or got[-2:] != ["net", "SocketAddr"]:
            raise Unsupported("`SocketAddr` is not `std::net::SocketAddr` in %s" % os.path.basename(spath), froms[0].line)
        pre_out.append("/-! ### `impl From<SocketAddr> for Address` (protocol/address.rs) -/")
        sig = g.gen_method(froms[0].fns[0], "Address", "Address", froms[0].types, "Address.from_SocketAddr", False, "address.rs")
        if sig.recv is not None or sig.params != [("SocketAddr", False)] or sig.ret != "Address":
            raise Unsupported("signature of `From<SocketAddr>::from`", froms[0].fns[0].line)
        g.froms[("SocketAddr", "Address")] = sig
        del g.fns[("Address", "from")]
        what += ", `impl From<SocketAddr> for Address`"
    sides["address"] = (spath, sdig, what)

    # protocol/socks5.rs: Socks5CommandType
    spath, sdig, sp = loaded["socks5"]
    if len(sp.enums) != 1:
        raise Unsupported("`enum Socks5CommandType` not found exactly once in %s" % os.path.basename(spath), 1)
    g.register_enum(sp.enums[0], True, "socks5.rs")
    n = 0
    for im in sp.impls:
        for fn in im.fns:
            if fn.recv is not None:
                raise Unsupported("method `Socks5CommandType::%s` with a receiver" % fn.name, fn.line)
            g.gen_method(fn, "Socks5CommandType", "Socks5CommandType", im.types, "Socks5CommandType.%s" % lean_name(fn.name), False, "socks5.rs")
            n += 1
    sides["socks5"] = (spath, sdig, "`enum Socks5CommandType`, %d fn(s) of `impl Socks5CommandType`" % n)

    # protocol/socks5/address.rs: signatures of the generated functions
    spath, sdig, sp = loaded["codec"]
    src_text = open(spath, encoding="utf-8").read()
    if re.search(r"\bfrom_utf8\b", src_text):
        raise Unsupported("socks5/address.rs uses `String::from_utf8`: the generated functions take a further parameter", 1)
    got = []
    for fn in sp.fns:
        if fn.name in ADDR_FNS:
            fn.recv = None
            g.self_type = None
            sig = g.fn_sig(fn, "address", "Octo.AddrGen.%s" % lean_name(fn.name))
            g.fns[("address", fn.name)] = sig
            got.append(fn.name)
    sides["codec"] = (spath, sdig, "signatures of %s (bodies: Octo.AddrGen)" % ", ".join("`%s`" % n for n in got))

    # template.rs: InboundIn / OutboundIn
    spath, sdig, sp = loaded["message"]
    names = [e.name for e in sp.enums]
    if sorted(names) != ["InboundIn", "OutboundIn"]:
        raise Unsupported("`enum InboundIn` / `enum OutboundIn` not found exactly once in %s" % os.path.basename(spath), 1)
    for en in sp.enums:
        g.register_enum(en, True, "template.rs")
    sides["message"] = (spath, sdig, "`enum InboundIn`, `enum OutboundIn`")

    # -- the source itself
    main_out = []
    g.out = main_out
    for en in p.enums:
        g.register_enum(en, True, "this file")
    for st in structs:
        g.register_struct(st)
    main_out.append("/-! ### methods of `%s` -/" % TARGET_STRUCT)
    for fn, im in topo_methods(methods, 1):
        if im.trait in ("Decoder", "Encoder"):
            g.in_main = True
            g.require_use(im.trait, im.line)
        for tn_, tt in im.types.items():
            pass
        g.gen_method(fn, TARGET_STRUCT, TARGET_STRUCT, im.types, "%s.%s" % (TARGET_STRUCT, lean_name(fn.name)), True,
                     "impl %s%s" % ((im.trait + " for ") if im.trait else "", im.ty))
    g.in_main = False

    out = []
    out.extend(header(path, digest, p, sides, g))
    out.append("import Octo.Gen.AddrGen")
    out.append("set_option linter.unusedVariables false")
    out.append("namespace Octo.TrojanGen")
    out.append("open Octo.PWGen Octo.AddrGen")
    out.extend(pre_out)
    out.extend(main_out)
    out.append("end Octo.TrojanGen")
    return "\n".join(out) + "\n"


def main(argv):
    if len(argv) != 3:
        sys.stderr.write("usage: translate_trojan.py <path/to/octo-squirrel-server/src/server/trojan.rs> <out.lean>\n")
        return 2
    try:
        text = translate(argv[1], argv[2])
    except Unsupported as u:
        sys.stderr.write("translate_trojan: unsupported: %s at line %d\n" % (u.what, u.line))
        return 3
    except OSError as e:
        sys.stderr.write("translate_trojan: %s\n" % e)
        return 2
    try:
        with open(argv[2], "w", encoding="utf-8") as f:
            f.write(text)
    except OSError as e:
        sys.stderr.write("translate_trojan: %s\n" % e)
        return 2
    return 0


if __name__ == "__main__":
    sys.exit(main(sys.argv))
