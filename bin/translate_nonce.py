#!/usr/bin/env python3
"""Rust-subset -> Lean 4 translator for the two nonce generators of `codec/aead.rs`.

usage:  translate_nonce.py <path/to/aead.rs> <out.lean>

Only the struct definitions and the inherent `impl` blocks of `CountingNonceGenerator` and
`IncreasingNonceGenerator` are translated (located by name).  Every other top-level item (uses,
enums, macros, other impls, trait impls, the test module) is skipped by token matching (balanced
brackets) without being parsed.  The translated items are tokenized, parsed with a recursive-descent
parser (the one of translate_pw.py, extended), type-checked and emitted statement by statement in the
`Flow`/`Res` style of `Octo/Gen/PacketWindowGen.lean` (whose fixed run-time support is reused).

Exit status:
  0  a Lean module was written
  2  usage / IO error
  3  a construct outside the supported subset inside one of the target items (or a target item is
     missing / has an unexpected shape); one line on stderr; nothing is written (never a guess).
"""
import re
import hashlib
import os
import sys

sys.path.insert(0, os.path.dirname(os.path.abspath(__file__)))
import translate_pw as pw  # noqa: E402
from translate_pw import Unsupported, Tok, Node, RUST_KEYWORDS, LEAN_KEYWORDS, lean_name  # noqa: E402

TARGETS = ("CountingNonceGenerator", "IncreasingNonceGenerator")

INTS = ("u8", "u16", "u64", "usize")
BITS = {"u8": 8, "u16": 16, "u64": 64, "usize": 64}
LEAN_INT = {"u8": "UInt8", "u16": "UInt16", "u64": "UInt64", "usize": "Usize"}
PREFIX = {"u8": "U8", "u16": "U16", "u64": "U64", "usize": "Usize"}
OTHER_INTS = ("u32", "u128", "i8", "i16", "i32", "i64", "i128", "isize")
ALLOWED_ATTRS = ("derive", "allow", "doc", "inline", "must_use", "warn")


# --------------------------------------------------------------------------------------------
# tokenizer: the one of translate_pw, made tolerant of literals that only occur in skipped items
# (byte/raw strings, byte chars, floats become opaque tokens that the parser rejects if it meets them)
# --------------------------------------------------------------------------------------------

def tokenize(src):
    toks = []
    i, n, line = 0, len(src), 1

    def string_end(j):
        """j is the index of the opening quote of an escaped string; returns index after the closing one"""
        nonlocal line
        start = line
        j += 1
        while j < n and src[j] != '"':
            if src[j] == "\\":
                j += 1
            if j < n and src[j] == "\n":
                line += 1
            j += 1
        if j >= n:
            raise Unsupported("unterminated string literal", start)
        return j + 1

    while i < n:
        c = src[i]
        if c == "\n":
            line += 1
            i += 1
            continue
        if c in " \t\r":
            i += 1
            continue
        if src.startswith("//", i):
            j = src.find("\n", i)
            i = n if j < 0 else j
            continue
        if src.startswith("/*", i):
            depth, j = 1, i + 2
            while j < n and depth > 0:
                if src.startswith("/*", j):
                    depth += 1
                    j += 2
                elif src.startswith("*/", j):
                    depth -= 1
                    j += 2
                else:
                    if src[j] == "\n":
                        line += 1
                    j += 1
            if depth > 0:
                raise Unsupported("unterminated block comment", line)
            i = j
            continue
        if c.isalpha() or c == "_":
            j = i
            while j < n and (src[j].isalnum() or src[j] == "_"):
                j += 1
            word = src[i:j]
            if word in ("b", "c") and j < n and src[j] == '"':
                start = line
                e = string_end(j)
                toks.append(Tok("str", src[i:e], start))
                i = e
                continue
            if word == "b" and j < n and src[j] == "'":
                e = src.find("'", j + 2 if src[j + 1:j + 2] == "\\" else j + 1)
                if e < 0:
                    raise Unsupported("unterminated byte literal", line)
                toks.append(Tok("char", src[i:e + 1], line))
                i = e + 1
                continue
            if word in ("r", "br", "cr") and j < n and src[j] in "\"#":
                k = j
                while k < n and src[k] == "#":
                    k += 1
                if k < n and src[k] == '"':
                    closing = '"' + "#" * (k - j)
                    e = src.find(closing, k + 1)
                    if e < 0:
                        raise Unsupported("unterminated raw string", line)
                    start = line
                    line += src.count("\n", i, e)
                    toks.append(Tok("str", src[i:e + len(closing)], start))
                    i = e + len(closing)
                    continue
                if word == "r" and k == j + 1:  # raw identifier r#name
                    e = k
                    while e < n and (src[e].isalnum() or src[e] == "_"):
                        e += 1
                    toks.append(Tok("rawident", src[i:e], line))
                    i = e
                    continue
            toks.append(Tok("ident", word, line))
            i = j
            continue
        if c.isdigit():
            j = i
            while j < n and (src[j].isalnum() or src[j] == "_"):
                j += 1
            if j < n and src[j] == "." and j + 1 < n and src[j + 1].isdigit():
                j += 1
                while j < n and (src[j].isalnum() or src[j] == "_"):
                    j += 1
                toks.append(Tok("float", src[i:j], line))
                i = j
                continue
            toks.append(Tok("int", src[i:j], line))
            i = j
            continue
        if c == '"':
            start = line
            e = string_end(i)
            toks.append(Tok("str", src[i:e], start))
            i = e
            continue
        if c == "'":
            if i + 2 < n and src[i + 1] != "\\" and src[i + 2] == "'":
                toks.append(Tok("char", src[i:i + 3], line))
                i += 3
                continue
            if i + 1 < n and src[i + 1] == "\\":
                j = src.find("'", i + 3)
                if j < 0:
                    raise Unsupported("unterminated char literal", line)
                toks.append(Tok("char", src[i:j + 1], line))
                i = j + 1
                continue
            j = i + 1
            while j < n and (src[j].isalnum() or src[j] == "_"):
                j += 1
            if j < n and src[j] == "'" and j > i + 1:   # multi-byte char such as 'é'
                toks.append(Tok("char", src[i:j + 1], line))
                i = j + 1
                continue
            toks.append(Tok("lifetime", src[i:j], line))
            i = j
            continue
        hit = None
        for table in (pw.PUNCT3, pw.PUNCT2, pw.PUNCT1):
            for p in table:
                if src.startswith(p, i):
                    hit = p
                    break
            if hit:
                break
        if not hit:
            if ord(c) > 127:   # only possible inside a skipped item; kept as an opaque token
                toks.append(Tok("other", c, line))
                i += 1
                continue
            raise Unsupported("character %r" % c, line)
        toks.append(Tok("punct", hit, line))
        i += len(hit)
    toks.append(Tok("eof", "", line))
    return toks


# --------------------------------------------------------------------------------------------
# parser: translate_pw.Parser + the constructs of the nonce generators
# --------------------------------------------------------------------------------------------

class Parser(pw.Parser):
    def __init__(self, toks):
        pw.Parser.__init__(self, toks)
        self.items = []     # ("struct", node) | ("fn", target, node) in source order
        self.nskipped = {}

    # -- items: locate the targets, skip everything else by bracket matching
    def note_skip(self, what, line, end):
        self.skipped.append("%s, lines %d-%d" % (what, line, end))

    def parse_file(self):
        while self.tok.kind != "eof":
            if self.at(";"):
                self.advance()
                continue
            first = self.tok
            attrs = self.parse_attrs()
            self.parse_vis()
            t = self.tok
            nxt = self.peek()
            if self.at("struct") and nxt.kind == "ident" and nxt.text in TARGETS:
                self.check_attrs(attrs)
                self.structs.append(self.parse_struct())
                continue
            if self.at("impl"):
                kind = self.impl_kind()
                if kind == "target":
                    # an impl block compiled only under a cargo feature / cfg (verification hooks, test helpers) is not part
                    # of the default build: skipped like every other item that is not translated
                    if any(re.sub(r"\s+", "", text).startswith("cfg(") for text, _ in attrs):
                        end = self.skip_item()
                        self.note_skip("cfg-gated impl of a target", t.line, end)
                        continue
                    self.check_attrs(attrs)
                    self.parse_impl()
                    continue
                if kind is not None:
                    end = self.skip_item()
                    self.note_skip(kind, t.line, end)
                    continue
            if self.at("fn") and nxt.kind == "ident" and nxt.text == "size_of":
                raise Unsupported("a local `fn size_of` (the translator reads `size_of` as `std::mem::size_of`)", t.line)
            if self.at("macro_rules") and nxt.text == "!":
                name = self.peek(2).text
                end = self.skip_item()
                self.note_skip("macro_rules! %s" % name, t.line, end)
                continue
            kw = t.text
            name = nxt.text if nxt.kind == "ident" else ""
            if t.kind == "ident" and kw in ("struct", "enum", "union", "trait", "type", "mod", "fn", "const", "static") and name in TARGETS:
                raise Unsupported("`%s %s`: a target name defined by something other than a plain `struct`" % (kw, name), t.line)
            end = self.skip_item()
            if kw == "use":
                self.nskipped["use"] = self.nskipped.get("use", 0) + 1
            else:
                self.note_skip("%s %s" % (kw, name) if name else "item starting with `%s`" % kw, first.line, end)

    def check_attrs(self, attrs):
        for text, line in attrs:
            head = text.split("(")[0].split("=")[0].strip()
            if head not in ALLOWED_ATTRS:
                raise Unsupported("attribute `#[%s]` on a translated item" % text, line)

    def impl_kind(self):
        """'target' for `impl <Target> {`; a description for impls to skip; Unsupported for an impl
        that concerns a target in a form that is not translated"""
        k = self.pos + 1
        header = []
        while self.toks[k].kind != "eof" and not (self.toks[k].kind == "punct" and self.toks[k].text in ("{", ";")):
            header.append(self.toks[k])
            k += 1
        texts = [h.text for h in header]
        if "for" in texts:
            return "trait impl `impl %s`" % " ".join(texts)
        if len(header) == 1 and header[0].kind == "ident" and header[0].text in TARGETS:
            return "target"
        for h in header:
            if h.kind == "ident" and h.text in TARGETS:
                raise Unsupported("impl header `impl %s` (only `impl %s {` is translated)" % (" ".join(texts), h.text), header[0].line)
        return "impl `impl %s`" % " ".join(texts)

    # -- types: references, slices
    def parse_type(self):
        t = self.tok
        if self.at("&"):
            self.advance()
            lt = None
            if self.tok.kind == "lifetime":
                lt = self.advance().text
            mut = bool(self.accept("mut"))
            inner = self.parse_type()
            return Node("tref", t.line, mut=mut, inner=inner, lifetime=lt)
        if self.at("["):
            self.advance()
            elem = self.parse_type()
            if self.accept(";"):
                n = self.parse_expr()
                self.expect("]")
                return Node("tarray", t.line, elem=elem, len=n)
            self.expect("]")
            return Node("tslice", t.line, elem=elem)
        return pw.Parser.parse_type(self)

    def parse_fn(self):
        line = self.expect("fn").line
        name = self.ident().text
        lifetimes = []
        if self.accept("<"):
            while not self.at(">"):
                if self.tok.kind != "lifetime":
                    raise Unsupported("generic fn (only lifetime parameters are supported)", line)
                lifetimes.append(self.advance().text)
                if self.at(":"):
                    raise Unsupported("lifetime bound", self.tok.line)
                if not self.accept(","):
                    break
            self.expect(">")
        self.expect("(")
        selfkind = None
        params = []
        first = True
        while not self.at(")"):
            if first and ((self.at("&") and self.receiver_ahead()) or self.at("self") or self.at("mut")):
                if self.accept("&"):
                    if self.tok.kind == "lifetime":
                        self.advance()
                    selfkind = "refmut" if self.accept("mut") else "ref"
                    self.expect("self")
                else:
                    raise Unsupported("by-value `self` receiver", self.tok.line)
            else:
                if self.at("mut"):
                    raise Unsupported("`mut` parameter binding", self.tok.line)
                pl = self.tok.line
                pname = self.ident().text
                self.expect(":")
                pty = self.parse_type()
                params.append(Node("param", pl, name=pname, ty=pty))
            first = False
            if not self.accept(","):
                break
        self.expect(")")
        ret = Node("tunit", line)
        if self.accept("->"):
            ret = self.parse_type()
        if self.at("where"):
            raise Unsupported("where clause", self.tok.line)
        body = self.parse_block()
        return Node("fn", line, name=name, selfkind=selfkind, params=params, ret=ret, body=body, lifetimes=lifetimes)

    def receiver_ahead(self):
        k = self.pos + 1
        if self.toks[k].kind == "lifetime":
            k += 1
        if self.toks[k].text == "mut":
            k += 1
        return self.toks[k].kind == "ident" and self.toks[k].text == "self"

    def parse_impl(self):
        line = self.expect("impl").line
        target = self.ident().text
        self.expect("{")
        while not self.at("}"):
            attrs = self.parse_attrs()
            self.check_attrs(attrs)
            self.parse_vis()
            if self.at("const") and self.peek().text == "fn":
                raise Unsupported("const fn", self.tok.line)
            if not self.at("fn"):
                raise Unsupported("impl item starting with `%s`" % self.tok.text, self.tok.line)
            self.fns.append((target, self.parse_fn()))
        self.expect("}")

    # -- statements: `break;` and method-call statements
    def parse_block(self):
        line = self.expect("{").line
        stmts = []
        tail = None
        while not self.at("}"):
            if self.tok.kind == "eof":
                raise Unsupported("unterminated block", line)
            if tail is not None:
                raise Unsupported("expression statement without `;`", tail.line)
            if self.at("#"):
                raise Unsupported("attribute on a statement", self.tok.line)
            t = self.tok
            if self.at(";"):
                self.advance()
                continue
            if self.at("let"):
                stmts.append(self.parse_let())
            elif self.at("if"):
                stmts.append(self.parse_if())
            elif self.at("for"):
                stmts.append(self.parse_for())
            elif self.at("return"):
                self.advance()
                e = None
                if not self.at(";"):
                    e = self.parse_expr()
                self.expect(";")
                stmts.append(Node("return", t.line, expr=e))
            elif self.at("break"):
                self.advance()
                if not self.at(";"):
                    raise Unsupported("`break` with a label or a value", t.line)
                self.advance()
                stmts.append(Node("break", t.line))
            elif t.kind == "ident" and t.text in ("while", "loop", "match", "continue", "unsafe",
                                                   "fn", "struct", "const", "use", "static", "impl", "mod",
                                                   "enum", "trait", "type", "async", "move"):
                raise Unsupported("`%s`" % t.text, t.line)
            else:
                e = self.parse_expr()
                if self.at("="):
                    self.advance()
                    rhs = self.parse_expr()
                    self.expect(";")
                    stmts.append(Node("assign", t.line, target=e, op=None, expr=rhs))
                elif self.tok.kind == "punct" and self.tok.text in ("+=", "-=", "*=", "&=", "|=", "<<=", ">>=",
                                                                     "/=", "%=", "^="):
                    op = self.advance().text[:-1]
                    rhs = self.parse_expr()
                    self.expect(";")
                    stmts.append(Node("assign", t.line, target=e, op=op, expr=rhs))
                elif self.at(";"):
                    if e.kind != "mcall":
                        raise Unsupported("expression statement", t.line)
                    self.advance()
                    stmts.append(Node("exprstmt", t.line, expr=e))
                elif self.at("}"):
                    tail = e
                else:
                    raise Unsupported("token `%s` after expression" % self.tok.text, self.tok.line)
        self.expect("}")
        return Node("block", line, stmts=stmts, tail=tail)

    # -- expressions
    def parse_unary(self, ns):
        t = self.tok
        if t.kind == "punct" and t.text == "&":
            self.advance()
            mut = bool(self.accept("mut"))
            inner = self.parse_unary(ns)
            return Node("ref", t.line, mut=mut, expr=inner)
        if t.kind == "punct" and t.text in ("-", "!", "*", "&&"):
            raise Unsupported("unary operator `%s`" % t.text, t.line)
        return self.parse_postfix(ns)

    def parse_postfix(self, ns):
        e = self.parse_primary(ns)
        while True:
            if self.at("."):
                line = self.advance().line
                if self.tok.kind == "int":
                    it = self.advance()
                    if not it.text.isdigit():
                        raise Unsupported("tuple field `.%s`" % it.text, line)
                    e = Node("tfield", line, base=e, idx=int(it.text))
                    continue
                if self.tok.kind == "float":
                    raise Unsupported("nested tuple field access `.%s`" % self.tok.text, line)
                if self.at("await"):
                    raise Unsupported("`.await`", line)
                f = self.ident().text
                if self.at("::"):
                    raise Unsupported("method call with explicit type arguments `.%s::<...>`" % f, line)
                if self.at("("):
                    self.advance()
                    args = []
                    while not self.at(")"):
                        args.append(self.parse_expr())
                        if not self.accept(","):
                            break
                    self.expect(")")
                    e = Node("mcall", line, base=e, name=f, args=args)
                else:
                    e = Node("field", line, base=e, name=f)
            elif self.at("["):
                line = self.advance().line
                if self.at("..") or self.at("..="):
                    if self.at("..="):
                        raise Unsupported("range index `[..=k]` (only `[..k]` is supported)", line)
                    self.advance()
                    if self.at("]"):
                        raise Unsupported("range index `[..]` (only `[..k]` is supported)", line)
                    hi = self.parse_expr()
                    self.expect("]")
                    e = Node("sliceto", line, base=e, hi=hi)
                    continue
                idx = self.parse_expr()
                if self.at("..") or self.at("..="):
                    raise Unsupported("range index `[a..]`/`[a..b]` (only `[..k]` is supported)", line)
                self.expect("]")
                e = Node("index", line, base=e, idx=idx)
            elif self.at("("):
                raise Unsupported("function call", self.tok.line)
            elif self.at("?"):
                raise Unsupported("`?` operator", self.tok.line)
            else:
                return e

    def parse_primary(self, ns):
        t = self.tok
        if t.kind in ("float", "rawident", "other"):
            raise Unsupported("%s token `%s`" % (t.kind, t.text), t.line)
        if t.kind == "int":
            self.advance()
            return Node("lit", t.line, **parse_int(t))
        if t.kind == "ident" and t.text == "Self" and self.peek().text == "{" and not ns:
            self.advance()
            return self.struct_literal(t)
        if t.kind == "ident" and t.text not in RUST_KEYWORDS and self.peek().text == "::":
            return self.parse_path()
        if t.kind == "ident" and t.text not in RUST_KEYWORDS and self.peek().text == "{" and not ns:
            self.advance()
            return self.struct_literal(t)
        return pw.Parser.parse_primary(self, ns)

    def struct_literal(self, t):
        self.expect("{")
        fields = []
        while not self.at("}"):
            if self.at(".."):
                raise Unsupported("struct update syntax", self.tok.line)
            fl = self.tok.line
            fname = self.ident().text
            if self.accept(":"):
                fe = self.parse_expr()
            else:
                fe = Node("var", fl, name=fname)   # field-init shorthand `Self { x }` = `Self { x: x }`
            fields.append((fname, fe, fl))
            if not self.accept(","):
                break
        self.expect("}")
        return Node("structlit", t.line, name=t.text, fields=fields)

    def parse_path(self):
        """`u8::MAX`, `size_of::<u16>()`, `std::mem::size_of::<u16>()`"""
        t = self.tok
        segs = [self.ident().text]
        targ = None
        while self.accept("::"):
            if self.at("<"):
                self.advance()
                targ = self.parse_type()
                if self.at(","):
                    raise Unsupported("more than one type argument", self.tok.line)
                self.expect(">")
                break
            segs.append(self.ident().text)
        call = False
        if self.at("("):
            self.advance()
            if not self.at(")"):
                raise Unsupported("call of `%s` with arguments" % "::".join(segs), t.line)
            self.advance()
            call = True
        return Node("path", t.line, segs=segs, targ=targ, call=call)


def parse_int(t):
    text = t.text.replace("_", "")
    suffix = None
    for s in INTS + OTHER_INTS:
        if text.endswith(s) and (not text.lower().startswith("0x") or s[0] in "ui"):
            suffix = s
            text = text[:-len(s)]
            break
    try:
        low = text.lower()
        if low.startswith("0x"):
            v = int(text[2:], 16)
        elif low.startswith("0o"):
            v = int(text[2:], 8)
        elif low.startswith("0b"):
            v = int(text[2:], 2)
        else:
            v = int(text, 10)
    except ValueError:
        raise Unsupported("integer literal `%s`" % t.text, t.line)
    if suffix in OTHER_INTS:
        raise Unsupported("integer type `%s`" % suffix, t.line)
    return {"value": v, "suffix": suffix}


# --------------------------------------------------------------------------------------------
# pretty printer of the parsed Rust (only for the comments in the generated file)
# --------------------------------------------------------------------------------------------

def show_type(t):
    k = t.kind
    if k == "tname":
        return t.name
    if k == "tunit":
        return "()"
    if k == "tref":
        return "&%s%s%s" % ((t.lifetime + " ") if t.lifetime else "", "mut " if t.mut else "", show_type(t.inner))
    if k == "tslice":
        return "[%s]" % show_type(t.elem)
    return "[%s; %s]" % (show_type(t.elem), show_expr(t.len))


def show_expr(e):
    k = e.kind
    if k == "lit":
        return "%d%s" % (e.value, e.suffix or "")
    if k == "bool":
        return "true" if e.value else "false"
    if k == "var":
        return e.name
    if k == "self":
        return "self"
    if k == "paren":
        return "(%s)" % show_expr(e.expr)
    if k == "bin":
        return "%s %s %s" % (show_expr(e.l), e.op, show_expr(e.r))
    if k == "cast":
        return "%s as %s" % (show_expr(e.expr), show_type(e.ty))
    if k == "field":
        return "%s.%s" % (show_expr(e.base), e.name)
    if k == "tfield":
        return "%s.%d" % (show_expr(e.base), e.idx)
    if k == "index":
        return "%s[%s]" % (show_expr(e.base), show_expr(e.idx))
    if k == "sliceto":
        return "%s[..%s]" % (show_expr(e.base), show_expr(e.hi))
    if k == "ref":
        return "&%s%s" % ("mut " if e.mut else "", show_expr(e.expr))
    if k == "mcall":
        return "%s.%s(%s)" % (show_expr(e.base), e.name, ", ".join(show_expr(a) for a in e.args))
    if k == "path":
        s = "::".join(e.segs)
        if e.targ is not None:
            s += "::<%s>" % show_type(e.targ)
        return s + ("()" if e.call else "")
    if k == "repeat":
        return "[%s; %s]" % (show_expr(e.elem), show_expr(e.len))
    if k == "structlit":
        return "%s { %s }" % (e.name, ", ".join("%s: %s" % (f, show_expr(x)) for f, x, _ in e.fields))
    return "?"


# --------------------------------------------------------------------------------------------
# type checker + emitter
# --------------------------------------------------------------------------------------------
# types: 'u8' | 'u16' | 'u64' | 'usize' | 'bool' | 'unit' | ('array', elem, len:int) | ('slice', elem)
#        | ('struct', name) | ('option', t) | ('pair', a, b) | ('ref', mut:bool, t)

RESERVED_TOP = {"Flow", "Res", "U8", "U16", "U64", "Usize", "WF", "Mem", "Slice", "LoopExit"}
ARITH_FAMILIES = ("overflowing", "wrapping", "saturating", "checked")
ARITH_OPS = ("add", "sub")


def type_str(t):
    if isinstance(t, str):
        return t
    if t[0] == "array":
        return "[%s; %d]" % (type_str(t[1]), t[2])
    if t[0] == "slice":
        return "[%s]" % type_str(t[1])
    if t[0] == "struct":
        return t[1]
    if t[0] == "option":
        return "Option<%s>" % type_str(t[1])
    if t[0] == "pair":
        return "(%s, %s)" % (type_str(t[1]), type_str(t[2]))
    if t[0] == "ref":
        return "&%s%s" % ("mut " if t[1] else "", type_str(t[2]))
    return str(t)


def lean_type(t):
    if t in INTS:
        return LEAN_INT[t]
    if t == "bool":
        return "Bool"
    if t == "unit":
        return "Unit"
    if isinstance(t, tuple):
        if t[0] in ("array", "slice"):
            return "Array %s" % lean_type(t[1])
        if t[0] == "struct":
            return t[1]
        if t[0] == "option":
            return "Option %s" % lean_type(t[1])
        if t[0] == "pair":
            return "(%s × %s)" % (lean_type(t[1]), lean_type(t[2]))
        if t[0] == "ref":
            return lean_type(t[2])
    raise AssertionError(t)


def deref(t):
    while isinstance(t, tuple) and t[0] == "ref":
        t = t[2]
    return t


def elem_of(t):
    t = deref(t)
    if isinstance(t, tuple) and t[0] in ("array", "slice"):
        return t[1]
    return None


def is_sized_value(t):
    return t in INTS or t == "bool" or (isinstance(t, tuple) and t[0] in ("array", "option", "pair"))


class Var:
    def __init__(self, name, ty, mut, order):
        self.name, self.ty, self.mut, self.order = name, ty, mut, order


class Gen:
    def __init__(self, parser, all_idents):
        self.p = parser
        self.idents = set(all_idents)
        self.structs = {}
        self.out = []
        self.fresh_n = 0
        n = "ov"
        while n in self.idents or n in LEAN_KEYWORDS:
            n += "_"
        self.idents.add(n)
        self.ov = n
        self.scopes = []
        self.selfkind = None
        self.selfname = None
        self.const_mode = False

    def fresh(self):
        while True:
            self.fresh_n += 1
            n = "v%d" % self.fresh_n
            if n not in self.idents:
                return n

    # -- types
    def resolve_type(self, t, selfname=None, under_ref=False):
        k = t.kind
        if k == "tunit":
            return "unit"
        if k == "tname":
            if t.name in INTS or t.name == "bool":
                return t.name
            if t.name in OTHER_INTS:
                raise Unsupported("integer type `%s`" % t.name, t.line)
            if t.name == "Self" and selfname:
                return ("struct", selfname)
            if t.name in self.structs:
                return ("struct", t.name)
            raise Unsupported("type `%s`" % t.name, t.line)
        if k == "tarray":
            elem = self.resolve_type(t.elem, selfname)
            if elem not in INTS:
                raise Unsupported("array of `%s`" % show_type(t.elem), t.line)
            return ("array", elem, self.const_eval(t.len))
        if k == "tslice":
            if not under_ref:
                raise Unsupported("unsized type `%s` not behind a reference (rustc would reject)" % show_type(t), t.line)
            elem = self.resolve_type(t.elem, selfname)
            if elem not in INTS:
                raise Unsupported("slice of `%s`" % show_type(t.elem), t.line)
            return ("slice", elem)
        if k == "tref":
            inner = self.resolve_type(t.inner, selfname, under_ref=True)
            if elem_of(inner) is None or (isinstance(inner, tuple) and inner[0] == "ref"):
                raise Unsupported("reference type `%s` (only references to slices and arrays are supported)" % show_type(t), t.line)
            return ("ref", t.mut, inner)
        raise Unsupported("type", t.line)

    def const_eval(self, e):
        """value of a `usize` constant expression (array lengths), exact integers"""
        k = e.kind
        if k == "paren":
            return self.const_eval(e.expr)
        if k == "lit":
            if e.suffix not in (None, "usize"):
                raise Unsupported("array length of type `%s` (rustc would reject)" % e.suffix, e.line)
            if e.value >= 1 << 64:
                raise Unsupported("literal out of range", e.line)
            return e.value
        if k == "path":
            ty, _ = self.ex_path(e)
            if ty == "usize" and e.segs[-1] == "size_of":
                return BITS[self.resolve_type(e.targ)] // 8
            raise Unsupported("`%s` in an array length" % show_expr(e), e.line)
        if k == "bin" and e.op in ("+", "-", "*"):
            a, b = self.const_eval(e.l), self.const_eval(e.r)
            v = {"+": a + b, "-": a - b, "*": a * b}[e.op]
            if v < 0 or v >= 1 << 64:
                raise Unsupported("constant expression overflows (rustc would reject)", e.line)
            return v
        raise Unsupported("`%s` in an array length" % show_expr(e), e.line)

    # -- names
    def lookup(self, name, line):
        for scope in reversed(self.scopes):
            if name in scope:
                return scope[name]
        raise Unsupported("unknown name `%s`" % name, line)

    def field_type(self, e):
        if e.base.kind != "self":
            raise Unsupported("field access on something other than `self`", e.line)
        if not self.selfkind:
            raise Unsupported("`self` outside a method", e.line)
        for f in self.structs[self.selfname].fields:
            if f.name == e.name:
                return f.rty
        raise Unsupported("unknown field `%s`" % e.name, e.line)

    def is_bare_literal(self, e):
        while e.kind == "paren":
            e = e.expr
        return e.kind == "lit" and e.suffix is None

    def arith_method(self, name):
        for fam in ARITH_FAMILIES:
            for op in ARITH_OPS:
                if name == "%s_%s" % (fam, op):
                    return fam, op
        return None

    def try_type(self, e):
        """type of an expression if it is determined without context (literals are not), else None"""
        k = e.kind
        if k == "paren":
            return self.try_type(e.expr)
        if k == "lit":
            return e.suffix
        if k == "bool":
            return "bool"
        if k == "var":
            return self.lookup(e.name, e.line).ty
        if k == "cast":
            return self.resolve_type(e.ty)
        if k == "path":
            return self.ex_path(e)[0]
        if k == "bin":
            if e.op in ("==", "!=", "<", ">", "<=", ">="):
                return "bool"
            if e.op in ("<<", ">>"):
                return self.try_type(e.l)
            return self.try_type(e.l) or self.try_type(e.r)
        if k == "field":
            return self.field_type(e)
        if k == "index":
            return elem_of(self.try_type(e.base))
        if k == "sliceto":
            el = elem_of(self.try_type(e.base))
            return ("slice", el) if el else None
        if k == "ref":
            t = self.try_type(e.expr)
            return ("ref", e.mut, t) if t else None
        if k == "tfield":
            t = self.try_type(e.base)
            if isinstance(t, tuple) and t[0] == "pair" and e.idx in (0, 1):
                return t[1 + e.idx]
            return None
        if k == "mcall":
            if e.name == "len":
                return "usize"
            if e.name in ("to_be_bytes", "to_le_bytes"):
                t = self.try_type(e.base)
                return ("array", "u8", BITS[t] // 8) if t in INTS else None
            am = self.arith_method(e.name)
            if am:
                t = self.try_type(e.base)
                if t not in INTS:
                    return None
                return {"overflowing": ("pair", t, "bool"), "wrapping": t, "saturating": t, "checked": ("option", t)}[am[0]]
            if e.name == "unwrap":
                t = self.try_type(e.base)
                return t[1] if isinstance(t, tuple) and t[0] == "option" else None
            return None
        if k == "structlit":
            return ("struct", self.selfname if e.name == "Self" else e.name)
        return None

    # -- expressions
    def lit(self, v, ty):
        return "(%d : %s)" % (v, LEAN_INT[ty])

    def ex_path(self, e):
        segs = e.segs
        if len(segs) == 2 and segs[0] in INTS and segs[1] in ("MAX", "MIN") and e.targ is None and not e.call:
            return segs[0], "%s.%s" % (PREFIX[segs[0]], segs[1])
        if segs[-1] == "size_of" and segs[:-1] in ([], ["mem"], ["std", "mem"], ["core", "mem"]) and e.call and e.targ is not None:
            t = self.resolve_type(e.targ)
            if t not in INTS:
                raise Unsupported("`size_of::<%s>()`" % show_type(e.targ), e.line)
            return "usize", "Mem.size_of_%s" % t
        raise Unsupported("path expression `%s`" % show_expr(e), e.line)

    def ex(self, e, expected, pre):
        """type-check `e` against `expected` (None = must be self-determined) and return
        (type, lean term).  Panic conditions and reads are appended to `pre` in evaluation order."""
        k = e.kind
        if k == "paren":
            return self.ex(e.expr, expected, pre)
        if k == "lit":
            ty = e.suffix or expected
            if ty not in INTS:
                raise Unsupported("cannot determine the type of literal `%d`" % e.value, e.line)
            if e.value >= 1 << BITS[ty]:
                raise Unsupported("literal `%d` out of range for `%s` (rustc would reject)" % (e.value, ty), e.line)
            return ty, self.lit(e.value, ty)
        if k == "bool":
            return "bool", ("true" if e.value else "false")
        if k == "var":
            v = self.lookup(e.name, e.line)
            return v.ty, lean_name(e.name)
        if k == "self":
            raise Unsupported("`self` used as a value", e.line)
        if k == "field":
            return self.field_type(e), "self.%s" % lean_name(e.name)
        if k == "path":
            return self.ex_path(e)
        if k == "cast":
            target = self.resolve_type(e.ty)
            if target not in INTS:
                raise Unsupported("cast to `%s`" % show_type(e.ty), e.line)
            if self.is_bare_literal(e.expr):
                raise Unsupported("cast of an unsuffixed literal", e.line)
            sty, s = self.ex(e.expr, None, pre)
            if sty == target:
                return target, s
            if (sty, target) == ("u64", "usize"):
                return target, "(U64.as_usize %s)" % s
            if (sty, target) == ("usize", "u64"):
                return target, "(Usize.as_u64 %s)" % s
            raise Unsupported("cast from `%s` to `%s`" % (type_str(sty), target), e.line)
        if k == "index":
            bty, b = self.ex(e.base, None, pre)
            el = elem_of(bty)
            if el is None:
                raise Unsupported("indexing into a `%s`" % type_str(bty), e.line)
            ity, i = self.ex(e.idx, "usize", pre)
            if ity != "usize":
                raise Unsupported("index of type `%s` (rustc would reject)" % type_str(ity), e.line)
            v = self.fresh()
            pre.append("Flow.bind (Flow.index %s %s) fun %s =>" % (b, i, v))
            return el, v
        if k == "sliceto":
            bty, b = self.ex(e.base, None, pre)
            el = elem_of(bty)
            if el is None:
                raise Unsupported("range-indexing into a `%s`" % type_str(bty), e.line)
            hty, h = self.ex(e.hi, "usize", pre)
            if hty != "usize":
                raise Unsupported("range bound of type `%s` (rustc would reject)" % type_str(hty), e.line)
            v = self.fresh()
            pre.append("Flow.bind (Flow.sliceTo %s %s) fun %s =>" % (b, h, v))
            return ("slice", el), v
        if k == "ref":
            if e.mut:
                raise Unsupported("`&mut` expression", e.line)
            want = expected[2] if isinstance(expected, tuple) and expected[0] == "ref" else None
            ity, t = self.ex(e.expr, want, pre)
            if not (isinstance(ity, tuple) and ity[0] in ("array", "slice")):
                raise Unsupported("`&` of a `%s` value (only arrays and slices can be borrowed)" % type_str(ity), e.line)
            return ("ref", False, ity), t
        if k == "tfield":
            bty, b = self.ex(e.base, None, pre)
            if not (isinstance(bty, tuple) and bty[0] == "pair") or e.idx not in (0, 1):
                raise Unsupported("tuple field `.%d` of a `%s`" % (e.idx, type_str(bty)), e.line)
            return bty[1 + e.idx], "%s.%d" % (b, e.idx + 1)
        if k == "mcall":
            return self.ex_mcall(e, expected, pre)
        if k == "repeat":
            want = expected[1] if isinstance(expected, tuple) and expected[0] == "array" else None
            ety, el = self.ex(e.elem, want, pre)
            if ety not in INTS:
                raise Unsupported("array of `%s`" % type_str(ety), e.line)
            n = self.const_eval(e.len)
            return ("array", ety, n), "(Array.replicate %d %s)" % (n, el)
        if k == "structlit":
            name = self.selfname if e.name == "Self" else e.name
            if name is None or name not in self.structs:
                raise Unsupported("unknown struct `%s`" % e.name, e.line)
            st = self.structs[name]
            given = {}
            parts = []
            for fname, fe, fl in e.fields:
                if fname in given:
                    raise Unsupported("field `%s` given twice (rustc would reject)" % fname, fl)
                ft = None
                for f in st.fields:
                    if f.name == fname:
                        ft = f.rty
                if ft is None:
                    raise Unsupported("unknown field `%s`" % fname, fl)
                ty, s = self.ex(fe, ft, pre)
                if ty != ft:
                    raise Unsupported("field `%s` has type `%s`, value has type `%s` (rustc would reject)" % (fname, type_str(ft), type_str(ty)), fl)
                given[fname] = s
                parts.append("%s := %s" % (lean_name(fname), s))
            if len(given) != len(st.fields):
                raise Unsupported("missing fields in struct literal (rustc would reject)", e.line)
            return ("struct", name), "({ %s } : %s)" % (", ".join(parts), name)
        if k == "bin":
            return self.ex_bin(e, expected, pre)
        raise Unsupported("expression `%s`" % show_expr(e), e.line)

    def ex_mcall(self, e, expected, pre):
        name = e.name

        def nargs(n):
            if len(e.args) != n:
                raise Unsupported("`.%s` with %d argument(s)" % (name, len(e.args)), e.line)
        if name == "len":
            nargs(0)
            bty, b = self.ex(e.base, None, pre)
            if elem_of(bty) is None:
                raise Unsupported("`.len()` of a `%s`" % type_str(bty), e.line)
            return "usize", "(Slice.len %s)" % b
        if name in ("to_be_bytes", "to_le_bytes"):
            nargs(0)
            t = self.try_type(e.base)
            if t not in INTS:
                raise Unsupported("`.%s()` on a value whose integer type is not determined" % name, e.line)
            _, b = self.ex(e.base, t, pre)
            return ("array", "u8", BITS[t] // 8), "(%s.%s %s)" % (PREFIX[t], name, b)
        am = self.arith_method(name)
        if am:
            nargs(1)
            t = self.try_type(e.base)
            if t not in INTS:
                raise Unsupported("`.%s()` on a value whose integer type is not determined" % name, e.line)
            _, l = self.ex(e.base, t, pre)
            rt, r = self.ex(e.args[0], t, pre)
            if rt != t:
                raise Unsupported("`.%s` of a `%s` with a `%s` (rustc would reject)" % (name, t, type_str(rt)), e.line)
            rty = {"overflowing": ("pair", t, "bool"), "wrapping": t, "saturating": t, "checked": ("option", t)}[am[0]]
            return rty, "(%s.%s %s %s)" % (PREFIX[t], name, l, r)
        if name == "unwrap":
            nargs(0)
            bty, b = self.ex(e.base, None, pre)
            if not (isinstance(bty, tuple) and bty[0] == "option"):
                raise Unsupported("`.unwrap()` of a `%s`" % type_str(bty), e.line)
            v = self.fresh()
            pre.append("Flow.bind (Flow.unwrap %s) fun %s =>" % (b, v))
            return bty[1], v
        if name == "copy_from_slice":
            raise Unsupported("`.copy_from_slice(...)` used as a value", e.line)
        raise Unsupported("method call `.%s(...)`" % name, e.line)

    def arith(self, pre, cond):
        pre.append("Flow.bind (Flow.arith %s (%s)) fun () =>" % (self.ov, cond))

    def ok_prefix(self, ty):
        return "U64" if ty == "usize" else PREFIX[ty]

    def ex_bin(self, e, expected, pre):
        op = e.op
        if op in ("&&", "||"):
            raise Unsupported("lazy boolean operator `%s`" % op, e.line)
        if op in ("/", "%", "^"):
            raise Unsupported("operator `%s`" % op, e.line)
        if op in ("<<", ">>"):
            lt0 = self.try_type(e.l) or expected
            if lt0 not in ("u64", "usize"):
                raise Unsupported("shift of a `%s` (only u64/usize shifts are supported)" % type_str(lt0), e.line)
            lt, l = self.ex(e.l, lt0, pre)
            if self.is_bare_literal(e.r):
                lit = e.r
                while lit.kind == "paren":
                    lit = lit.expr
                if lit.value >= (1 << 31):
                    raise Unsupported("shift amount literal out of range for i32", e.line)
                r = self.lit(lit.value, "u64")
            else:
                rt, r = self.ex(e.r, None, pre)
                if rt not in ("u64", "usize"):
                    raise Unsupported("shift amount of type `%s`" % type_str(rt), e.line)
            self.arith(pre, "U64.shiftOk %s" % r)
            return lt, "(%s %s %s)" % (l, "<<<" if op == "<<" else ">>>", r)
        if op in ("+", "-", "*", "&", "|"):
            ty = self.try_type(e.l) or self.try_type(e.r) or expected
            if ty not in INTS:
                raise Unsupported("cannot determine the operand type of `%s`" % op, e.line)
            lt, l = self.ex(e.l, ty, pre)
            rt, r = self.ex(e.r, ty, pre)
            if lt != ty or rt != ty:
                raise Unsupported("mismatched operand types for `%s` (rustc would reject)" % op, e.line)
            if op in ("+", "-", "*"):
                fn = {"+": "addOk", "-": "subOk", "*": "mulOk"}[op]
                self.arith(pre, "%s.%s %s %s" % (self.ok_prefix(ty), fn, l, r))
                return ty, "(%s %s %s)" % (l, op, r)
            if op == "&":
                return ty, "(%s &&& %s)" % (l, r)
            return ty, "(%s ||| %s)" % (l, r)
        if op in ("==", "!=", "<", ">", "<=", ">="):
            ty = self.try_type(e.l) or self.try_type(e.r)
            if ty is None:
                raise Unsupported("cannot determine the operand type of `%s`" % op, e.line)
            if ty not in INTS and not (ty == "bool" and op in ("==", "!=")):
                raise Unsupported("comparison of `%s` values" % type_str(ty), e.line)
            lt, l = self.ex(e.l, ty, pre)
            rt, r = self.ex(e.r, ty, pre)
            if lt != ty or rt != ty:
                raise Unsupported("mismatched operand types for `%s` (rustc would reject)" % op, e.line)
            if op == "==":
                return "bool", "(%s == %s)" % (l, r)
            if op == "!=":
                return "bool", "(%s != %s)" % (l, r)
            sym = {"<": "<", ">": ">", "<=": "≤", ">=": "≥"}[op]
            return "bool", "(decide (%s %s %s))" % (l, sym, r)
        raise Unsupported("operator `%s`" % op, e.line)

    # ------------------------------------------------------------------------------------
    # statements
    # ------------------------------------------------------------------------------------
    def place_root(self, t):
        while t.kind in ("index", "field", "paren", "sliceto"):
            t = t.expr if t.kind == "paren" else t.base
        if t.kind == "self":
            return "self"
        if t.kind == "var":
            return t.name
        raise Unsupported("assignment target `%s`" % show_expr(t), t.line)

    def assigned_declared(self, block):
        asg, dec = [], set()

        def walk(b):
            for s in b.stmts:
                if s.kind == "let":
                    dec.add(s.name)
                elif s.kind == "assign":
                    r = self.place_root(s.target)
                    if r not in asg:
                        asg.append(r)
                elif s.kind == "exprstmt":
                    r = self.place_root(s.expr.base)
                    if r not in asg:
                        asg.append(r)
                elif s.kind == "if":
                    walk(s.then)
                    if s.els:
                        walk(s.els)
                elif s.kind == "for":
                    dec.add(s.var)
                    walk(s.body)
        walk(block)
        return asg, dec

    def outer_mutated(self, blocks):
        names = []
        for b in blocks:
            asg, dec = self.assigned_declared(b)
            for a in asg:
                if a not in dec and a not in names:
                    names.append(a)

        def key(n):
            if n == "self":
                return -2
            return self.lookup(n, blocks[0].line).order
        names.sort(key=key)
        return names

    def has_break(self, block):
        for s in block.stmts:
            if s.kind == "break":
                return True
            if s.kind == "if":
                if self.has_break(s.then) or (s.els and self.has_break(s.els)):
                    return True
        return False

    def pat(self, names):
        ns = [lean_name(n) for n in names]
        if len(ns) == 0:
            return "()"
        if len(ns) == 1:
            return ns[0]
        return "(%s)" % ", ".join(ns)

    def declare(self, name, ty, mut, line):
        for scope in self.scopes:
            if name in scope:
                raise Unsupported("shadowing of `%s`" % name, line)
        if name in RESERVED_TOP or name in self.structs:
            raise Unsupported("local name `%s` clashes with a generated name" % name, line)
        self.order += 1
        self.scopes[-1][name] = Var(name, ty, mut, self.order)

    def ret_term(self, val):
        parts = [lean_name(n) for n in self.ret_parts] + [val]
        t = parts[0] if len(parts) == 1 else "(%s)" % ", ".join(parts)
        for is_b, _ in self.loops:
            if is_b:
                t = "(LoopExit.ret %s)" % t
        return t

    def emit(self, ind, text):
        self.lines.append("  " * ind + text)

    def emit_pre(self, ind, pre):
        for p in pre:
            self.emit(ind, p)

    def block(self, blk, ind, cont, fn_body=False):
        stmts = blk.stmts
        done = False
        for s in stmts:
            if done:
                raise Unsupported("statement after `return`/`break`", s.line)
            k = s.kind
            if k == "let":
                self.emit(ind, "-- L%d: let %s%s = %s;" % (s.line, "mut " if s.mut else "", s.name, show_expr(s.expr)))
                pre = []
                want = self.resolve_type(s.ty, self.selfname) if s.ty else None
                ty, t = self.ex(s.expr, want or self.try_type(s.expr), pre)
                if want and want != ty:
                    raise Unsupported("`let %s` type annotation mismatch (rustc would reject)" % s.name, s.line)
                if not is_sized_value(ty):
                    raise Unsupported("`let` of a `%s` value" % type_str(ty), s.line)
                self.emit_pre(ind, pre)
                self.declare(s.name, ty, s.mut, s.line)
                self.emit(ind, "let %s : %s := %s" % (lean_name(s.name), lean_type(ty), t))
            elif k == "assign":
                self.stmt_assign(s, ind)
            elif k == "exprstmt":
                self.stmt_call(s, ind)
            elif k == "if":
                self.stmt_if(s, ind)
            elif k == "for":
                self.stmt_for(s, ind)
            elif k == "return":
                self.emit(ind, "-- L%d: return%s;" % (s.line, (" " + show_expr(s.expr)) if s.expr else ""))
                self.emit_return(s.expr, s.line, ind)
                done = True
            elif k == "break":
                if not self.loops:
                    raise Unsupported("`break` outside a loop (rustc would reject)", s.line)
                is_b, lpat = self.loops[-1]
                assert is_b
                self.emit(ind, "-- L%d: break;" % s.line)
                self.emit(ind, "Flow.ret (LoopExit.brk %s)" % lpat)
                done = True
            else:
                raise Unsupported("statement", s.line)
        if blk.tail is not None:
            if done:
                raise Unsupported("expression after `return`/`break`", blk.tail.line)
            if not fn_body:
                raise Unsupported("block with a value (trailing expression) used as a statement", blk.tail.line)
            self.emit(ind, "-- L%d: %s   (value of the function body)" % (blk.tail.line, show_expr(blk.tail)))
            self.emit_return(blk.tail, blk.tail.line, ind)
            done = True
        if not done:
            if fn_body:
                if self.ret_ty != "unit":
                    raise Unsupported("function body without a final value", blk.line)
                self.emit(ind, "-- end of body: return ()")
                self.emit(ind, "Flow.ret %s" % self.ret_term("()"))
            else:
                self.emit(ind, cont)

    def compatible(self, ty, want):
        if ty == want:
            return True
        if isinstance(ty, tuple) and isinstance(want, tuple) and ty[0] == "ref" and want[0] == "ref":
            if want[1] and not ty[1]:
                return False
            a, b = ty[2], want[2]
            if a == b:
                return True
            return b[0] == "slice" and a[0] == "array" and a[1] == b[1]   # unsized coercion &[T; N] -> &[T]
        return False

    def emit_return(self, expr, line, ind):
        if expr is None:
            if self.ret_ty != "unit":
                raise Unsupported("`return;` in a function returning a value (rustc would reject)", line)
            self.emit(ind, "Flow.ret %s" % self.ret_term("()"))
            return
        pre = []
        ty, t = self.ex(expr, self.ret_ty, pre)
        if not self.compatible(ty, self.ret_ty):
            raise Unsupported("returned value has type `%s`, function returns `%s` (rustc would reject)" % (type_str(ty), type_str(self.ret_ty)), line)
        self.emit_pre(ind, pre)
        self.emit(ind, "Flow.ret %s" % self.ret_term(t))

    def write_back(self, base, term, ind, line):
        """`base` (a variable or a field of self holding an array / a mutable slice) := term"""
        while base.kind == "paren":
            base = base.expr
        if base.kind == "field":
            self.field_type(base)
            if self.selfkind != "refmut":
                raise Unsupported("assignment through `&self` (rustc would reject)", line)
            self.emit(ind, "let self : %s := { self with %s := %s }" % (self.selfname, lean_name(base.name), term))
        elif base.kind == "var":
            bv = self.lookup(base.name, base.line)
            through_ref = isinstance(bv.ty, tuple) and bv.ty[0] == "ref"
            if through_ref and not bv.ty[1]:
                raise Unsupported("write through the shared reference `%s` (rustc would reject)" % base.name, line)
            if not through_ref and not bv.mut:
                raise Unsupported("assignment to immutable `%s` (rustc would reject)" % base.name, line)
            self.emit(ind, "let %s : %s := %s" % (lean_name(base.name), lean_type(bv.ty), term))
        else:
            raise Unsupported("assignment target `%s`" % show_expr(base), line)

    def stmt_assign(self, s, ind):
        tgt = s.target
        while tgt.kind == "paren":
            tgt = tgt.expr
        self.emit(ind, "-- L%d: %s %s= %s;" % (s.line, show_expr(tgt), s.op or "", show_expr(s.expr)))
        value_expr = s.expr
        if s.op is not None:
            if s.op in ("/", "%", "^"):
                raise Unsupported("operator `%s=`" % s.op, s.line)
            value_expr = Node("bin", s.line, op=s.op, l=tgt, r=Node("paren", s.line, expr=s.expr))
        pre = []
        if tgt.kind == "var":
            v = self.lookup(tgt.name, tgt.line)
            if not v.mut:
                raise Unsupported("assignment to immutable `%s` (rustc would reject)" % tgt.name, s.line)
            ty, t = self.ex(value_expr, v.ty, pre)
            if ty != v.ty:
                raise Unsupported("assignment of `%s` to `%s: %s` (rustc would reject)" % (type_str(ty), tgt.name, type_str(v.ty)), s.line)
            self.emit_pre(ind, pre)
            self.emit(ind, "let %s : %s := %s" % (lean_name(tgt.name), lean_type(ty), t))
            return
        if tgt.kind == "field":
            fty = self.field_type(tgt)
            if self.selfkind != "refmut":
                raise Unsupported("assignment through `&self` (rustc would reject)", s.line)
            ty, t = self.ex(value_expr, fty, pre)
            if ty != fty:
                raise Unsupported("assignment of `%s` to field `%s: %s` (rustc would reject)" % (type_str(ty), tgt.name, type_str(fty)), s.line)
            self.emit_pre(ind, pre)
            self.emit(ind, "let self : %s := { self with %s := %s }" % (self.selfname, lean_name(tgt.name), t))
            return
        if tgt.kind == "index":
            base = tgt.base
            while base.kind == "paren":
                base = base.expr
            # Rust evaluates the right-hand side first, then the index, then the bounds check
            el = elem_of(self.try_type(base))
            if el is None:
                raise Unsupported("indexed assignment into a non-array", s.line)
            ty, t = self.ex(value_expr, el, pre)
            if ty != el:
                raise Unsupported("assignment of `%s` to an element of type `%s` (rustc would reject)" % (type_str(ty), type_str(el)), s.line)
            _, b = self.ex(base, None, pre)
            ity, i = self.ex(tgt.idx, "usize", pre)
            if ity != "usize":
                raise Unsupported("index of type `%s` (rustc would reject)" % type_str(ity), s.line)
            v = self.fresh()
            pre.append("Flow.bind (Flow.store %s %s %s) fun %s =>" % (b, i, t, v))
            self.emit_pre(ind, pre)
            self.write_back(base, v, ind, s.line)
            return
        raise Unsupported("assignment target `%s`" % show_expr(tgt), s.line)

    def stmt_call(self, s, ind):
        """`place.copy_from_slice(&src);` with place = `x` or `x[..k]` — the only call statement"""
        c = s.expr
        self.emit(ind, "-- L%d: %s;" % (s.line, show_expr(c)))
        if c.name != "copy_from_slice":
            raise Unsupported("method call statement `.%s(...)`" % c.name, s.line)
        if len(c.args) != 1:
            raise Unsupported("`.copy_from_slice` with %d arguments (rustc would reject)" % len(c.args), s.line)
        recv = c.base
        while recv.kind == "paren":
            recv = recv.expr
        pre = []
        if recv.kind == "sliceto":
            base = recv.base
            while base.kind == "paren":
                base = base.expr
            if base.kind not in ("var", "field"):
                raise Unsupported("`copy_from_slice` into `%s`" % show_expr(recv), s.line)
            # receiver first: the range index (bounds check), then the argument, then the length check
            dty, d = self.ex(recv, None, pre)
            pre2 = []
            hty, h = self.ex(recv.hi, "usize", pre2)
            if pre2:   # the bound is written twice in the output, so it must be a pure term
                raise Unsupported("range bound `%s` with a checked sub-expression in a `copy_from_slice` receiver" % show_expr(recv.hi), s.line)
        elif recv.kind in ("var", "field"):
            base = recv
            dty, d = self.ex(recv, None, pre)
            h = None
        else:
            raise Unsupported("`copy_from_slice` into `%s`" % show_expr(recv), s.line)
        el = elem_of(dty)
        if el is None:
            raise Unsupported("`copy_from_slice` on a `%s`" % type_str(dty), s.line)
        aty, a = self.ex(c.args[0], ("ref", False, ("slice", el)), pre)
        if not (isinstance(aty, tuple) and aty[0] == "ref" and elem_of(aty) == el):
            raise Unsupported("`copy_from_slice` argument of type `%s` where `&[%s]` is expected (rustc would reject)" % (type_str(aty), el), s.line)
        v = self.fresh()
        pre.append("Flow.bind (Flow.copyFromSlice %s %s) fun %s =>" % (d, a, v))
        self.emit_pre(ind, pre)
        if h is None:
            self.write_back(base, v, ind, s.line)
        else:
            _, b = self.ex(base, None, [])
            self.write_back(base, "(Slice.putTo %s %s %s)" % (b, h, v), ind, s.line)

    def stmt_if(self, s, ind):
        blocks = [s.then] + ([s.els] if s.els else [])
        names = self.outer_mutated(blocks)
        pat = self.pat(names)
        self.emit(ind, "-- L%d: if %s { ... }%s   (assigns: %s)" % (s.line, show_expr(s.cond), " else { ... }" if s.els else "",
                                                                     ", ".join(names) if names else "nothing"))
        pre = []
        ty, c = self.ex(s.cond, "bool", pre)
        if ty != "bool":
            raise Unsupported("`if` condition of type `%s` (rustc would reject)" % type_str(ty), s.line)
        self.emit_pre(ind, pre)
        self.emit(ind, "Flow.bind (")
        self.emit(ind + 1, "if %s then" % c)
        self.scopes.append({})
        self.block(s.then, ind + 2, "Flow.next %s" % pat)
        self.scopes.pop()
        self.emit(ind + 1, "else")
        if s.els:
            self.scopes.append({})
            self.block(s.els, ind + 2, "Flow.next %s" % pat)
            self.scopes.pop()
        else:
            self.emit(ind + 2, "Flow.next %s" % pat)
        self.emit(ind, ") fun %s =>" % pat)

    def stmt_for(self, s, ind):
        names = self.outer_mutated([s.body])
        pat = self.pat(names)
        brk = self.has_break(s.body)
        self.emit(ind, "-- L%d: for %s in %s%s%s { ... }   (assigns: %s%s)" % (
            s.line, s.var, show_expr(s.lo), "..=" if s.incl else "..", show_expr(s.hi),
            ", ".join(names) if names else "nothing", "; contains `break`" if brk else ""))
        ty = self.try_type(s.lo) or self.try_type(s.hi)
        if ty not in ("u64", "usize"):
            raise Unsupported("range bounds of type `%s` (only u64/usize ranges are supported)" % type_str(ty), s.line)
        pre = []
        lt, lo = self.ex(s.lo, ty, pre)
        ht, hi = self.ex(s.hi, ty, pre)
        if lt != ty or ht != ty:
            raise Unsupported("mismatched range bound types (rustc would reject)", s.line)
        self.emit_pre(ind, pre)
        fn = ("Flow.forIncl" if s.incl else "Flow.forExcl") + ("B" if brk else "")
        self.emit(ind, "Flow.bind (%s %s %s (fun %s %s =>" % (fn, lo, hi, lean_name(s.var), pat))
        self.scopes.append({})
        self.declare(s.var, ty, False, s.line)
        self.loops.append((brk, pat))
        self.block(s.body, ind + 2, "Flow.next %s" % pat)
        self.loops.pop()
        self.scopes.pop()
        self.emit(ind + 1, ") %s" % pat)
        self.emit(ind, ") fun %s =>" % pat)

    # ------------------------------------------------------------------------------------
    # items
    # ------------------------------------------------------------------------------------
    def gen_structs(self):
        out = self.out
        for st in self.p.structs:
            if st.name in self.structs:
                raise Unsupported("duplicate struct `%s`" % st.name, st.line)
            self.structs[st.name] = st
            seen = set()
            for f in st.fields:
                if f.name in seen:
                    raise Unsupported("duplicate field `%s`" % f.name, f.line)
                seen.add(f.name)
                f.rty = self.resolve_type(f.ty)
                if not (f.rty in INTS or f.rty == "bool" or (isinstance(f.rty, tuple) and f.rty[0] == "array")):
                    raise Unsupported("field of type `%s`" % show_type(f.ty), f.line)
            out.append("/-! ### struct %s -/" % st.name)
            out.append("structure %s where" % st.name)
            for f in st.fields:
                out.append("  -- L%d: %s: %s" % (f.line, f.name, show_type(f.ty)))
                out.append("  %s : %s" % (lean_name(f.name), lean_type(f.rty)))
            out.append("deriving DecidableEq, Repr")
            out.append("")
            wf = []
            for f in st.fields:
                if isinstance(f.rty, tuple) and f.rty[0] == "array":
                    out.append("/-- the array length in the type of field `%s` (`%s`) -/" % (f.name, show_expr(f.ty.len)))
                    out.append("def %s.%s_LEN : Nat := %d" % (st.name, f.name, f.rty[2]))
                    wf.append("s.%s.size = %s.%s_LEN" % (lean_name(f.name), st.name, f.name))
            out.append("/-- the part of the Rust type that `Array` does not carry: fixed array lengths -/")
            out.append("def %s.WF (s : %s) : Prop := %s" % (st.name, st.name, " ∧ ".join(wf) if wf else "True"))
            out.append("")

    def gen_fns(self):
        out = self.out
        seen = set()
        for target, fn in self.p.fns:
            if target not in self.structs:
                raise Unsupported("impl for `%s` whose struct definition was not found" % target, fn.line)
            if (target, fn.name) in seen:
                raise Unsupported("duplicate fn `%s`" % fn.name, fn.line)
            seen.add((target, fn.name))
            for f in self.structs[target].fields:
                if f.name == fn.name or fn.name in ("WF", "mk", "rec", "casesOn", "noConfusion") or fn.name.endswith("_LEN"):
                    raise Unsupported("fn name `%s` clashes with a generated name" % fn.name, fn.line)
            self.selfname = target
            self.selfkind = fn.selfkind
            self.scopes = [{}]
            self.order = 0
            self.lines = []
            self.loops = []
            self.ret_ty = self.resolve_type(fn.ret, target)
            rt = self.ret_ty
            if isinstance(rt, tuple) and rt[0] == "ref":
                if rt[1]:
                    raise Unsupported("fn returning a `&mut`", fn.line)
            elif not (rt in INTS or rt in ("bool", "unit") or (isinstance(rt, tuple) and rt[0] == "struct")):
                raise Unsupported("fn returning `%s`" % show_type(fn.ret), fn.line)
            params = ["(%s : Bool)" % self.ov]
            sig = []
            self.ret_parts = []
            results = []
            if fn.selfkind:
                params.append("(self : %s)" % target)
                sig.append("&mut self" if fn.selfkind == "refmut" else "&self")
                if fn.selfkind == "refmut":
                    self.ret_parts.append("self")
                    results.append(("final `*self`", target))
            for prm in fn.params:
                ty = self.resolve_type(prm.ty, target)
                if not (ty in INTS or ty == "bool" or (isinstance(ty, tuple) and ty[0] == "ref")):
                    raise Unsupported("parameter of type `%s`" % show_type(prm.ty), prm.line)
                self.declare(prm.name, ty, False, prm.line)
                params.append("(%s : %s)" % (lean_name(prm.name), lean_type(ty)))
                sig.append("%s: %s" % (prm.name, show_type(prm.ty)))
                if isinstance(ty, tuple) and ty[0] == "ref" and ty[1]:
                    self.ret_parts.append(prm.name)
                    results.append(("final `*%s`" % prm.name, lean_type(ty)))
            results.append(("returned value", lean_type(self.ret_ty)))
            rty = " × ".join(r[1] for r in results)
            self.block(fn.body, 1, None, fn_body=True)
            out.append("-- L%d: fn %s(%s) -> %s" % (fn.line, fn.name, ", ".join(sig), show_type(fn.ret)))
            if len(results) > 1:
                out.append("/-- `%s::%s`; the result is the tuple (%s) -/" % (target, fn.name, ", ".join(r[0] for r in results)))
            else:
                out.append("/-- `%s::%s` -/" % (target, fn.name))
            out.append("def %s.%s %s : Res (%s) :=" % (target, lean_name(fn.name), " ".join(params), rty))
            out.append("  Flow.run (")
            out.extend(self.lines)
            out.append("  )")
            out.append("")


def int_support(P, L, B):
    mx = (1 << B) - 1
    nb = B // 8
    be = ", ".join(("(x >>> %d).toUInt8" % (8 * (nb - 1 - i))) if i < nb - 1 else "x.toUInt8" for i in range(nb))
    le = ", ".join(("(x >>> %d).toUInt8" % (8 * i)) if i > 0 else "x.toUInt8" for i in range(nb))
    if B == 8:
        be = le = "x"
    s = '''
/-- `{p}::MAX` -/
def {P}.MAX : {L} := {mx}
/-- `{p}::MIN` -/
def {P}.MIN : {L} := 0
/-- `a.overflowing_add(b)`: (wrapped sum, did it overflow) -/
def {P}.overflowing_add (a b : {L}) : {L} × Bool := (a + b, decide (2 ^ {B} ≤ a.toNat + b.toNat))
/-- `a.wrapping_add(b)` -/
def {P}.wrapping_add (a b : {L}) : {L} := a + b
/-- `a.saturating_add(b)` = min(MAX, a + b) -/
def {P}.saturating_add (a b : {L}) : {L} := if a.toNat + b.toNat < 2 ^ {B} then a + b else {P}.MAX
/-- `a.checked_add(b)` = `None` on overflow -/
def {P}.checked_add (a b : {L}) : Option {L} := if a.toNat + b.toNat < 2 ^ {B} then some (a + b) else none
/-- `a.overflowing_sub(b)` -/
def {P}.overflowing_sub (a b : {L}) : {L} × Bool := (a - b, decide (a.toNat < b.toNat))
/-- `a.wrapping_sub(b)` -/
def {P}.wrapping_sub (a b : {L}) : {L} := a - b
/-- `a.saturating_sub(b)` = max(0, a - b) -/
def {P}.saturating_sub (a b : {L}) : {L} := if b.toNat ≤ a.toNat then a - b else {P}.MIN
/-- `a.checked_sub(b)` = `None` on underflow -/
def {P}.checked_sub (a b : {L}) : Option {L} := if b.toNat ≤ a.toNat then some (a - b) else none
/-- `x.to_be_bytes()` -/
def {P}.to_be_bytes (x : {L}) : Array UInt8 := #[{be}]
/-- `x.to_le_bytes()` -/
def {P}.to_le_bytes (x : {L}) : Array UInt8 := #[{le}]
'''.format(P=P, L=L, B=B, mx=mx, be=be, le=le, p=P.lower())
    if B < 64:
        s += '''/-- `a + b` / `a - b` / `a * b` do not overflow (checked only when overflow-checks are on) -/
def {P}.addOk (a b : {L}) : Bool := decide (a.toNat + b.toNat < 2 ^ {B})
def {P}.subOk (a b : {L}) : Bool := decide (b.toNat ≤ a.toNat)
def {P}.mulOk (a b : {L}) : Bool := decide (a.toNat * b.toNat < 2 ^ {B})
'''.format(P=P, L=L, B=B)
    return s


PRELUDE = r'''
/-! ### fixed run-time support (not derived from the source)

`Res`, `Flow`, `Flow.bind/run/arith/index/store/forIncl/forExcl`, `Usize` are those of
`Octo.PWGen` (the fixed prelude of `Octo/Gen/PacketWindowGen.lean`); what follows adds the
operations of the nonce generators: `u8`/`u16` methods, slices, `break`. -/
''' + int_support("U8", "UInt8", 8) + int_support("U16", "UInt16", 16) + int_support("U64", "UInt64", 64) \
    + int_support("Usize", "Usize", 64) + r'''
/-- `size_of::<T>()` -/
def Mem.size_of_u8 : Usize := 1
def Mem.size_of_u16 : Usize := 2
def Mem.size_of_u64 : Usize := 8
def Mem.size_of_usize : Usize := 8

/-- `opt.unwrap()`: panics on `None` -/
def Flow.unwrap {τ ρ : Type} : Option τ → Flow τ ρ
  | some v => .next v
  | none => .panic

/-- `a.len()` (slices and arrays; lengths fit a `usize`) -/
def Slice.len {τ : Type} (a : Array τ) : Usize := UInt64.ofNat a.size

/-- the place `a[..k]`: panics when `k > a.len()`; the value is the viewed elements -/
def Flow.sliceTo {τ ρ : Type} (a : Array τ) (k : Usize) : Flow (Array τ) ρ :=
  if k.toNat ≤ a.size then .next (a.extract 0 k.toNat) else .panic

/-- `dst.copy_from_slice(src)`: panics when the lengths differ; the value is the new content of `dst` -/
def Flow.copyFromSlice {τ ρ : Type} (dst src : Array τ) : Flow (Array τ) ρ :=
  if src.size = dst.size then .next src else .panic

/-- `a` after the view `a[..k]` has been given the content `v` -/
def Slice.putTo {τ : Type} (a : Array τ) (k : Usize) (v : Array τ) : Array τ :=
  v ++ a.extract k.toNat a.size

/-- how the body of a loop that contains `break` is left early: by `break` (carrying the loop's
variables) or by `return` -/
inductive LoopExit (σ ρ : Type) where
  | brk (s : σ)
  | ret (r : ρ)

/-- end of a loop with `break`: `break` continues after the loop, `return` still returns -/
def Flow.catchBreak {σ ρ : Type} : Flow σ (LoopExit σ ρ) → Flow σ ρ
  | .next s => .next s
  | .ret (.brk s) => .next s
  | .ret (.ret r) => .ret r
  | .panic => .panic

/-- `for x in lo..hi { body }` where the body may `break` -/
def Flow.forExclB {σ ρ : Type} (lo hi : UInt64) (body : UInt64 → σ → Flow σ (LoopExit σ ρ)) (s : σ) : Flow σ ρ :=
  Flow.catchBreak (Flow.forExcl lo hi body s)

/-- `for x in lo..=hi { body }` where the body may `break` -/
def Flow.forInclB {σ ρ : Type} (lo hi : UInt64) (body : UInt64 → σ → Flow σ (LoopExit σ ρ)) (s : σ) : Flow σ ρ :=
  Flow.catchBreak (Flow.forIncl lo hi body s)
'''


def header(path, digest, p):
    lines = []
    lines.append("/- GENERATED by translate_nonce.py — do not edit.")
    lines.append("   source: %s" % path)
    lines.append("   sha256: %s" % digest)
    lines.append("")
    lines.append("   Statement-by-statement translation of `struct CountingNonceGenerator`, `struct IncreasingNonceGenerator`")
    lines.append("   and their inherent `impl` blocks (located by name); nothing else of the file is translated.")
    lines.append("   * u8 = UInt8, u16 = UInt16, u64 = UInt64, usize = UInt64 (64-bit target); `[T; N]`, `[T]` = Array T")
    lines.append("     (fixed lengths are kept in `<Struct>.WF`); `&`/`&mut` = the referenced value, a `&mut [T]` parameter is")
    lines.append("     returned next to the result (final content); lifetimes are ignored.")
    lines.append("   * `+ - *` wrap and are preceded by `Flow.arith ov (...)` (panic when overflow-checks are on, `ov = true`);")
    lines.append("     `overflowing_/wrapping_/saturating_/checked_` `add/sub` never panic and have their own definitions below.")
    lines.append("   * `a[i]`, `a[i] = v`, `a[..k]`, `copy_from_slice`, `unwrap` panic as in Rust (both profiles).")
    lines.append("   * `Flow`: next (fall through, carrying the assigned variables) | ret (return) | panic; in a loop with")
    lines.append("     `break` the return channel is `LoopExit` (brk | ret).  `size_of` is read as `std::mem::size_of`.")
    lines.append("   * lines `-- Ln:` quote the parsed Rust statement of source line n.")
    lines.append("   skipped (not parsed, bracket matching only):")
    if p.nskipped.get("use"):
        lines.append("     - %d `use` items" % p.nskipped["use"])
    for s in p.skipped:
        lines.append("     - %s" % s)
    lines.append("-/")
    return lines


def translate(path):
    data = open(path, "rb").read()
    digest = hashlib.sha256(data).hexdigest()
    try:
        src = data.decode("utf-8")
    except UnicodeDecodeError:
        raise Unsupported("non-UTF-8 source", 1)
    toks = tokenize(src)
    p = Parser(toks)
    p.parse_file()
    names = [s.name for s in p.structs]
    for t in TARGETS:
        if names.count(t) != 1:
            raise Unsupported("expected exactly one `struct %s`, found %d" % (t, names.count(t)), 1)
        if not any(tg == t for tg, _ in p.fns):
            raise Unsupported("no inherent `impl %s` with a fn found" % t, 1)
    idents = [t.text for t in toks if t.kind == "ident"]
    g = Gen(p, idents)
    g.out.extend(header(path, digest, p))
    g.out.append("import Octo.Gen.PacketWindowGen")
    g.out.append("set_option linter.unusedVariables false")
    g.out.append("namespace Octo.NonceGen")
    g.out.append("open Octo.PWGen")
    g.out.append(PRELUDE)
    g.gen_structs()
    g.out.append("/-! ### functions -/")
    g.gen_fns()
    g.out.append("end Octo.NonceGen")
    return "\n".join(g.out) + "\n"


def main(argv):
    if len(argv) != 3:
        sys.stderr.write("usage: translate_nonce.py <path/to/aead.rs> <out.lean>\n")
        return 2
    try:
        text = translate(argv[1])
    except Unsupported as u:
        sys.stderr.write("translate_nonce: unsupported: %s at line %d\n" % (u.what, u.line))
        return 3
    except OSError as e:
        sys.stderr.write("translate_nonce: %s\n" % e)
        return 2
    try:
        with open(argv[2], "w", encoding="utf-8") as f:
            f.write(text)
    except OSError as e:
        sys.stderr.write("translate_nonce: %s\n" % e)
        return 2
    return 0


if __name__ == "__main__":
    sys.exit(main(sys.argv))
