#!/usr/bin/env python3
"""Rust-subset -> Lean 4 translator for `packet_window.rs`.

usage:  translate_pw.py <path/to/packet_window.rs> <out.lean>

The non-test part of the file (the `const` items, the struct, and every `fn` of the inherent
`impl`) is tokenized and parsed with a small recursive-descent parser, type-checked for the
integer subset (`u64`, `usize`, `bool`, `[u64; N]`) and emitted, statement by statement, as a
Lean 4 module in namespace `Octo.PWGen`.  Nothing is pattern-pasted: every emitted definition is
printed from the parse tree.

Exit status:
  0  a Lean module was written
  2  usage / IO error
  3  the file uses syntax (or types) outside the supported subset; one line on stderr names the
     construct and the line.  Nothing is written in that case (never a guess).

Semantics choices (also written into the header of the generated file):
  * `u64` is Lean's `UInt64`; `usize` is modelled as a 64-bit word too (`Usize := UInt64`, i.e.
    target_pointer_width = 64, which is what the proxy is built for); `as usize`/`as u64` are the
    identity wrappers `U64.as_usize`/`Usize.as_u64`.
  * `+ - *` are the wrapping `UInt64` operations and `<< >>` are `<<<`/`>>>` with the shift amount
    kept exactly as written in the Rust (Lean masks the amount mod 64, which is what a release
    build of rustc does).  In front of every such operation the translator emits the condition
    under which a build with `overflow-checks = on` (debug profile) would panic
    (`Flow.arith ov (U64.addOk a b)` ...).  `ov : Bool` is the first parameter of every generated
    function: `ov = true` is the debug profile, `ov = false` the release profile (wrap / mask).
  * array indexing is checked in both profiles: `Flow.index` / `Flow.store` give `panic` when
    the index is out of bounds.
  * control flow is a three-outcome result `Flow σ ρ` (`next state` | `ret value` | `panic`):
    an `if` statement is an expression producing the variables it may have assigned, `return`
    is `Flow.ret`, a `for x in a..=b` loop is `Flow.forIncl a b (fun x state => body) state`.
  * constant items are evaluated by the translator as well (exact integers); an overflowing
    constant expression is rejected (rustc rejects it too) and the value is emitted as a
    `theorem NAME_eval : NAME.toNat = value := by decide`, so Lean re-checks the evaluation.
"""
import hashlib
import sys

U64_MAX = (1 << 64) - 1


class Unsupported(Exception):
    def __init__(self, what, line):
        Exception.__init__(self, what)
        self.what = what
        self.line = line


# --------------------------------------------------------------------------------------------
# tokenizer
# --------------------------------------------------------------------------------------------

PUNCT3 = ["..=", "<<=", ">>=", "..."]
PUNCT2 = ["::", "->", "=>", "..", "<<", ">>", "<=", ">=", "==", "!=", "&&", "||", "+=", "-=", "*=",
          "/=", "%=", "&=", "|=", "^="]
PUNCT1 = list("+-*/%&|^!<>=.,;:(){}[]#?@$~")


class Tok:
    __slots__ = ("kind", "text", "line")

    def __init__(self, kind, text, line):
        self.kind, self.text, self.line = kind, text, line

    def __repr__(self):
        return "%s:%r@%d" % (self.kind, self.text, self.line)


def tokenize(src):
    toks = []
    i, n, line = 0, len(src), 1
    while i < n:
        c = src[i]
        if c == "\n":
            line += 1
            i += 1
            continue
        if c in " \t\r":
            i += 1
            continue
        if src.startswith("//", i):  # line comment, doc comments included
            j = src.find("\n", i)
            i = n if j < 0 else j
            continue
        if src.startswith("/*", i):  # block comment (nesting allowed, as in Rust)
            depth, j = 1, i + 2
            while j < n and depth > 0:
                if src.startswith("/*", j):
                    depth += 1
                    j += 2
                elif src.startswith("*/", j):
                    depth -= 1
                    j += 2
                else:
                    if src[j] == "\n":
                        line += 1
                    j += 1
            if depth > 0:
                raise Unsupported("unterminated block comment", line)
            i = j
            continue
        if c.isalpha() or c == "_":
            j = i
            while j < n and (src[j].isalnum() or src[j] == "_"):
                j += 1
            word = src[i:j]
            # raw / byte strings
            if word in ("r", "br", "b") and j < n and src[j] in "\"#'":
                raise Unsupported("raw/byte string or char literal", line)
            toks.append(Tok("ident", word, line))
            i = j
            continue
        if c.isdigit():
            j = i
            while j < n and (src[j].isalnum() or src[j] == "_"):
                j += 1
            if j < n and src[j] == "." and j + 1 < n and src[j + 1].isdigit():
                raise Unsupported("floating point literal", line)
            toks.append(Tok("int", src[i:j], line))
            i = j
            continue
        if c == '"':
            j = i + 1
            start = line
            while j < n and src[j] != '"':
                if src[j] == "\\":
                    j += 1
                if j < n and src[j] == "\n":
                    line += 1
                j += 1
            if j >= n:
                raise Unsupported("unterminated string literal", start)
            toks.append(Tok("str", src[i:j + 1], start))
            i = j + 1
            continue
        if c == "'":
            # char literal or lifetime
            if i + 2 < n and src[i + 1] != "\\" and src[i + 2] == "'":
                toks.append(Tok("char", src[i:i + 3], line))
                i += 3
                continue
            if i + 1 < n and src[i + 1] == "\\":
                j = src.find("'", i + 2)
                if j < 0:
                    raise Unsupported("unterminated char literal", line)
                toks.append(Tok("char", src[i:j + 1], line))
                i = j + 1
                continue
            j = i + 1
            while j < n and (src[j].isalnum() or src[j] == "_"):
                j += 1
            toks.append(Tok("lifetime", src[i:j], line))
            i = j
            continue
        for table in (PUNCT3, PUNCT2, PUNCT1):
            hit = None
            for p in table:
                if src.startswith(p, i):
                    hit = p
                    break
            if hit:
                break
        if not hit:
            raise Unsupported("character %r" % c, line)
        toks.append(Tok("punct", hit, line))
        i += len(hit)
    toks.append(Tok("eof", "", line))
    return toks


# --------------------------------------------------------------------------------------------
# AST
# --------------------------------------------------------------------------------------------

class Node:
    def __init__(self, kind, line, **kw):
        self.kind = kind
        self.line = line
        self.__dict__.update(kw)


RUST_KEYWORDS = {
    "as", "break", "const", "continue", "crate", "else", "enum", "extern", "false", "fn", "for",
    "if", "impl", "in", "let", "loop", "match", "mod", "move", "mut", "pub", "ref", "return",
    "self", "Self", "static", "struct", "super", "trait", "true", "type", "unsafe", "use", "where",
    "while", "async", "await", "dyn",
}

INT_TYPES = ("u64", "usize")
OTHER_INT_TYPES = ("u8", "u16", "u32", "u128", "i8", "i16", "i32", "i64", "i128", "isize")


# --------------------------------------------------------------------------------------------
# parser
# --------------------------------------------------------------------------------------------

class Parser:
    def __init__(self, toks):
        self.toks = toks
        self.pos = 0
        self.consts = []
        self.structs = []
        self.fns = []       # (struct name, fn node)
        self.skipped = []   # human-readable descriptions of skipped items

    # -- token helpers
    @property
    def tok(self):
        return self.toks[self.pos]

    def peek(self, k=1):
        return self.toks[min(self.pos + k, len(self.toks) - 1)]

    def advance(self):
        t = self.toks[self.pos]
        if t.kind != "eof":
            self.pos += 1
        return t

    def at(self, text):
        t = self.tok
        return t.kind in ("punct", "ident") and t.text == text

    def accept(self, text):
        if self.at(text):
            return self.advance()
        return None

    def expect(self, text):
        if not self.at(text):
            raise Unsupported("expected `%s`, found `%s`" % (text, self.tok.text or "end of file"), self.tok.line)
        return self.advance()

    def ident(self):
        t = self.tok
        if t.kind != "ident" or t.text in RUST_KEYWORDS:
            raise Unsupported("expected an identifier, found `%s`" % (t.text or "end of file"), t.line)
        return self.advance()

    # -- items
    def parse_file(self):
        while self.tok.kind != "eof":
            self.parse_item()

    def parse_attrs(self):
        """outer/inner attributes; returns list of flattened attribute texts"""
        attrs = []
        while self.at("#"):
            line = self.tok.line
            self.advance()
            self.accept("!")
            self.expect("[")
            depth, parts = 1, []
            while depth > 0:
                t = self.advance()
                if t.kind == "eof":
                    raise Unsupported("unterminated attribute", line)
                if t.text == "[":
                    depth += 1
                elif t.text == "]":
                    depth -= 1
                    if depth == 0:
                        break
                parts.append(t.text)
            attrs.append(("".join(parts), line))
        return attrs

    def skip_item(self):
        """skip one item: up to `;` at depth 0 or the end of the first balanced `{...}`"""
        depth = 0
        while True:
            t = self.advance()
            if t.kind == "eof":
                raise Unsupported("unterminated item", t.line)
            if t.text in ("{", "(", "[") and t.kind == "punct":
                depth += 1
            elif t.text in ("}", ")", "]") and t.kind == "punct":
                depth -= 1
                if depth == 0 and t.text == "}":
                    return t.line
            elif t.text == ";" and t.kind == "punct" and depth == 0:
                return t.line

    def parse_vis(self):
        if self.accept("pub"):
            if self.at("("):
                self.advance()
                while not self.at(")"):
                    if self.tok.kind == "eof":
                        raise Unsupported("unterminated visibility", self.tok.line)
                    self.advance()
                self.advance()

    def parse_item(self):
        attrs = self.parse_attrs()
        first = self.tok
        for text, line in attrs:
            if text.startswith("cfg"):
                if text == "cfg(test)":
                    end = self.skip_item()
                    self.skipped.append("#[cfg(test)] item, lines %d-%d" % (line, end))
                    return
                raise Unsupported("conditional compilation attribute `#[%s]`" % text, line)
        self.parse_vis()
        t = self.tok
        if self.at("const"):
            self.consts.append(self.parse_const())
        elif self.at("struct"):
            self.structs.append(self.parse_struct())
        elif self.at("impl"):
            self.parse_impl()
        else:
            raise Unsupported("item starting with `%s`" % (t.text or "end of file"), first.line)

    def parse_const(self):
        line = self.expect("const").line
        name = self.ident().text
        self.expect(":")
        ty = self.parse_type()
        self.expect("=")
        e = self.parse_expr()
        self.expect(";")
        return Node("const", line, name=name, ty=ty, expr=e)

    def parse_type(self):
        t = self.tok
        if self.accept("["):
            elem = self.parse_type()
            self.expect(";")
            n = self.parse_expr()
            self.expect("]")
            return Node("tarray", t.line, elem=elem, len=n)
        if self.at("("):
            self.advance()
            self.expect(")")
            return Node("tunit", t.line)
        if self.at("&") or self.at("*") or self.at("dyn") or self.at("impl"):
            raise Unsupported("reference/pointer/trait-object type", t.line)
        name = self.tok
        if name.kind != "ident" or (name.text in RUST_KEYWORDS and name.text != "Self"):
            raise Unsupported("type starting with `%s`" % name.text, name.line)
        self.advance()
        if self.at("::") or self.at("<"):
            raise Unsupported("path or generic type `%s%s...`" % (name.text, self.tok.text), name.line)
        return Node("tname", t.line, name=name.text)

    def parse_struct(self):
        line = self.expect("struct").line
        name = self.ident().text
        if self.at("<"):
            raise Unsupported("generic struct", line)
        if not self.at("{"):
            raise Unsupported("tuple/unit struct", line)
        self.advance()
        fields = []
        while not self.at("}"):
            self.parse_attrs()
            self.parse_vis()
            fl = self.tok.line
            fname = self.ident().text
            self.expect(":")
            fty = self.parse_type()
            fields.append(Node("field", fl, name=fname, ty=fty))
            if not self.accept(","):
                break
        self.expect("}")
        return Node("struct", line, name=name, fields=fields)

    def parse_impl(self):
        line = self.expect("impl").line
        if self.at("<"):
            raise Unsupported("generic impl", line)
        first = self.tok
        if first.kind != "ident":
            raise Unsupported("impl target `%s`" % first.text, line)
        # look ahead for `for` before the opening brace: trait impl
        k = self.pos
        is_trait = False
        while self.toks[k].kind != "eof" and self.toks[k].text != "{":
            if self.toks[k].kind == "ident" and self.toks[k].text == "for":
                is_trait = True
            k += 1
        if is_trait:
            header = []
            while not self.at("{"):
                header.append(self.advance().text)
            end = self.skip_item()
            self.skipped.append("trait impl `impl %s`, lines %d-%d" % (" ".join(header), line, end))
            return
        target = self.ident().text
        if not self.at("{"):
            raise Unsupported("impl header after `%s`" % target, line)
        self.advance()
        while not self.at("}"):
            attrs = self.parse_attrs()
            for text, aline in attrs:
                if text.startswith("cfg"):
                    raise Unsupported("conditional compilation attribute `#[%s]`" % text, aline)
            self.parse_vis()
            if self.at("const") and self.peek().text == "fn":
                raise Unsupported("const fn", self.tok.line)
            if not self.at("fn"):
                raise Unsupported("impl item starting with `%s`" % self.tok.text, self.tok.line)
            self.fns.append((target, self.parse_fn()))
        self.expect("}")

    def parse_fn(self):
        line = self.expect("fn").line
        name = self.ident().text
        if self.at("<"):
            raise Unsupported("generic fn", line)
        self.expect("(")
        selfkind = None
        params = []
        first = True
        while not self.at(")"):
            if first and (self.at("&") or self.at("self") or self.at("mut")):
                if self.accept("&"):
                    if self.tok.kind == "lifetime":
                        raise Unsupported("lifetime annotation", self.tok.line)
                    if self.accept("mut"):
                        selfkind = "refmut"
                    else:
                        selfkind = "ref"
                    self.expect("self")
                else:
                    raise Unsupported("by-value `self` receiver", self.tok.line)
            else:
                if self.at("mut"):
                    raise Unsupported("`mut` parameter binding", self.tok.line)
                pl = self.tok.line
                pname = self.ident().text
                self.expect(":")
                pty = self.parse_type()
                params.append(Node("param", pl, name=pname, ty=pty))
            first = False
            if not self.accept(","):
                break
        self.expect(")")
        ret = Node("tunit", line)
        if self.accept("->"):
            ret = self.parse_type()
        if self.at("where"):
            raise Unsupported("where clause", self.tok.line)
        body = self.parse_block()
        return Node("fn", line, name=name, selfkind=selfkind, params=params, ret=ret, body=body)

    # -- statements
    def parse_block(self):
        """returns Node('block', stmts=[...], tail=expr or None)"""
        line = self.expect("{").line
        stmts = []
        tail = None
        while not self.at("}"):
            if self.tok.kind == "eof":
                raise Unsupported("unterminated block", line)
            if tail is not None:
                raise Unsupported("expression statement without `;`", tail.line)
            if self.at("#"):
                raise Unsupported("attribute on a statement", self.tok.line)
            t = self.tok
            if self.at(";"):
                self.advance()
                continue
            if self.at("let"):
                stmts.append(self.parse_let())
            elif self.at("if"):
                stmts.append(self.parse_if())
            elif self.at("for"):
                stmts.append(self.parse_for())
            elif self.at("return"):
                self.advance()
                e = None
                if not self.at(";"):
                    e = self.parse_expr()
                self.expect(";")
                stmts.append(Node("return", t.line, expr=e))
            elif t.kind == "ident" and t.text in ("while", "loop", "match", "break", "continue", "unsafe",
                                                   "fn", "struct", "const", "use", "static", "impl", "mod",
                                                   "enum", "trait", "type", "async", "move"):
                raise Unsupported("`%s`" % t.text, t.line)
            else:
                e = self.parse_expr()
                if self.at("="):
                    self.advance()
                    rhs = self.parse_expr()
                    self.expect(";")
                    stmts.append(Node("assign", t.line, target=e, op=None, expr=rhs))
                elif self.tok.kind == "punct" and self.tok.text in ("+=", "-=", "*=", "&=", "|=", "<<=", ">>=",
                                                                     "/=", "%=", "^="):
                    op = self.advance().text[:-1]
                    rhs = self.parse_expr()
                    self.expect(";")
                    stmts.append(Node("assign", t.line, target=e, op=op, expr=rhs))
                elif self.at(";"):
                    raise Unsupported("expression statement", t.line)
                elif self.at("}"):
                    tail = e
                else:
                    raise Unsupported("token `%s` after expression" % self.tok.text, self.tok.line)
        self.expect("}")
        return Node("block", line, stmts=stmts, tail=tail)

    def parse_let(self):
        line = self.expect("let").line
        mut = bool(self.accept("mut"))
        if not (self.tok.kind == "ident" and self.tok.text not in RUST_KEYWORDS):
            raise Unsupported("pattern in `let`", line)
        name = self.advance().text
        ty = None
        if self.accept(":"):
            ty = self.parse_type()
        if not self.at("="):
            raise Unsupported("`let` without initializer (or with a pattern)", line)
        self.advance()
        e = self.parse_expr()
        if self.at("else"):
            raise Unsupported("let-else", line)
        self.expect(";")
        return Node("let", line, name=name, mut=mut, ty=ty, expr=e)

    def parse_if(self):
        line = self.expect("if").line
        if self.at("let"):
            raise Unsupported("if-let", line)
        cond = self.parse_expr(no_struct=True)
        then = self.parse_block()
        els = None
        if self.accept("else"):
            if self.at("if"):
                inner = self.parse_if()
                els = Node("block", inner.line, stmts=[inner], tail=None)
            else:
                els = self.parse_block()
        return Node("if", line, cond=cond, then=then, els=els)

    def parse_for(self):
        line = self.expect("for").line
        if not (self.tok.kind == "ident" and self.tok.text not in RUST_KEYWORDS):
            raise Unsupported("pattern in `for`", line)
        var = self.advance().text
        self.expect("in")
        lo = self.parse_expr(no_struct=True)
        if self.accept("..="):
            incl = True
        elif self.accept(".."):
            incl = False
        else:
            raise Unsupported("`for` over something that is not a range `a..b` / `a..=b`", line)
        hi = self.parse_expr(no_struct=True)
        body = self.parse_block()
        return Node("for", line, var=var, lo=lo, hi=hi, incl=incl, body=body)

    # -- expressions (Rust precedence, lowest first)
    LEVELS = [
        (["||"], "left"),
        (["&&"], "left"),
        (["==", "!=", "<", ">", "<=", ">="], "none"),
        (["|"], "left"),
        (["^"], "left"),
        (["&"], "left"),
        (["<<", ">>"], "left"),
        (["+", "-"], "left"),
        (["*", "/", "%"], "left"),
    ]

    def parse_expr(self, no_struct=False):
        return self.parse_level(0, no_struct)

    def parse_level(self, lvl, ns):
        if lvl == len(self.LEVELS):
            return self.parse_cast(ns)
        ops, assoc = self.LEVELS[lvl]
        left = self.parse_level(lvl + 1, ns)
        while self.tok.kind == "punct" and self.tok.text in ops:
            op = self.advance()
            right = self.parse_level(lvl + 1, ns)
            left = Node("bin", op.line, op=op.text, l=left, r=right)
            if assoc == "none":
                if self.tok.kind == "punct" and self.tok.text in ops:
                    raise Unsupported("chained comparison", self.tok.line)
                break
        return left

    def parse_cast(self, ns):
        e = self.parse_unary(ns)
        while self.at("as"):
            line = self.advance().line
            ty = self.parse_type()
            e = Node("cast", line, expr=e, ty=ty)
        return e

    def parse_unary(self, ns):
        t = self.tok
        if t.kind == "punct" and t.text in ("-", "!", "*", "&", "&&"):
            raise Unsupported("unary operator `%s`" % t.text, t.line)
        return self.parse_postfix(ns)

    def parse_postfix(self, ns):
        e = self.parse_primary(ns)
        while True:
            if self.at("."):
                line = self.advance().line
                if self.tok.kind == "int":
                    raise Unsupported("tuple field access", line)
                f = self.ident().text
                if self.at("(") or self.at("::"):
                    raise Unsupported("method call `.%s(...)`" % f, line)
                e = Node("field", line, base=e, name=f)
            elif self.at("["):
                line = self.advance().line
                idx = self.parse_expr()
                self.expect("]")
                e = Node("index", line, base=e, idx=idx)
            elif self.at("("):
                raise Unsupported("function call", self.tok.line)
            elif self.at("?"):
                raise Unsupported("`?` operator", self.tok.line)
            else:
                return e

    def parse_primary(self, ns):
        t = self.tok
        if t.kind == "int":
            self.advance()
            return Node("lit", t.line, **parse_int(t))
        if t.kind in ("str", "char", "lifetime"):
            raise Unsupported("%s literal" % t.kind, t.line)
        if self.at("("):
            self.advance()
            if self.at(")"):
                raise Unsupported("unit value `()`", t.line)
            e = self.parse_expr()
            if self.at(","):
                raise Unsupported("tuple expression", t.line)
            self.expect(")")
            return Node("paren", t.line, expr=e)
        if self.at("["):
            self.advance()
            elem = self.parse_expr()
            if not self.at(";"):
                raise Unsupported("array list literal (only `[value; len]` is supported)", t.line)
            self.advance()
            n = self.parse_expr()
            self.expect("]")
            return Node("repeat", t.line, elem=elem, len=n)
        if t.kind == "ident":
            if t.text in ("true", "false"):
                self.advance()
                return Node("bool", t.line, value=(t.text == "true"))
            if t.text == "self":
                self.advance()
                return Node("self", t.line)
            if t.text in RUST_KEYWORDS:
                raise Unsupported("`%s` in expression position" % t.text, t.line)
            self.advance()
            if self.at("::"):
                raise Unsupported("path expression `%s::...`" % t.text, t.line)
            if self.at("!"):
                raise Unsupported("macro invocation `%s!`" % t.text, t.line)
            if self.at("{") and not ns:
                self.advance()
                fields = []
                while not self.at("}"):
                    fl = self.tok.line
                    fname = self.ident().text
                    if not self.at(":"):
                        raise Unsupported("struct literal shorthand / update syntax", fl)
                    self.advance()
                    fe = self.parse_expr()
                    fields.append((fname, fe, fl))
                    if not self.accept(","):
                        break
                if self.at(".."):
                    raise Unsupported("struct update syntax", self.tok.line)
                self.expect("}")
                return Node("structlit", t.line, name=t.text, fields=fields)
            return Node("var", t.line, name=t.text)
        raise Unsupported("token `%s` in expression position" % (t.text or "end of file"), t.line)


def parse_int(t):
    text = t.text.replace("_", "")
    suffix = None
    for s in INT_TYPES + OTHER_INT_TYPES:
        if text.endswith(s) and not text.lower().startswith("0x"):
            suffix = s
            text = text[:-len(s)]
            break
        if text.endswith(s) and text.lower().startswith("0x") and s[0] in "ui":
            suffix = s
            text = text[:-len(s)]
            break
    try:
        if text.lower().startswith("0x"):
            v = int(text[2:], 16)
        elif text.lower().startswith("0o"):
            v = int(text[2:], 8)
        elif text.lower().startswith("0b"):
            v = int(text[2:], 2)
        else:
            v = int(text, 10)
    except ValueError:
        raise Unsupported("integer literal `%s`" % t.text, t.line)
    if suffix in OTHER_INT_TYPES:
        raise Unsupported("integer type `%s`" % suffix, t.line)
    return {"value": v, "suffix": suffix}


# --------------------------------------------------------------------------------------------
# pretty printer of the parsed Rust (only for the comments in the generated file)
# --------------------------------------------------------------------------------------------

def show_type(t):
    if t.kind == "tname":
        return t.name
    if t.kind == "tunit":
        return "()"
    return "[%s; %s]" % (show_type(t.elem), show_expr(t.len))


def show_expr(e):
    k = e.kind
    if k == "lit":
        return "%d%s" % (e.value, e.suffix or "")
    if k == "bool":
        return "true" if e.value else "false"
    if k == "var":
        return e.name
    if k == "self":
        return "self"
    if k == "paren":
        return "(%s)" % show_expr(e.expr)
    if k == "bin":
        return "%s %s %s" % (show_expr(e.l), e.op, show_expr(e.r))
    if k == "cast":
        return "%s as %s" % (show_expr(e.expr), show_type(e.ty))
    if k == "field":
        return "%s.%s" % (show_expr(e.base), e.name)
    if k == "index":
        return "%s[%s]" % (show_expr(e.base), show_expr(e.idx))
    if k == "repeat":
        return "[%s; %s]" % (show_expr(e.elem), show_expr(e.len))
    if k == "structlit":
        return "%s { %s }" % (e.name, ", ".join("%s: %s" % (f, show_expr(x)) for f, x, _ in e.fields))
    return "?"


# --------------------------------------------------------------------------------------------
# type checker + emitter
# --------------------------------------------------------------------------------------------

LEAN_KEYWORDS = {
    "abbrev", "at", "attribute", "axiom", "by", "calc", "class", "def", "deriving", "do", "else", "end",
    "example", "export", "extends", "finally", "for", "from", "fun", "have", "if", "import", "in",
    "inductive", "infix", "infixl", "infixr", "instance", "let", "local", "macro", "match", "mutual",
    "namespace", "nofun", "nomatch", "noncomputable", "notation", "open", "opaque", "partial", "postfix",
    "prefix", "private", "protected", "public", "section", "set_option", "show", "structure", "suffices", "syntax",
    "then", "theorem", "this", "unsafe", "universe", "using", "variable", "where", "with", "fun", "forall",
    "exists", "Type", "Prop", "Sort", "return", "mut", "unless", "try", "catch", "throw", "termination_by",
    "decreasing_by", "macro_rules", "elab", "elab_rules", "initialize", "builtin_initialize", "instance",
    "scoped", "omit", "include", "meta", "module",
}

RESERVED_TOP = {"Flow", "Res", "U64", "Usize", "WF"}

# type representations: 'u64' | 'usize' | 'bool' | 'unit' | ('array', elem, len:int) | ('struct', name)


def lean_type(t):
    if t == "u64":
        return "UInt64"
    if t == "usize":
        return "Usize"
    if t == "bool":
        return "Bool"
    if t == "unit":
        return "Unit"
    if isinstance(t, tuple) and t[0] == "array":
        return "Array %s" % lean_type(t[1])
    if isinstance(t, tuple) and t[0] == "struct":
        return t[1]
    raise AssertionError(t)


def lean_name(n):
    if n in LEAN_KEYWORDS:
        return "«%s»" % n
    return n


class Var:
    def __init__(self, name, ty, mut, order):
        self.name, self.ty, self.mut, self.order = name, ty, mut, order


class Gen:
    def __init__(self, parser, all_idents):
        self.p = parser
        self.idents = set(all_idents)
        self.const_ty = {}
        self.const_val = {}
        self.structs = {}
        self.out = []
        self.fresh_n = 0
        self.ov = self.fresh_fixed("ov")

    # -- names
    def fresh_fixed(self, base):
        n = base
        while n in self.idents or n in LEAN_KEYWORDS:
            n += "_"
        self.idents.add(n)
        return n

    def fresh(self):
        while True:
            self.fresh_n += 1
            n = "v%d" % self.fresh_n
            if n not in self.idents:
                return n

    # -- types
    def resolve_type(self, t, selfname=None):
        if t.kind == "tunit":
            return "unit"
        if t.kind == "tname":
            if t.name in INT_TYPES or t.name == "bool":
                return t.name
            if t.name in OTHER_INT_TYPES:
                raise Unsupported("integer type `%s`" % t.name, t.line)
            if t.name == "Self" and selfname:
                return ("struct", selfname)
            if t.name in self.structs:
                return ("struct", t.name)
            raise Unsupported("type `%s`" % t.name, t.line)
        if t.kind == "tarray":
            elem = self.resolve_type(t.elem, selfname)
            if elem != "u64" and elem != "usize":
                raise Unsupported("array of `%s`" % show_type(t.elem), t.line)
            n = self.const_eval(t.len, "usize")
            return ("array", elem, n)
        raise Unsupported("type", t.line)

    # -- constant evaluation (exact integers, rustc's const-eval overflow rules)
    def const_eval(self, e, expected):
        ty, v = self.ceval(e, expected)
        if ty != expected:
            raise Unsupported("constant expression of type `%s` where `%s` is expected (rustc would reject)" % (ty, expected), e.line)
        return v

    def ceval(self, e, expected):
        k = e.kind
        if k == "paren":
            return self.ceval(e.expr, expected)
        if k == "lit":
            ty = e.suffix or expected
            if ty == "shift":
                ty = "shift"
            elif ty not in INT_TYPES:
                raise Unsupported("cannot determine the type of literal `%d`" % e.value, e.line)
            if e.value > U64_MAX:
                raise Unsupported("literal out of range", e.line)
            return ty, e.value
        if k == "var":
            if e.name not in self.const_val:
                raise Unsupported("`%s` in a constant expression (not a previously defined constant)" % e.name, e.line)
            return self.const_ty[e.name], self.const_val[e.name]
        if k == "cast":
            target = self.resolve_type(e.ty)
            if target not in INT_TYPES:
                raise Unsupported("cast to `%s`" % show_type(e.ty), e.line)
            if self.is_bare_literal(e.expr):
                raise Unsupported("cast of an unsuffixed literal", e.line)
            sty, v = self.ceval(e.expr, None)
            if sty not in INT_TYPES:
                raise Unsupported("cast from `%s`" % sty, e.line)
            return target, v
        if k == "bin":
            op = e.op
            if op in ("<<", ">>"):
                lt, lv = self.ceval(e.l, expected)
                rt, rv = self.ceval(e.r, "shift")
                if rv >= 64:
                    raise Unsupported("constant shift amount >= 64 (rustc would reject)", e.line)
                v = (lv << rv) & U64_MAX if op == "<<" else lv >> rv
                return lt, v
            if op in ("+", "-", "*", "&", "|"):
                lt = self.try_ctype(e.l)
                rt = self.try_ctype(e.r)
                ty = lt or rt or expected
                if ty not in INT_TYPES:
                    raise Unsupported("cannot determine the operand type of `%s`" % op, e.line)
                _, lv = self.ceval(e.l, ty)
                _, rv = self.ceval(e.r, ty)
                if (lt and lt != ty) or (rt and rt != ty):
                    raise Unsupported("mismatched operand types for `%s` (rustc would reject)" % op, e.line)
                v = {"+": lv + rv, "-": lv - rv, "*": lv * rv, "&": lv & rv, "|": lv | rv}[op]
                if v < 0 or v > U64_MAX:
                    raise Unsupported("constant expression overflows (rustc would reject)", e.line)
                return ty, v
            raise Unsupported("operator `%s` in a constant expression" % op, e.line)
        raise Unsupported("`%s` in a constant expression" % show_expr(e), e.line)

    def is_bare_literal(self, e):
        while e.kind == "paren":
            e = e.expr
        return e.kind == "lit" and e.suffix is None

    def try_ctype(self, e):
        """type of a constant expression if it is determined without context, else None"""
        k = e.kind
        if k == "paren":
            return self.try_ctype(e.expr)
        if k == "lit":
            return e.suffix
        if k == "var":
            return self.const_ty.get(e.name)
        if k == "cast":
            return self.resolve_type(e.ty)
        if k == "bin":
            if e.op in ("<<", ">>"):
                return self.try_ctype(e.l)
            return self.try_ctype(e.l) or self.try_ctype(e.r)
        return None

    # ------------------------------------------------------------------------------------
    # expressions inside functions
    # ------------------------------------------------------------------------------------
    def lookup(self, name, line):
        for scope in reversed(self.scopes):
            if name in scope:
                return scope[name]
        if name in self.const_ty:
            return Var(name, self.const_ty[name], False, -1)
        raise Unsupported("unknown name `%s`" % name, line)

    def try_type(self, e):
        """type of an expression if it is determined without context (literals are not), else None"""
        k = e.kind
        if k == "paren":
            return self.try_type(e.expr)
        if k == "lit":
            return e.suffix
        if k == "bool":
            return "bool"
        if k == "var":
            return self.lookup(e.name, e.line).ty
        if k == "cast":
            return self.resolve_type(e.ty)
        if k == "bin":
            if e.op in ("==", "!=", "<", ">", "<=", ">="):
                return "bool"
            if e.op in ("<<", ">>"):
                return self.try_type(e.l)
            return self.try_type(e.l) or self.try_type(e.r)
        if k == "field":
            return self.field_type(e)
        if k == "index":
            bt = self.try_type(e.base)
            if isinstance(bt, tuple) and bt[0] == "array":
                return bt[1]
            return None
        if k == "self":
            return ("struct", self.selfname) if self.selfname else None
        if k == "structlit":
            return ("struct", e.name)
        return None

    def field_type(self, e):
        if e.base.kind != "self":
            raise Unsupported("field access on something other than `self`", e.line)
        if not self.selfkind:
            raise Unsupported("`self` outside a method", e.line)
        for f in self.structs[self.selfname].fields:
            if f.name == e.name:
                return f.rty
        raise Unsupported("unknown field `%s`" % e.name, e.line)

    def lit(self, v, ty):
        return "(%d : %s)" % (v, lean_type(ty))

    def ex(self, e, expected, pre):
        """type-check `e` against `expected` (None = must be self-determined) and return
        (type, lean term).  Panic conditions and array reads are appended to `pre`
        (lean lines of the form `Flow.bind (...) fun pat =>`), in evaluation order."""
        k = e.kind
        if k == "paren":
            return self.ex(e.expr, expected, pre)
        if k == "lit":
            ty = e.suffix or expected
            if ty not in INT_TYPES:
                raise Unsupported("cannot determine the type of literal `%d`" % e.value, e.line)
            if e.value > U64_MAX:
                raise Unsupported("literal out of range", e.line)
            return ty, self.lit(e.value, ty)
        if k == "bool":
            return "bool", ("true" if e.value else "false")
        if k == "var":
            v = self.lookup(e.name, e.line)
            return v.ty, lean_name(e.name)
        if k == "self":
            raise Unsupported("`self` used as a value", e.line)
        if k == "field":
            return self.field_type(e), "self.%s" % lean_name(e.name)
        if k == "cast":
            target = self.resolve_type(e.ty)
            if target not in INT_TYPES:
                raise Unsupported("cast to `%s`" % show_type(e.ty), e.line)
            if self.is_bare_literal(e.expr):
                raise Unsupported("cast of an unsuffixed literal", e.line)
            sty, s = self.ex(e.expr, None, pre)
            if sty not in INT_TYPES:
                raise Unsupported("cast from `%s`" % str(sty), e.line)
            if sty == target:
                return target, s
            fn = "U64.as_usize" if target == "usize" else "Usize.as_u64"
            return target, "(%s %s)" % (fn, s)
        if k == "index":
            bty, b = self.ex(e.base, None, pre)
            if not (isinstance(bty, tuple) and bty[0] == "array"):
                raise Unsupported("indexing into a non-array", e.line)
            ity, i = self.ex(e.idx, "usize", pre)
            if ity != "usize":
                raise Unsupported("array index of type `%s` (rustc would reject)" % str(ity), e.line)
            v = self.fresh()
            pre.append("Flow.bind (Flow.index %s %s) fun %s =>" % (b, i, v))
            return bty[1], v
        if k == "repeat":
            ety, el = self.ex(e.elem, (expected[1] if isinstance(expected, tuple) and expected[0] == "array" else None), pre)
            if ety not in INT_TYPES:
                raise Unsupported("array of `%s`" % str(ety), e.line)
            n = self.const_eval(e.len, "usize")
            saved = self.const_mode
            self.const_mode = True
            try:
                _, nl = self.ex(e.len, "usize", [])
            finally:
                self.const_mode = saved
            return ("array", ety, n), "(Array.replicate (%s).toNat %s)" % (nl, el)
        if k == "structlit":
            if e.name not in self.structs:
                raise Unsupported("unknown struct `%s`" % e.name, e.line)
            st = self.structs[e.name]
            given = {}
            parts = []
            for fname, fe, fl in e.fields:
                if fname in given:
                    raise Unsupported("field `%s` given twice (rustc would reject)" % fname, fl)
                ft = None
                for f in st.fields:
                    if f.name == fname:
                        ft = f.rty
                if ft is None:
                    raise Unsupported("unknown field `%s`" % fname, fl)
                ty, s = self.ex(fe, ft, pre)
                if ty != ft:
                    raise Unsupported("field `%s` has type `%s`, value has type `%s` (rustc would reject)" % (fname, str(ft), str(ty)), fl)
                given[fname] = s
                parts.append("%s := %s" % (lean_name(fname), s))
            if len(given) != len(st.fields):
                raise Unsupported("missing fields in struct literal (rustc would reject)", e.line)
            return ("struct", e.name), "({ %s } : %s)" % (", ".join(parts), e.name)
        if k == "bin":
            return self.ex_bin(e, expected, pre)
        raise Unsupported("expression `%s`" % show_expr(e), e.line)

    def arith(self, pre, cond, line):
        if self.const_mode:
            return  # constant contexts are checked by exact evaluation in the translator
        pre.append("Flow.bind (Flow.arith %s (%s)) fun () =>" % (self.ov, cond))

    def ex_bin(self, e, expected, pre):
        op = e.op
        if op in ("&&", "||"):
            raise Unsupported("lazy boolean operator `%s`" % op, e.line)
        if op in ("/", "%", "^"):
            raise Unsupported("operator `%s`" % op, e.line)
        if op in ("<<", ">>"):
            lt0 = self.try_type(e.l) or expected
            if lt0 not in INT_TYPES:
                raise Unsupported("cannot determine the type of the left operand of `%s`" % op, e.line)
            lt, l = self.ex(e.l, lt0, pre)
            if lt not in INT_TYPES:
                raise Unsupported("shift of a `%s`" % str(lt), e.line)
            if self.is_bare_literal(e.r):
                # an unsuffixed literal shift amount is an i32 in Rust; only its value matters
                lit = e.r
                while lit.kind == "paren":
                    lit = lit.expr
                if lit.value >= (1 << 31):
                    raise Unsupported("shift amount literal out of range for i32", e.line)
                r = self.lit(lit.value, "u64")
            else:
                rt, r = self.ex(e.r, None, pre)
                if rt not in INT_TYPES:
                    raise Unsupported("shift amount of type `%s`" % str(rt), e.line)
            self.arith(pre, "U64.shiftOk %s" % r, e.line)
            return lt, "(%s %s %s)" % (l, "<<<" if op == "<<" else ">>>", r)
        if op in ("+", "-", "*", "&", "|"):
            ty = self.try_type(e.l) or self.try_type(e.r) or expected
            if ty not in INT_TYPES:
                raise Unsupported("cannot determine the operand type of `%s`" % op, e.line)
            lt, l = self.ex(e.l, ty, pre)
            rt, r = self.ex(e.r, ty, pre)
            if lt != ty or rt != ty:
                raise Unsupported("mismatched operand types for `%s` (rustc would reject)" % op, e.line)
            if op == "+":
                self.arith(pre, "U64.addOk %s %s" % (l, r), e.line)
                return ty, "(%s + %s)" % (l, r)
            if op == "-":
                self.arith(pre, "U64.subOk %s %s" % (l, r), e.line)
                return ty, "(%s - %s)" % (l, r)
            if op == "*":
                self.arith(pre, "U64.mulOk %s %s" % (l, r), e.line)
                return ty, "(%s * %s)" % (l, r)
            if op == "&":
                return ty, "(%s &&& %s)" % (l, r)
            return ty, "(%s ||| %s)" % (l, r)
        if op in ("==", "!=", "<", ">", "<=", ">="):
            ty = self.try_type(e.l) or self.try_type(e.r)
            if ty is None:
                raise Unsupported("cannot determine the operand type of `%s`" % op, e.line)
            if ty not in INT_TYPES and not (ty == "bool" and op in ("==", "!=")):
                raise Unsupported("comparison of `%s` values" % str(ty), e.line)
            lt, l = self.ex(e.l, ty, pre)
            rt, r = self.ex(e.r, ty, pre)
            if lt != ty or rt != ty:
                raise Unsupported("mismatched operand types for `%s` (rustc would reject)" % op, e.line)
            if op == "==":
                return "bool", "(%s == %s)" % (l, r)
            if op == "!=":
                return "bool", "(%s != %s)" % (l, r)
            sym = {"<": "<", ">": ">", "<=": "≤", ">=": "≥"}[op]
            return "bool", "(decide (%s %s %s))" % (l, sym, r)
        raise Unsupported("operator `%s`" % op, e.line)

    # ------------------------------------------------------------------------------------
    # statements
    # ------------------------------------------------------------------------------------
    def assigned_declared(self, block):
        """(names assigned, names declared) anywhere inside `block`; `self` stands for any field"""
        asg, dec = [], set()

        def root(t):
            while t.kind in ("index", "field", "paren"):
                t = t.base if t.kind != "paren" else t.expr
            if t.kind == "self":
                return "self"
            if t.kind == "var":
                return t.name
            raise Unsupported("assignment target `%s`" % show_expr(t), t.line)

        def walk(b):
            for s in b.stmts:
                if s.kind == "let":
                    dec.add(s.name)
                elif s.kind == "assign":
                    r = root(s.target)
                    if r not in asg:
                        asg.append(r)
                elif s.kind == "if":
                    walk(s.then)
                    if s.els:
                        walk(s.els)
                elif s.kind == "for":
                    dec.add(s.var)
                    walk(s.body)
        walk(block)
        return asg, dec

    def outer_mutated(self, blocks):
        names = []
        for b in blocks:
            asg, dec = self.assigned_declared(b)
            for a in asg:
                if a not in dec and a not in names:
                    names.append(a)

        def key(n):
            if n == "self":
                return -2
            return self.lookup(n, blocks[0].line).order
        names.sort(key=key)
        return names

    def pat(self, names):
        ns = [lean_name(n) for n in names]
        if len(ns) == 0:
            return "()"
        if len(ns) == 1:
            return ns[0]
        return "(%s)" % ", ".join(ns)

    def declare(self, name, ty, mut, line):
        for scope in self.scopes:
            if name in scope:
                raise Unsupported("shadowing of `%s`" % name, line)
        if name in self.const_ty:
            raise Unsupported("shadowing of constant `%s`" % name, line)
        self.order += 1
        self.scopes[-1][name] = Var(name, ty, mut, self.order)

    def ret_term(self, val):
        if self.selfkind == "refmut":
            return "(self, %s)" % val
        return val

    def emit(self, ind, text):
        self.lines.append("  " * ind + text)

    def emit_pre(self, ind, pre):
        for p in pre:
            self.emit(ind, p)

    def block(self, blk, ind, cont, fn_body=False):
        """emit the statements of `blk`; `cont` is the lean term ending a block that falls through
        (None for a function body, which must end in a `return`/trailing expression)"""
        stmts = blk.stmts
        done = False
        for idx, s in enumerate(stmts):
            if done:
                raise Unsupported("statement after `return`", s.line)
            k = s.kind
            if k == "let":
                self.emit(ind, "-- L%d: let %s%s = %s;" % (s.line, "mut " if s.mut else "", s.name, show_expr(s.expr)))
                pre = []
                want = self.resolve_type(s.ty, self.selfname) if s.ty else None
                ty, t = self.ex(s.expr, want or self.try_type(s.expr), pre)
                if want and want != ty:
                    raise Unsupported("`let %s` type annotation mismatch (rustc would reject)" % s.name, s.line)
                if ty == "unit" or isinstance(ty, tuple) and ty[0] == "struct":
                    raise Unsupported("`let` of a `%s` value" % str(ty), s.line)
                self.emit_pre(ind, pre)
                self.declare(s.name, ty, s.mut, s.line)
                self.emit(ind, "let %s : %s := %s" % (lean_name(s.name), lean_type(ty), t))
            elif k == "assign":
                self.stmt_assign(s, ind)
            elif k == "if":
                self.stmt_if(s, ind)
            elif k == "for":
                self.stmt_for(s, ind)
            elif k == "return":
                self.emit(ind, "-- L%d: return%s;" % (s.line, (" " + show_expr(s.expr)) if s.expr else ""))
                self.emit_return(s.expr, s.line, ind)
                done = True
            else:
                raise Unsupported("statement", s.line)
        if blk.tail is not None:
            if done:
                raise Unsupported("expression after `return`", blk.tail.line)
            if not fn_body:
                raise Unsupported("block with a value (trailing expression) used as a statement", blk.tail.line)
            self.emit(ind, "-- L%d: %s   (value of the function body)" % (blk.tail.line, show_expr(blk.tail)))
            self.emit_return(blk.tail, blk.tail.line, ind)
            done = True
        if not done:
            if fn_body:
                if self.ret_ty != "unit":
                    raise Unsupported("function body without a final value", blk.line)
                self.emit(ind, "-- end of body: return ()")
                self.emit(ind, "Flow.ret %s" % self.ret_term("()"))
            else:
                self.emit(ind, cont)

    def emit_return(self, expr, line, ind):
        if expr is None:
            if self.ret_ty != "unit":
                raise Unsupported("`return;` in a function returning a value (rustc would reject)", line)
            self.emit(ind, "Flow.ret %s" % self.ret_term("()"))
            return
        pre = []
        ty, t = self.ex(expr, self.ret_ty, pre)
        if ty != self.ret_ty:
            raise Unsupported("returned value has type `%s`, function returns `%s` (rustc would reject)" % (str(ty), str(self.ret_ty)), line)
        self.emit_pre(ind, pre)
        self.emit(ind, "Flow.ret %s" % self.ret_term(t))

    def stmt_assign(self, s, ind):
        tgt = s.target
        while tgt.kind == "paren":
            tgt = tgt.expr
        self.emit(ind, "-- L%d: %s %s= %s;" % (s.line, show_expr(tgt), s.op or "", show_expr(s.expr)))
        value_expr = s.expr
        if s.op is not None:
            if s.op in ("/", "%", "^"):
                raise Unsupported("operator `%s=`" % s.op, s.line)
            value_expr = Node("bin", s.line, op=s.op, l=tgt, r=Node("paren", s.line, expr=s.expr))
        pre = []
        if tgt.kind == "var":
            v = self.lookup(tgt.name, tgt.line)
            if v.order < 0:
                raise Unsupported("assignment to constant `%s` (rustc would reject)" % tgt.name, s.line)
            if not v.mut:
                raise Unsupported("assignment to immutable `%s` (rustc would reject)" % tgt.name, s.line)
            ty, t = self.ex(value_expr, v.ty, pre)
            if ty != v.ty:
                raise Unsupported("assignment of `%s` to `%s: %s` (rustc would reject)" % (str(ty), tgt.name, str(v.ty)), s.line)
            self.emit_pre(ind, pre)
            self.emit(ind, "let %s : %s := %s" % (lean_name(tgt.name), lean_type(ty), t))
            return
        if tgt.kind == "field":
            fty = self.field_type(tgt)
            if self.selfkind != "refmut":
                raise Unsupported("assignment through `&self` (rustc would reject)", s.line)
            ty, t = self.ex(value_expr, fty, pre)
            if ty != fty:
                raise Unsupported("assignment of `%s` to field `%s` (rustc would reject)" % (str(ty), tgt.name), s.line)
            self.emit_pre(ind, pre)
            self.emit(ind, "let self : %s := { self with %s := %s }" % (self.selfname, lean_name(tgt.name), t))
            return
        if tgt.kind == "index":
            base = tgt.base
            while base.kind == "paren":
                base = base.expr
            # Rust evaluates the right-hand side first, then the index, then the bounds check
            bty = self.try_type(base)
            if not (isinstance(bty, tuple) and bty[0] == "array"):
                raise Unsupported("indexed assignment into a non-array", s.line)
            ty, t = self.ex(value_expr, bty[1], pre)
            if ty != bty[1]:
                raise Unsupported("assignment of `%s` to an element of type `%s` (rustc would reject)" % (str(ty), str(bty[1])), s.line)
            _, b = self.ex(base, None, pre)
            ity, i = self.ex(tgt.idx, "usize", pre)
            if ity != "usize":
                raise Unsupported("array index of type `%s` (rustc would reject)" % str(ity), s.line)
            v = self.fresh()
            pre.append("Flow.bind (Flow.store %s %s %s) fun %s =>" % (b, i, t, v))
            self.emit_pre(ind, pre)
            if base.kind == "field":
                if self.selfkind != "refmut":
                    raise Unsupported("assignment through `&self` (rustc would reject)", s.line)
                self.emit(ind, "let self : %s := { self with %s := %s }" % (self.selfname, lean_name(base.name), v))
            elif base.kind == "var":
                bv = self.lookup(base.name, base.line)
                if not bv.mut or bv.order < 0:
                    raise Unsupported("assignment to immutable `%s` (rustc would reject)" % base.name, s.line)
                self.emit(ind, "let %s : %s := %s" % (lean_name(base.name), lean_type(bv.ty), v))
            else:
                raise Unsupported("assignment target `%s`" % show_expr(tgt), s.line)
            return
        raise Unsupported("assignment target `%s`" % show_expr(tgt), s.line)

    def stmt_if(self, s, ind):
        blocks = [s.then] + ([s.els] if s.els else [])
        names = self.outer_mutated(blocks)
        for n in names:
            if n != "self":
                v = self.lookup(n, s.line)
                if not v.mut:
                    raise Unsupported("assignment to immutable `%s` (rustc would reject)" % n, s.line)
        pat = self.pat(names)
        self.emit(ind, "-- L%d: if %s { ... }%s   (assigns: %s)" % (s.line, show_expr(s.cond), " else { ... }" if s.els else "",
                                                                     ", ".join(names) if names else "nothing"))
        pre = []
        ty, c = self.ex(s.cond, "bool", pre)
        if ty != "bool":
            raise Unsupported("`if` condition of type `%s` (rustc would reject)" % str(ty), s.line)
        self.emit_pre(ind, pre)
        self.emit(ind, "Flow.bind (")
        self.emit(ind + 1, "if %s then" % c)
        self.scopes.append({})
        self.block(s.then, ind + 2, "Flow.next %s" % pat)
        self.scopes.pop()
        self.emit(ind + 1, "else")
        if s.els:
            self.scopes.append({})
            self.block(s.els, ind + 2, "Flow.next %s" % pat)
            self.scopes.pop()
        else:
            self.emit(ind + 2, "Flow.next %s" % pat)
        self.emit(ind, ") fun %s =>" % pat)

    def stmt_for(self, s, ind):
        names = self.outer_mutated([s.body])
        for n in names:
            if n != "self":
                v = self.lookup(n, s.line)
                if not v.mut:
                    raise Unsupported("assignment to immutable `%s` (rustc would reject)" % n, s.line)
        pat = self.pat(names)
        self.emit(ind, "-- L%d: for %s in %s%s%s { ... }   (assigns: %s)" % (s.line, s.var, show_expr(s.lo), "..=" if s.incl else "..",
                                                                             show_expr(s.hi), ", ".join(names) if names else "nothing"))
        ty = self.try_type(s.lo) or self.try_type(s.hi)
        if ty not in INT_TYPES:
            raise Unsupported("cannot determine the type of the range bounds", s.line)
        pre = []
        lt, lo = self.ex(s.lo, ty, pre)
        ht, hi = self.ex(s.hi, ty, pre)
        if lt != ty or ht != ty:
            raise Unsupported("mismatched range bound types (rustc would reject)", s.line)
        self.emit_pre(ind, pre)
        self.emit(ind, "Flow.bind (%s %s %s (fun %s %s =>" % ("Flow.forIncl" if s.incl else "Flow.forExcl", lo, hi, lean_name(s.var), pat))
        self.scopes.append({})
        self.declare(s.var, ty, False, s.line)
        self.block(s.body, ind + 2, "Flow.next %s" % pat)
        self.scopes.pop()
        self.emit(ind + 1, ") %s" % pat)
        self.emit(ind, ") fun %s =>" % pat)

    # ------------------------------------------------------------------------------------
    # items
    # ------------------------------------------------------------------------------------
    def gen_consts(self):
        out = self.out
        out.append("/-! ### constants -/")
        for c in self.p.consts:
            if c.name in self.const_ty or c.name in RESERVED_TOP:
                raise Unsupported("duplicate or reserved constant name `%s`" % c.name, c.line)
            ty = self.resolve_type(c.ty)
            if ty not in INT_TYPES:
                raise Unsupported("constant of type `%s`" % show_type(c.ty), c.line)
            v = self.const_eval(c.expr, ty)
            self.scopes = []
            self.selfkind = None
            self.selfname = None
            self.const_mode = True
            _, t = self.ex(c.expr, ty, [])
            self.const_ty[c.name] = ty
            self.const_val[c.name] = v
            out.append("-- L%d: const %s: %s = %s;" % (c.line, c.name, show_type(c.ty), show_expr(c.expr)))
            out.append("def %s : %s := %s" % (lean_name(c.name), lean_type(ty), t))
            out.append("/-- the translator's own exact evaluation of the constant expression (no overflow); re-checked by Lean -/")
            out.append("theorem %s_eval : %s.toNat = %d := by decide" % (c.name, lean_name(c.name), v))
            out.append("")

    def gen_structs(self):
        out = self.out
        for st in self.p.structs:
            if st.name in self.structs or st.name in RESERVED_TOP or st.name in self.const_ty:
                raise Unsupported("duplicate or reserved struct name `%s`" % st.name, st.line)
            self.structs[st.name] = st
            seen = set()
            for f in st.fields:
                if f.name in seen:
                    raise Unsupported("duplicate field `%s`" % f.name, f.line)
                seen.add(f.name)
                f.rty = self.resolve_type(f.ty)
                if isinstance(f.rty, tuple) and f.rty[0] == "struct" or f.rty == "unit":
                    raise Unsupported("field of type `%s`" % show_type(f.ty), f.line)
            out.append("/-! ### struct %s -/" % st.name)
            out.append("structure %s where" % st.name)
            for f in st.fields:
                out.append("  -- L%d: %s: %s" % (f.line, f.name, show_type(f.ty)))
                out.append("  %s : %s" % (lean_name(f.name), lean_type(f.rty)))
            out.append("deriving DecidableEq, Repr")
            out.append("")
            wf = []
            for f in st.fields:
                if isinstance(f.rty, tuple) and f.rty[0] == "array":
                    self.scopes = []
                    self.selfkind = None
                    self.selfname = None
                    self.const_mode = True
                    _, t = self.ex(f.ty.len, "usize", [])
                    out.append("/-- the array length in the type of field `%s` (`%s`) -/" % (f.name, show_expr(f.ty.len)))
                    out.append("def %s.%s_LEN : Usize := %s" % (st.name, f.name, t))
                    out.append("theorem %s.%s_LEN_eval : %s.%s_LEN.toNat = %d := by decide" % (st.name, f.name, st.name, f.name, f.rty[2]))
                    wf.append("s.%s.size = %s.%s_LEN.toNat" % (lean_name(f.name), st.name, f.name))
            out.append("/-- the part of the Rust type that `Array` does not carry: fixed array lengths -/")
            out.append("def %s.WF (s : %s) : Prop := %s" % (st.name, st.name, " ∧ ".join(wf) if wf else "True"))
            out.append("")

    def gen_fns(self):
        out = self.out
        seen = set()
        for target, fn in self.p.fns:
            if target not in self.structs:
                raise Unsupported("impl for unknown type `%s`" % target, fn.line)
            if (target, fn.name) in seen:
                raise Unsupported("duplicate fn `%s`" % fn.name, fn.line)
            seen.add((target, fn.name))
            for f in self.structs[target].fields:
                if f.name == fn.name or fn.name in ("WF", "mk", "rec", "casesOn", "noConfusion"):
                    raise Unsupported("fn name `%s` clashes with a generated name" % fn.name, fn.line)
            self.selfname = target
            self.selfkind = fn.selfkind
            self.const_mode = False
            self.scopes = [{}]
            self.order = 0
            self.lines = []
            self.ret_ty = self.resolve_type(fn.ret, target)
            if isinstance(self.ret_ty, tuple) and self.ret_ty[0] == "array":
                raise Unsupported("fn returning an array", fn.line)
            params = ["(%s : Bool)" % self.ov]
            sig = []
            if fn.selfkind:
                params.append("(self : %s)" % target)
                sig.append("&mut self" if fn.selfkind == "refmut" else "&self")
            for prm in fn.params:
                ty = self.resolve_type(prm.ty, target)
                if ty not in INT_TYPES and ty != "bool":
                    raise Unsupported("parameter of type `%s`" % show_type(prm.ty), prm.line)
                self.declare(prm.name, ty, False, prm.line)
                params.append("(%s : %s)" % (lean_name(prm.name), lean_type(ty)))
                sig.append("%s: %s" % (prm.name, show_type(prm.ty)))
            rty = lean_type(self.ret_ty)
            if fn.selfkind == "refmut":
                rty = "%s × %s" % (target, rty)
            self.block(fn.body, 1, None, fn_body=True)
            out.append("-- L%d: fn %s(%s) -> %s" % (fn.line, fn.name, ", ".join(sig), show_type(fn.ret)))
            if fn.selfkind == "refmut":
                out.append("/-- `%s::%s`; the result is the pair (final `*self`, returned value) -/" % (target, fn.name))
            else:
                out.append("/-- `%s::%s` -/" % (target, fn.name))
            out.append("def %s.%s %s : Res (%s) :=" % (target, lean_name(fn.name), " ".join(params), rty))
            out.append("  Flow.run (")
            out.extend(self.lines)
            out.append("  )")
            out.append("")


PRELUDE = r'''
/-! ### fixed run-time support (not derived from the source): outcomes, panics, loops -/

/-- result of a function call: a value, or a Rust panic -/
inductive Res (α : Type) where
  | ok (a : α)
  | panic
deriving DecidableEq, Repr

/-- outcome of a statement (sequence): fall through with the assigned variables `σ`,
`return` a value `ρ`, or panic -/
inductive Flow (σ ρ : Type) where
  | next (s : σ)
  | ret (r : ρ)
  | panic

/-- sequencing: `first; rest` -/
def Flow.bind {α β ρ : Type} : Flow α ρ → (α → Flow β ρ) → Flow β ρ
  | .next a, k => k a
  | .ret r, _ => .ret r
  | .panic, _ => .panic

/-- a function body always ends in `Flow.ret` -/
def Flow.run {ρ : Type} : Flow Empty ρ → Res ρ
  | .ret r => .ok r
  | .panic => .panic
  | .next e => nomatch e

/-- panic unless `c` -/
def Flow.check {ρ : Type} (c : Bool) : Flow Unit ρ := if c then .next () else .panic

/-- arithmetic-overflow check: only when the build has `overflow-checks` on (`ov = true`) -/
def Flow.arith {ρ : Type} (ov c : Bool) : Flow Unit ρ := Flow.check (!ov || c)

/-- `usize` on a 64-bit target -/
abbrev Usize := UInt64

def U64.as_usize (x : UInt64) : Usize := x
def Usize.as_u64 (x : Usize) : UInt64 := x

/-- `a + b` does not overflow -/
def U64.addOk (a b : UInt64) : Bool := decide (a.toNat + b.toNat < 2 ^ 64)
/-- `a - b` does not underflow -/
def U64.subOk (a b : UInt64) : Bool := decide (b.toNat ≤ a.toNat)
/-- `a * b` does not overflow -/
def U64.mulOk (a b : UInt64) : Bool := decide (a.toNat * b.toNat < 2 ^ 64)
/-- the shift amount of `a << b` / `a >> b` is in range -/
def U64.shiftOk (b : UInt64) : Bool := decide (b.toNat < 64)

/-- `a[i]` (bounds-checked in every profile) -/
def Flow.index {τ ρ : Type} (a : Array τ) (i : Usize) : Flow τ ρ :=
  match a[i.toNat]? with
  | some v => .next v
  | none => .panic

/-- `a[i] = v` (bounds-checked in every profile) -/
def Flow.store {τ ρ : Type} (a : Array τ) (i : Usize) (v : τ) : Flow (Array τ) ρ :=
  if i.toNat < a.size then .next (a.setIfInBounds i.toNat v) else .panic

/-- `n` iterations of `body`, the loop variable taking the values `lo, lo+1, …, lo+(n-1)` -/
def Flow.iter {σ ρ : Type} (body : UInt64 → σ → Flow σ ρ) (lo : UInt64) : Nat → σ → Flow σ ρ
  | 0, s => .next s
  | n + 1, s => (Flow.iter body lo n s).bind (body (lo + UInt64.ofNat n))

/-- `for x in lo..=hi { body }` -/
def Flow.forIncl {σ ρ : Type} (lo hi : UInt64) (body : UInt64 → σ → Flow σ ρ) (s : σ) : Flow σ ρ :=
  if lo ≤ hi then Flow.iter body lo (hi.toNat - lo.toNat + 1) s else .next s

/-- `for x in lo..hi { body }` -/
def Flow.forExcl {σ ρ : Type} (lo hi : UInt64) (body : UInt64 → σ → Flow σ ρ) (s : σ) : Flow σ ρ :=
  Flow.iter body lo (hi.toNat - lo.toNat) s
'''


def header(path, digest, skipped):
    lines = []
    lines.append("/- GENERATED by translate_pw.py — do not edit.")
    lines.append("   source: %s" % path)
    lines.append("   sha256: %s" % digest)
    lines.append("")
    lines.append("   Statement-by-statement translation of the non-test part of the Rust file.")
    lines.append("   * u64 = UInt64, usize = UInt64 (64-bit target); `as usize`/`as u64` = identity wrappers.")
    lines.append("   * `+ - *` wrap, `<< >>` keep the Rust shift amount (Lean masks it mod 64 = release build);")
    lines.append("     before each one `Flow.arith ov (...)` states when a build with overflow-checks panics")
    lines.append("     (`ov = true`: debug profile, `ov = false`: release profile).")
    lines.append("   * array reads/writes are bounds-checked (`Flow.index`/`Flow.store`), out of bounds = panic.")
    lines.append("   * `Flow`: next (fall through, carrying the assigned variables) | ret (return) | panic.")
    lines.append("   * lines `-- Ln:` quote the parsed Rust statement of source line n.")
    if skipped:
        lines.append("   skipped (not translated):")
        for s in skipped:
            lines.append("     - %s" % s)
    lines.append("-/")
    return lines


def translate(path):
    data = open(path, "rb").read()
    digest = hashlib.sha256(data).hexdigest()
    try:
        src = data.decode("utf-8")
    except UnicodeDecodeError:
        raise Unsupported("non-UTF-8 source", 1)
    toks = tokenize(src)
    p = Parser(toks)
    p.parse_file()
    if not p.structs:
        raise Unsupported("no struct found", 1)
    if not p.fns:
        raise Unsupported("no inherent impl fn found", 1)
    idents = [t.text for t in toks if t.kind == "ident"]
    g = Gen(p, idents)
    g.out.extend(header(path, digest, p.skipped))
    g.out.append("set_option linter.unusedVariables false")
    g.out.append("namespace Octo.PWGen")
    g.out.append(PRELUDE)
    g.gen_consts()
    g.gen_structs()
    g.out.append("/-! ### functions -/")
    g.gen_fns()
    g.out.append("end Octo.PWGen")
    return "\n".join(g.out) + "\n"


def main(argv):
    if len(argv) != 3:
        sys.stderr.write("usage: translate_pw.py <path/to/packet_window.rs> <out.lean>\n")
        return 2
    try:
        text = translate(argv[1])
    except Unsupported as u:
        sys.stderr.write("translate_pw: unsupported: %s at line %d\n" % (u.what, u.line))
        return 3
    except OSError as e:
        sys.stderr.write("translate_pw: %s\n" % e)
        return 2
    try:
        with open(argv[2], "w", encoding="utf-8") as f:
            f.write(text)
    except OSError as e:
        sys.stderr.write("translate_pw: %s\n" % e)
        return 2
    return 0


if __name__ == "__main__":
    sys.exit(main(sys.argv))
