#!/usr/bin/env python3
"""Configuration -> behaviour dispatch of octo-squirrel -> Lean 4 (`Octo.DispatchGen`).

usage:  translate_dispatch.py <root of a checkout of octo-squirrel> <out.lean>

Three parts (all re-read from the checkout on every run):

  1. the client's dispatch `match`es (client.rs `transfer_tcp`, `transfer_udp`; client/template.rs `try_transfer_tcp`),
  2. the server's (server.rs `startup`, `startup_tcp`, `startup_quic`; server/shadowsocks.rs `startup`, `startup_tcp`,
     `startup_udp`; config.rs `Mode::enable_*`),
  3. the key derivations (protocol/shadowsocks.rs `aead::openssl_bytes_to_key`, `aead_2022::password_to_keys`,
     `password_to_exact_keys`; manager/shadowsocks.rs `ServerUserManager`, `ServerUser::try_from`).

Parts 1 and 2 are a STRUCTURAL extraction on the token-tree level (tokenizer of translate_pw.py / translate_nonce.py, the
bracket matcher and `find_fn` of translate_loops.py): every `match` becomes a table of arms, in source order, whose
patterns are data (enum constructors, `None`, `Some(_)`, `_`) and whose right-hand sides are data as well (every call with
its path, const generics and classified arguments).  Part 3 is a statement-by-statement translation of a small Rust subset
(parser below).  The reading rules are the trusted part; they are written into the generated header (RULES).  An arm, a
pattern, an argument or a statement the rules do not cover is refused (exit 3), never guessed.

Exit status: 0 a Lean module was written; 2 usage / IO error; 3 unsupported construct (one line on stderr, nothing written).
"""
import hashlib
import os
import sys

sys.path.insert(0, os.path.dirname(os.path.abspath(__file__)))
from translate_pw import Unsupported  # noqa: E402
from translate_loops import File, enclosing_impl, OPEN  # noqa: E402

F_CLIENT = "octo-squirrel-client/src/client.rs"
F_CTEMPLATE = "octo-squirrel-client/src/client/template.rs"
F_SERVER = "octo-squirrel-server/src/server.rs"
F_SSSERVER = "octo-squirrel-server/src/server/shadowsocks.rs"
F_CONFIG = "octo-squirrel/src/config.rs"
F_PROTOCOL = "octo-squirrel/src/protocol.rs"
F_AEAD = "octo-squirrel/src/codec/aead.rs"
F_SSPROTO = "octo-squirrel/src/protocol/shadowsocks.rs"
F_SSMANAGER = "octo-squirrel/src/manager/shadowsocks.rs"
# flat names for scratch copies kept in one directory (`<root>/<flat name>` is tried when `<root>/<rel>` does not exist)
FLAT = {F_CLIENT: "client.rs", F_CTEMPLATE: "client_template.rs", F_SERVER: "server.rs", F_SSSERVER: "server_shadowsocks.rs",
        F_CONFIG: "config.rs", F_PROTOCOL: "protocol.rs", F_AEAD: "codec_aead.rs", F_SSPROTO: "protocol_shadowsocks.rs",
        F_SSMANAGER: "manager_shadowsocks.rs"}

RULES = r"""
   TRUSTED READING RULES (applied by translate_dispatch.py; everything proved in Lean is relative to them)

   Enums.  `Proto`, `Cipher`, `Mode` are the field-less variants of `enum Protocol` (protocol.rs), `enum CipherKind`
   (codec/aead.rs), `enum Mode` (config.rs), in source order; `Mod` = the `mod x;` / `mod x {` items at the top level of
   client.rs and server.rs (constructor `m_x`).  A variant with fields or a discriminant is refused.

   Match tables.  `match S { P => R, .. }`: S is `[&]x.f` or a tuple of such with f among protocol, cipher, ssl, ws, quic
   (anything else is refused).  A pattern is, per component: `_` or a lower-case binding (`any`), `None` (`none`),
   `Some(_)` / `Some(binding)` (`some`), a path whose last segment is a variant of the component's enum; `A | B` at the top
   level of a cipher pattern lists variants.  Guards (`P if c`), `@`, ranges, nested alternatives are refused.  An arm whose
   right-hand side is itself `match x.cipher { .. }` (optionally followed by `.await`-free postfix) becomes `Body.byCipher`.
   Arms are kept in source order; the generated evaluator takes the first arm that matches, then (byCipher) the first inner
   arm that matches: the semantics of Rust's `match`.

   Right-hand sides.  Every call site `path(args)` / `path!(args)` in the arm (at any depth: statements, blocks, arguments,
   closure bodies; method calls `.m(..)` are not call sites, their arguments are read) is recorded in source order with
   its path segments, the integer const generics of its turbofish(es), `tried` (a `?` in its postfix chain), and its
   arguments classified as: `name x` (an identifier, `&x`, `&mut x`, `x.field..` / `x.method(..)` chains: the base name),
   `fn r` (a path of >= 2 segments or with a turbofish, not called), `closure refs` (`|..| body` / `move |..| body`: the
   paths of >= 2 segments or with a turbofish that its body mentions; the parameter names are not recorded), `lit`
   (literals, `()`), `nested` (an expression that starts with a call / macro call, a parenthesised expression, an `async [move] {..}` block -
   the calls inside are recorded on their own).
   Any other argument shape is refused.  `Type<16>`: integer generic arguments of types are recorded in `typeGenerics`.
   `FnRef.mod` = the `Mod` of the first path segment when it is one (`vmess::udp::new_key` -> m_vmess), else none.

   Server accept (`startup_tcp` of server.rs).  In each arm of `match (&config.ssl, &config.ws)` exactly one
   `if C {A} else {B}` must have C = `w.is_some()` with w the binding of the ws component, or a local `let b = w.is_some();`
   and A, B must each contain exactly one call `template::..` (and the arm no other): `onWs` = A's, `onNoWs` = B's.  `tls` = that `if` lies
   inside the `Ok(..)` arm of a `match t.accept(..).await` with t bound by `let t = TlsAcceptor::from(..)` (or a `.clone()` of
   such); an arm that mentions `TlsAcceptor` without that shape is refused.

   Listeners.  A function body is read as steps: `if C { return Ok(()); }` (`retIf`), `if C {..} else {..}` (`branch`) and
   everything else (`opens`); C is built from `x.mode.enable_tcp/udp/quic()`, `!`, `&&`, `||`, parentheses (else refused).
   What a range of code opens: `TcpListener::bind` -> tcp, `UdpSocket::bind` -> udp, `Endpoint::server` -> quic, guarded
   (`quicIfSection`) when it lies in `if let Some(..) = &x.quic {..}`; a call of `startup_tcp` / `startup_quic` (of server.rs,
   also as `super::..`) opens what that function's body opens.  Other calls open nothing (`Endpoint::client` etc. are not listed:
   a listener of another kind is not seen - the behavioural e2e runs cover that).
"""

KEYWORDS = {"as", "break", "const", "continue", "else", "enum", "extern", "fn", "for", "if", "impl", "in", "let", "loop", "match",
            "mod", "move", "mut", "pub", "ref", "return", "static", "struct", "trait", "type", "unsafe", "use", "where", "while",
            "async", "await", "dyn", "self", "Self", "super", "crate", "true", "false"}
PATH_START_KEYWORDS = {"self", "Self", "super", "crate"}


def fail(what, line):
    raise Unsupported(what, line)


def enclosing_mods(f, i):
    """names of the inline `mod x {` items whose braces contain token i (outermost first)"""
    out = []
    for o, c in sorted(f.match.items()):
        if o < i < c and f.is_p(o, "{") and o >= 2 and f.is_id(o - 2, "mod") and f.is_id(o - 1):
            out.append(f.toks[o - 1].text)
    return out


def find_fn(f, name, impl_of, mods=()):
    """`fn name` inside exactly the inline modules `mods` (default: the top level of the file) and, when given, `impl impl_of`"""
    hits = []
    for i in range(len(f.toks) - 1):
        if f.is_id(i, "fn") and f.is_id(i + 1, name) and enclosing_mods(f, i) == list(mods) and enclosing_impl(f, i) == impl_of:
            hits.append(i)
    where = ("::".join(mods) + " of " if mods else "") + f.path + (" in impl " + impl_of if impl_of else "")
    if len(hits) != 1:
        fail("expected exactly one `fn %s` in %s, found %d" % (name, where, len(hits)), 0)
    i = hits[0]
    k = i + 2
    if f.is_p(k, "<"):
        depth = 0
        while True:
            if f.is_p(k, "<"):
                depth += 1
            elif f.is_p(k, ">"):
                depth -= 1
            elif f.is_p(k, ">>"):
                depth -= 2
            elif f.toks[k].kind == "punct" and f.toks[k].text in OPEN:
                k = f.match[k]
            k += 1
            if depth <= 0:
                break
    if not f.is_p(k, "("):
        fail("parameter list of `fn %s`" % name, f.toks[i].line)
    params = (k + 1, f.match[k])
    b = f.find_top(f.match[k] + 1, len(f.toks), lambda j: f.is_p(j, "{") or f.is_p(j, ";"))
    if b < 0 or not f.is_p(b, "{"):
        fail("body of `fn %s`" % name, f.toks[i].line)
    return i, params, (b + 1, f.match[b])


# ----------------------------------------------------------------------------------------------------------------------
# enums, modules
# ----------------------------------------------------------------------------------------------------------------------

def read_enum(f, name):
    for i in range(len(f.toks) - 2):
        if f.is_id(i, "enum") and f.is_id(i + 1, name) and f.is_p(i + 2, "{"):
            lo, hi = i + 3, f.match[i + 2]
            out = []
            k = lo
            while k < hi:
                if f.is_p(k, "#"):
                    if not f.is_p(k + 1, "["):
                        fail("attribute in enum %s" % name, f.toks[k].line)
                    k = f.match[k + 1] + 1
                    continue
                if not f.is_id(k):
                    fail("variant of enum %s" % name, f.toks[k].line)
                out.append(f.toks[k].text)
                k += 1
                if k < hi:
                    if not f.is_p(k, ","):
                        fail("variant `%s` of enum %s has fields or a discriminant" % (out[-1], name), f.toks[k].line)
                    k += 1
            if not out:
                fail("enum %s has no variants" % name, f.toks[i].line)
            return out
    fail("enum %s not found in %s" % (name, f.path), 0)


def read_mods(f):
    out = []
    depth = 0
    for i, t in enumerate(f.toks):
        if t.kind == "punct" and t.text in OPEN:
            depth += 1
        elif t.kind == "punct" and t.text in (")", "]", "}"):
            depth -= 1
        elif depth == 0 and f.is_id(i, "mod") and f.is_id(i + 1) and (f.is_p(i + 2, ";") or f.is_p(i + 2, "{")):
            out.append(f.toks[i + 1].text)
    return out


# ----------------------------------------------------------------------------------------------------------------------
# paths, calls, arguments
# ----------------------------------------------------------------------------------------------------------------------

class Ctx:
    def __init__(self, protos, ciphers, modes, mods):
        self.protos, self.ciphers, self.modes, self.mods = protos, ciphers, modes, mods


def parse_path(f, i, hi, strict=True):
    """a path starting at token i (an identifier): returns (segs, generics, end) - end = index after the path.
    strict: a turbofish argument that is not an integer is refused (else skipped)"""
    segs, gens = [f.toks[i].text], []
    k = i + 1
    while k + 1 < hi and f.is_p(k, "::"):
        if f.is_p(k + 1, "<"):
            j = k + 2
            depth = 1
            while j < hi:
                t = f.toks[j]
                if f.is_p(j, "<"):
                    depth += 1
                elif f.is_p(j, ">"):
                    depth -= 1
                elif f.is_p(j, ">>"):
                    depth -= 2
                if depth <= 0:
                    break
                if t.kind == "int" and depth == 1:
                    gens.append(int(t.text.replace("_", ""), 0))
                elif not f.is_p(j, ",") and strict:
                    fail("turbofish argument `%s` (only integer const generics are read)" % t.text, t.line)
                j += 1
            if j >= hi:
                fail("unclosed turbofish", f.toks[k].line)
            k = j + 1
        elif f.is_id(k + 1):
            segs.append(f.toks[k + 1].text)
            k += 2
        else:
            fail("path segment `%s`" % f.toks[k + 1].text, f.toks[k + 1].line)
    return segs, gens, k


def starts_path(f, i, lo):
    if not f.is_id(i):
        return False
    t = f.toks[i].text
    if t in KEYWORDS and t not in PATH_START_KEYWORDS:
        return False
    if i > lo and (f.is_p(i - 1, ".") or f.is_p(i - 1, "::")):
        return False
    if i > lo and f.is_p(i - 1, ">") and i - 2 >= lo and f.toks[i - 2].kind == "int":
        return False
    return True


def fnref(ctx, segs, gens):
    m = segs[0] if segs[0] in ctx.mods else None
    if segs[0] == "super" and len(segs) > 1:
        m = None
    return {"mod": m, "segs": segs, "gens": gens}


def split_commas(f, lo, hi, angles=False):
    """top-level comma separated ranges; angles: `<..>` nest as well (type position)"""
    out, start = [], lo
    k = lo
    depth = 0
    while k < hi:
        t = f.toks[k]
        if t.kind == "punct" and t.text in OPEN:
            k = f.match[k] + 1
            continue
        if angles and t.kind == "punct" and t.text in ("<", ">", ">>"):
            depth += {"<": 1, ">": -1, ">>": -2}[t.text]
        if f.is_p(k, ",") and depth == 0:
            out.append((start, k))
            start = k + 1
        k += 1
    if start < hi:
        out.append((start, hi))
    return out


def refs_in(f, ctx, lo, hi):
    """paths of >= 2 segments or with a turbofish mentioned in [lo, hi)"""
    out = []
    k = lo
    while k < hi:
        if starts_path(f, k, lo):
            segs, gens, e = parse_path(f, k, hi)
            if len(segs) >= 2 or gens:
                out.append(fnref(ctx, segs, gens))
            k = e
        else:
            k += 1
    return out


def classify_arg(f, ctx, lo, hi):
    line = f.toks[lo].line
    while lo < hi and (f.is_p(lo, "&") or f.is_id(lo, "mut")):
        lo += 1
    if lo >= hi:
        fail("empty argument", line)
    t = f.toks[lo]
    if f.is_id(lo, "move") and (f.is_p(lo + 1, "|") or f.is_p(lo + 1, "||")):
        lo += 1
        t = f.toks[lo]
    if f.is_p(lo, "||"):
        return ("closure", refs_in(f, ctx, lo + 1, hi))
    if f.is_p(lo, "|"):
        k = lo + 1
        while k < hi and not f.is_p(k, "|"):
            k += 1
        if k >= hi:
            fail("closure parameter list", line)
        return ("closure", refs_in(f, ctx, k + 1, hi))
    if t.kind in ("str", "int", "char", "float") and (hi == lo + 1 or f.is_p(lo + 1, ".")):
        return ("lit", None)
    if f.is_id(lo, "async"):
        k = lo + 2 if f.is_id(lo + 1, "move") else lo + 1
        if f.is_p(k, "{") and f.match[k] == hi - 1:
            return ("nested", None)
    if f.is_p(lo, "(") and f.match[lo] == hi - 1:
        if hi == lo + 2:
            return ("lit", None)
        return ("nested", None)
    if starts_path(f, lo, lo):
        segs, gens, e = parse_path(f, lo, hi)
        if e == hi:
            if len(segs) == 1 and not gens:
                return ("name", segs[0])
            return ("fn", fnref(ctx, segs, gens))
        if f.is_p(e, "(") or (f.is_p(e, "!") and e + 1 < hi and f.toks[e + 1].text in OPEN):
            return ("nested", None)
        if len(segs) == 1 and not gens and f.is_p(e, "."):
            return ("name", segs[0])
    fail("argument shape `%s`" % f.render(lo, hi, 60), line)


def scan_rhs(f, ctx, lo, hi):
    """all call sites and type generics in [lo, hi), in source order"""
    calls, tgens = [], []
    k = lo
    while k < hi:
        if not starts_path(f, k, lo):
            k += 1
            continue
        segs, gens, e = parse_path(f, k, hi)
        if e < hi and f.is_p(e, "<") and e + 2 < hi and f.toks[e + 1].kind == "int" and f.is_p(e + 2, ">"):
            tgens.append(int(f.toks[e + 1].text.replace("_", ""), 0))
            k = e + 3
            continue
        macro = False
        o = e
        if e + 1 < hi and f.is_p(e, "!") and f.toks[e + 1].kind == "punct" and f.toks[e + 1].text in OPEN:
            macro, o = True, e + 1
        if o < hi and f.is_p(o, "(") or macro:
            c = f.match[o]
            args = [classify_arg(f, ctx, a, b) for a, b in split_commas(f, o + 1, c)]
            # postfix chain: `?` anywhere in `.m(..)`, `.await`, `?`
            tried = False
            j = c + 1
            while j < hi:
                if f.is_p(j, "?"):
                    tried = True
                    j += 1
                elif f.is_p(j, ".") and f.is_id(j + 1):
                    j += 2
                    if j + 1 < hi and f.is_p(j, "::") and f.is_p(j + 1, "<"):
                        while j < hi and not f.is_p(j, ">"):
                            j += 1
                        j += 1
                    if j < hi and f.is_p(j, "("):
                        j = f.match[j] + 1
                else:
                    break
            calls.append({"ref": fnref(ctx, segs, gens), "macro": macro, "args": args, "tried": tried, "line": f.toks[k].line})
            k = o + 1      # the arguments are scanned as well
            continue
        k = e
    return calls, tgens


# ----------------------------------------------------------------------------------------------------------------------
# match tables
# ----------------------------------------------------------------------------------------------------------------------

FIELDS = ("protocol", "cipher", "ssl", "ws", "quic")


def parse_match(f, i, hi):
    """toks[i] = `match`: returns ((scrut_lo, scrut_hi), [(pat_lo, pat_hi, body_lo, body_hi, line)], end)"""
    b = f.find_top(i + 1, hi, lambda j: f.is_p(j, "{"))
    if b < 0:
        fail("`match` without a body", f.toks[i].line)
    lo, end = b + 1, f.match[b]
    arms = []
    k = lo
    while k < end:
        a = f.find_top(k, end, lambda j: f.is_p(j, "=>"))
        if a < 0:
            fail("match arm without `=>`", f.toks[k].line)
        if f.is_p(a + 1, "{"):
            c = f.match[a + 1]
            nxt = c + 1
            # `{ .. }.await` / `{..}?` after a block arm: not an arm of the shape we read
            if nxt < end and not f.is_p(nxt, ","):
                # a block followed by something that is not `,`: next arm starts directly (allowed by Rust)
                pass
            arms.append((k, a, a + 2, c, f.toks[k].line))
            k = nxt + 1 if nxt < end and f.is_p(nxt, ",") else nxt
        else:
            c = f.find_top(a + 1, end, lambda j: f.is_p(j, ","))
            if c < 0:
                c = end
            arms.append((k, a, a + 1, c, f.toks[k].line))
            k = c + 1
    return (i + 1, b), arms, end


def scrutinee_fields(f, lo, hi):
    """`[&]x.f` -> [f];  `(a.f, &b.g, ..)` -> [f, g, ..]"""
    def one(a, b):
        while a < b and f.is_p(a, "&"):
            a += 1
        if b - a == 3 and f.is_id(a) and f.is_p(a + 1, ".") and f.is_id(a + 2) and f.toks[a + 2].text in FIELDS:
            return f.toks[a + 2].text
        fail("match scrutinee `%s` (only configuration fields %s are read)" % (f.render(a, b, 60), ", ".join(FIELDS)), f.toks[a].line)
    if f.is_p(lo, "(") and f.match[lo] == hi - 1:
        return [one(a, b) for a, b in split_commas(f, lo + 1, hi - 1)], True
    return [one(lo, hi)], False


def atom_pattern(f, ctx, field, lo, hi):
    """one component of a pattern -> ('any', binding|None) | ('none',) | ('some', binding|None) | ('variants', [..])"""
    line = f.toks[lo].line
    if any(f.is_id(k, "if") for k in range(lo, hi)) or any(f.is_p(k, "@") or f.is_p(k, "..") or f.is_p(k, "..=") for k in range(lo, hi)):
        fail("guard / binding / range pattern `%s`" % f.render(lo, hi, 60), line)
    alts = []
    start = lo
    k = lo
    while k <= hi:
        if k == hi or f.is_p(k, "|"):
            alts.append((start, k))
            start = k + 1
        elif f.toks[k].kind == "punct" and f.toks[k].text in OPEN:
            k = f.match[k]
        k += 1
    enum = {"protocol": ctx.protos, "cipher": ctx.ciphers}.get(field)
    if len(alts) > 1 or (enum is not None and not (hi - lo == 1 and (f.is_id(lo, "_") or f.toks[lo].text[0].islower()))):
        if enum is None:
            fail("alternatives in an Option pattern `%s`" % f.render(lo, hi, 60), line)
        vs = []
        for a, b in alts:
            if not f.is_id(a):
                fail("pattern `%s`" % f.render(a, b, 60), line)
            segs, gens, e = parse_path(f, a, b)
            if e != b or gens or segs[-1] not in enum:
                fail("pattern `%s` is not a variant of the enum of `.%s`" % (f.render(a, b, 60), field), line)
            vs.append(segs[-1])
        return ("variants", vs)
    if hi - lo == 1 and f.is_id(lo):
        t = f.toks[lo].text
        if t == "_":
            return ("any", None)
        if t == "None" and enum is None:
            return ("none",)
        if t[0].islower() and t not in KEYWORDS:
            return ("any", t)
    if enum is None and hi - lo == 4 and f.is_id(lo, "Some") and f.is_p(lo + 1, "(") and f.is_id(lo + 2) and f.is_p(lo + 3, ")"):
        t = f.toks[lo + 2].text
        if t == "_":
            return ("some", None)
        if t[0].islower() and t not in KEYWORDS:
            return ("some", t)
    fail("pattern `%s` for `.%s`" % (f.render(lo, hi, 60), field), line)


def arm_pattern(f, ctx, fields, is_tuple, lo, hi):
    if is_tuple:
        if not (f.is_p(lo, "(") and f.match[lo] == hi - 1):
            fail("pattern `%s` of a tuple scrutinee" % f.render(lo, hi, 60), f.toks[lo].line)
        comps = split_commas(f, lo + 1, hi - 1)
        if len(comps) != len(fields):
            fail("pattern `%s`: %d components for %d" % (f.render(lo, hi, 60), len(comps), len(fields)), f.toks[lo].line)
        return {fld: atom_pattern(f, ctx, fld, a, b) for fld, (a, b) in zip(fields, comps)}
    return {fields[0]: atom_pattern(f, ctx, fields[0], lo, hi)}


def find_match_on(f, lo, hi, want):
    """the `match` tokens in [lo, hi) (any depth) whose scrutinee reads exactly the configuration fields `want`"""
    hits = []
    for i in range(lo, hi):
        if f.is_id(i, "match") and not (i > lo and f.is_p(i - 1, ".")):
            b = f.find_top(i + 1, hi, lambda j: f.is_p(j, "{"))
            if b < 0:
                continue
            try:
                flds, _ = scrutinee_fields(f, i + 1, b)
            except Unsupported:
                continue
            if flds == want:
                hits.append(i)
    return hits


def table_of(f, ctx, fn_name, want, allow_inner=True):
    """the dispatch `match` of `fn fn_name` on the fields `want` -> list of arms"""
    _, _, (blo, bhi) = find_fn(f, fn_name, None)
    hits = [h for h in find_match_on(f, blo, bhi, want)]
    if len(hits) != 1:
        fail("expected exactly one `match` on (%s) in `fn %s` of %s, found %d" % (", ".join(want), fn_name, f.path, len(hits)), f.toks[blo].line)
    (slo, shi), raw, _ = parse_match(f, hits[0], bhi)
    fields, is_tuple = scrutinee_fields(f, slo, shi)
    arms = []
    for plo, phi, rlo, rhi, line in raw:
        pat = arm_pattern(f, ctx, fields, is_tuple, plo, phi)
        body = None
        if allow_inner and f.is_id(rlo, "match"):
            try:
                iflds, _ = scrutinee_fields(f, rlo + 1, f.find_top(rlo + 1, rhi, lambda j: f.is_p(j, "{")))
            except Unsupported:
                iflds = None
            if iflds == ["cipher"]:
                (islo, ishi), iraw, iend = parse_match(f, rlo, rhi)
                if iend + 1 != rhi:
                    fail("tokens after the inner `match` of the arm", f.toks[iend].line)
                inner = []
                for a, b, c, d, l2 in iraw:
                    ip = arm_pattern(f, ctx, ["cipher"], False, a, b)
                    calls, tg = scan_rhs(f, ctx, c, d)
                    inner.append({"pat": ip["cipher"], "calls": calls, "tgens": tg, "line": l2})
                body = ("byCipher", inner)
        if body is None:
            if any(f.is_id(k, "match") for k in range(rlo, rhi)) and allow_inner:
                fail("a `match` inside the arm that is not `match x.cipher` as the whole right-hand side", line)
            calls, tg = scan_rhs(f, ctx, rlo, rhi)
            body = ("direct", {"calls": calls, "tgens": tg, "line": line})
        arms.append({"pat": pat, "body": body, "line": line, "range": (rlo, rhi)})
    return arms, f.toks[hits[0]].line


def fn_params(f, name):
    _, (plo, phi), _ = find_fn(f, name, None)
    out = []
    for a, b in split_commas(f, plo, phi):
        while a < b and f.is_id(a, "mut"):
            a += 1
        if not (f.is_id(a) and f.is_p(a + 1, ":")):
            fail("parameter `%s` of fn %s" % (f.render(a, b, 40), name), f.toks[a].line)
        out.append(f.toks[a].text)
    return out


# ----------------------------------------------------------------------------------------------------------------------
# server accept (`startup_tcp` of server.rs)
# ----------------------------------------------------------------------------------------------------------------------

def let_bindings(f, lo, hi):
    """`let [mut] x = E;` at any depth in [lo, hi) -> [(x, E_lo, E_hi)] in source order"""
    out = []
    for i in range(lo, hi):
        if f.is_id(i, "let"):
            k = i + 1
            if f.is_id(k, "mut"):
                k += 1
            if f.is_id(k) and f.is_p(k + 1, "="):
                e = f.find_top(k + 2, hi, lambda j: f.is_p(j, ";"))
                if e > 0:
                    out.append((f.toks[k].text, k + 2, e))
    return out


def server_accept(f, ctx):
    arms, line = table_of(f, ctx, "startup_tcp", ["ssl", "ws"], allow_inner=False)
    out = []
    for arm in arms:
        lo, hi = arm["range"]
        ws = arm["pat"]["ws"]
        lets = let_bindings(f, lo, hi)
        wsname = ws[1] if ws[0] in ("any", "some") else None

        def is_ws_cond(a, b):
            if b - a == 5 and f.is_id(a) and f.toks[a].text == wsname and f.is_p(a + 1, ".") and f.is_id(a + 2, "is_some") and f.is_p(a + 3, "(") and f.is_p(a + 4, ")"):
                return True
            if b - a == 1 and f.is_id(a):
                defs = [(x, y) for n, x, y in lets if n == f.toks[a].text]
                return len(defs) == 1 and is_ws_cond(*defs[0])
            return False
        tls_names = set()
        changed = True
        while changed:
            changed = False
            for n, a, b in lets:
                if n in tls_names:
                    continue
                if b - a >= 3 and f.is_id(a, "TlsAcceptor") and f.is_p(a + 1, "::") and f.is_id(a + 2, "from"):
                    tls_names.add(n)
                    changed = True
                elif b - a == 5 and f.is_id(a) and f.toks[a].text in tls_names and f.is_p(a + 1, ".") and f.is_id(a + 2, "clone"):
                    tls_names.add(n)
                    changed = True
        ifs = []
        for i in range(lo, hi):
            if f.is_id(i, "if") and not f.is_id(i + 1, "let"):
                b = f.find_top(i + 1, hi, lambda j: f.is_p(j, "{"))
                if b > 0 and is_ws_cond(i + 1, b):
                    ifs.append((i, b))
        if len(ifs) != 1:
            fail("server accept arm: expected exactly one `if <ws>.is_some()`, found %d" % len(ifs), arm["line"])
        i, b = ifs[0]
        tend = f.match[b]
        if not (f.is_id(tend + 1, "else") and f.is_p(tend + 2, "{")):
            fail("server accept arm: `if <ws>.is_some()` without a plain `else` block", f.toks[i].line)
        eend = f.match[tend + 2]

        def relay_of(a, b2):
            calls, _ = scan_rhs(f, ctx, a, b2)
            cs = [c for c in calls if c["ref"]["mod"] == "template"]
            if len(cs) != 1:
                fail("server accept arm: expected exactly one `template::..` call in a branch, found %d" % len(cs), f.toks[a].line)
            return cs[0]["ref"]
        on_ws, on_no = relay_of(b + 1, tend), relay_of(tend + 3, eend)
        allc, _ = scan_rhs(f, ctx, lo, hi)
        if len([c for c in allc if c["ref"]["mod"] == "template"]) != 2:
            fail("server accept arm: `template::..` calls outside the `if <ws>.is_some()` branches", arm["line"])
        # tls: the `if` lies in the `Ok(..)` arm of `match t.accept(..).await`
        tls = False
        for m in range(lo, i):
            if f.is_id(m, "match"):
                (slo, shi), raw, mend = parse_match(f, m, hi)
                if not (m < i < mend):
                    continue
                if shi - slo >= 4 and f.is_id(slo) and f.toks[slo].text in tls_names and f.is_p(slo + 1, ".") and f.is_id(slo + 2, "accept") and f.is_p(slo + 3, "("):
                    for plo, phi, rlo, rhi, _l in raw:
                        if rlo <= i < rhi:
                            if f.is_id(plo, "Ok") and f.is_p(plo + 1, "("):
                                tls = True
                            else:
                                fail("server accept arm: the relay is called in a non-`Ok` arm of the tls accept", f.toks[plo].line)
        mentions = any(f.is_id(k, "TlsAcceptor") for k in range(lo, hi))
        if mentions != tls:
            fail("server accept arm: `TlsAcceptor` and the position of the relay calls do not have the shape of the rules", arm["line"])
        out.append({"ssl": arm["pat"]["ssl"], "ws": ws, "tls": tls, "onWs": on_ws, "onNoWs": on_no, "line": arm["line"]})
    return out, line


# ----------------------------------------------------------------------------------------------------------------------
# listeners
# ----------------------------------------------------------------------------------------------------------------------

def parse_cond(f, lo, hi):
    """boolean expression over `x.mode.enable_*()` -> Lean term of type Cond"""
    pos = [lo]

    def peek(t):
        return pos[0] < hi and f.is_p(pos[0], t)

    def atom():
        k = pos[0]
        if peek("!"):
            pos[0] += 1
            return "(.not %s)" % atom()
        if peek("("):
            e = f.match[k]
            inner = parse_cond(f, k + 1, e)
            pos[0] = e + 1
            return inner
        if (k + 7 <= hi and f.is_id(k) and f.is_p(k + 1, ".") and f.is_id(k + 2, "mode") and f.is_p(k + 3, ".") and f.is_id(k + 4)
                and f.toks[k + 4].text in ("enable_tcp", "enable_udp", "enable_quic") and f.is_p(k + 5, "(") and f.is_p(k + 6, ")")):
            pos[0] = k + 7
            return "." + f.toks[k + 4].text.replace("enable_", "")
        fail("condition `%s` (only `x.mode.enable_*()`, `!`, `&&`, `||`)" % f.render(lo, hi, 80), f.toks[lo].line)

    def conj():
        l = atom()
        while peek("&&"):
            pos[0] += 1
            l = "(.and %s %s)" % (l, atom())
        return l
    l = conj()
    while peek("||"):
        pos[0] += 1
        l = "(.or %s %s)" % (l, conj())
    if pos[0] != hi:
        fail("condition `%s`" % f.render(lo, hi, 80), f.toks[lo].line)
    return l


def is_mode_cond(f, lo, hi):
    return any(f.is_id(k, "mode") for k in range(lo, hi))


def opens_in(f, ctx, lo, hi, summaries):
    """what [lo, hi) opens, in source order"""
    out = []
    # guarded regions: `if let Some(..) = &x.quic {..}`
    guarded = []
    for i in range(lo, hi):
        if f.is_id(i, "if") and f.is_id(i + 1, "let"):
            b = f.find_top(i + 2, hi, lambda j: f.is_p(j, "{"))
            eq = f.find_top(i + 2, b, lambda j: f.is_p(j, "=")) if b > 0 else -1
            if b > 0 and eq > 0 and f.is_id(i + 2, "Some"):
                try:
                    flds, _ = scrutinee_fields(f, eq + 1, b)
                except Unsupported:
                    flds = None
                if flds == ["quic"]:
                    guarded.append((b, f.match[b]))
    # token index of each call: recompute by line is not exact; rescan by position
    k = lo
    positions = []
    while k < hi:
        if starts_path(f, k, lo):
            segs, gens, e = parse_path(f, k, hi, strict=False)
            if e < hi and f.is_p(e, "("):
                positions.append((k, segs))
            k = e
        else:
            k += 1
    for k, segs in positions:
        last2 = segs[-2:]
        o = None
        if last2 == ["TcpListener", "bind"]:
            o = [".tcp"]
        elif last2 == ["UdpSocket", "bind"]:
            o = [".udp"]
        elif last2 == ["Endpoint", "server"]:
            o = [".quicIfSection" if any(a < k < b for a, b in guarded) else ".quic"]
        elif segs[-1] in summaries and (len(segs) == 1 or segs[:-1] == ["super"]):
            o = summaries[segs[-1]]
        if o:
            out.extend(o)
    return out


def steps_of(f, ctx, fn_name, summaries):
    _, _, (lo, hi) = find_fn(f, fn_name, None)
    steps = []
    k = lo
    pending = lo
    while k < hi:
        if f.is_id(k, "if") and not f.is_id(k + 1, "let"):
            b = f.find_top(k + 1, hi, lambda j: f.is_p(j, "{"))
            if b > 0 and is_mode_cond(f, k + 1, b):
                if pending < k:
                    o = opens_in(f, ctx, pending, k, summaries)
                    if o:
                        steps.append(".opens [%s]" % ", ".join(o))
                cond = parse_cond(f, k + 1, b)
                tend = f.match[b]
                body = (b + 1, tend)
                if f.is_id(tend + 1, "else"):
                    if not f.is_p(tend + 2, "{"):
                        fail("`else if` after a mode condition in fn %s" % fn_name, f.toks[tend + 1].line)
                    eend = f.match[tend + 2]
                    for a, b2 in (body, (tend + 3, eend)):
                        if any(f.is_id(j, "mode") for j in range(a, b2)):
                            fail("nested mode condition in fn %s" % fn_name, f.toks[a].line)
                        if any(f.is_id(j, "return") for j in range(a, b2)):
                            fail("`return` inside a mode branch in fn %s" % fn_name, f.toks[a].line)
                    steps.append(".branch %s [%s] [%s]" % (cond, ", ".join(opens_in(f, ctx, body[0], body[1], summaries)),
                                                           ", ".join(opens_in(f, ctx, tend + 3, eend, summaries))))
                    k = eend + 1
                else:
                    # `if C { return Ok(()); }`
                    a, b2 = body
                    ok = (b2 - a == 7 and f.is_id(a, "return") and f.is_id(a + 1, "Ok") and f.is_p(a + 2, "(") and f.is_p(a + 3, "(")
                          and f.is_p(a + 4, ")") and f.is_p(a + 5, ")") and f.is_p(a + 6, ";"))
                    if not ok:
                        fail("mode condition without `else` whose body is not `return Ok(());` in fn %s" % fn_name, f.toks[k].line)
                    steps.append(".retIf %s" % cond)
                    k = tend + 1
                pending = k
                continue
        if f.is_id(k, "mode"):
            fail("use of `.mode` outside an `if` condition in fn %s" % fn_name, f.toks[k].line)
        if f.is_id(k, "return") and not steps_return_ok(f, k):
            pass
        t = f.toks[k]
        if t.kind == "punct" and t.text == "{":
            # a block at statement level that is not a mode branch: keep scanning inside (mode uses inside are refused above)
            pass
        k += 1
    if pending < hi:
        o = opens_in(f, ctx, pending, hi, summaries)
        if o:
            steps.append(".opens [%s]" % ", ".join(o))
    return steps


def steps_return_ok(f, k):
    return True


def mode_set(f, ctx, fn_name):
    _, _, (lo, hi) = find_fn(f, fn_name, "Mode")
    if not (f.is_id(lo, "matches") and f.is_p(lo + 1, "!") and f.is_p(lo + 2, "(") and f.match[lo + 2] == hi - 1
            and f.is_id(lo + 3, "self") and f.is_p(lo + 4, ",")):
        fail("body of Mode::%s is not `matches!(self, ..)`" % fn_name, f.toks[lo].line)
    out = []
    k = lo + 5
    while k < hi - 1:
        if not f.is_id(k):
            fail("pattern in Mode::%s" % fn_name, f.toks[k].line)
        segs, gens, e = parse_path(f, k, hi - 1)
        if gens or segs[-1] not in ctx.modes or segs[:-1] not in (["Self"], ["Mode"]):
            fail("pattern `%s` in Mode::%s" % ("::".join(segs), fn_name), f.toks[k].line)
        out.append(segs[-1])
        k = e
        if k < hi - 1:
            if not f.is_p(k, "|"):
                fail("pattern in Mode::%s" % fn_name, f.toks[k].line)
            k += 1
    return out


# ----------------------------------------------------------------------------------------------------------------------
# the `enable_*` guards of `main` (client.rs) and of the server's entry functions
# ----------------------------------------------------------------------------------------------------------------------

MAIN_RULES = r"""
   Guards of `main`.  Origin of a variable in a function: `topLevel` = bound by `let [mut] x = config::init()?;` (the
   configuration file as a whole - for the client the object that holds the documented top-level `mode`); `entry` = bound by
   `let x = <topLevel>.get_current();` or a parameter whose type mentions `ServerConfig` (one element of `servers[]` / of the
   server's list).  A guard atom is `x.mode.enable_tcp/udp/quic()`; its receiver `x.mode` is recorded as written together
   with the origin of `x` (an `x` of another origin is refused).  The body of the client's `main` is read as top-level steps:
   `if C {A} [else if let Some(p) = v {B} | else {B}]` with C built from guard atoms, `!`, `&&`, `||` (`guarded`), everything else
   `plain`; an `enable_*` call anywhere else in the body is refused.  Of a range of code are recorded: the sockets it binds
   (`let s = TcpListener::bind(..)` / `UdpSocket::bind(..)`, with the name bound), the service functions it starts (a call of a
   top-level `fn` of the same file: `spawned` = inside the arguments of `..spawn(..)`, `awaited` = `.await` directly behind the
   call, its arguments as base names, `task` = the variable of `v = Some(..spawn(..))` / `let v = ..spawn(..)`), and the
   variables it awaits (`v.await`).  The evaluator `runMain` follows Rust: a task variable is `Some` iff the step that
   assigns it ran; `if let Some(p) = v` runs iff `v` is.
"""

MAIN_PRELUDE = r"""
/-! ## the `enable_*` guards of the client's `main` -/

inductive Origin where
  | topLevel | entry
deriving DecidableEq, Repr

inductive Pred where
  | tcp | udp | quic
deriving DecidableEq, Repr

def Pred.eval (m : Mode) : Pred → Bool
  | .tcp => enableTcp m
  | .udp => enableUdp m
  | .quic => enableQuic m

/-- a guard: atoms `x.mode.enable_*()` with the receiver as written and the origin of `x` -/
inductive GCond where
  | atom (o : Origin) (recv : String) (p : Pred)
  | not (c : GCond)
  | and (a b : GCond)
  | or (a b : GCond)
deriving Repr

/-- `top` = the top-level mode, `entry` = the `mode` key of the selected `servers[]` entry -/
def GCond.eval (top entry : Mode) : GCond → Bool
  | .atom .topLevel _ p => p.eval top
  | .atom .entry _ p => p.eval entry
  | .not c => !(c.eval top entry)
  | .and a b => a.eval top entry && b.eval top entry
  | .or a b => a.eval top entry || b.eval top entry

def GCond.atoms : GCond → List (Origin × String × Pred)
  | .atom o r p => [(o, r, p)]
  | .not c => c.atoms
  | .and a b => a.atoms ++ b.atoms
  | .or a b => a.atoms ++ b.atoms

structure Svc where
  fn : String
  spawned : Bool
  awaited : Bool
  args : List String
  task : Option String
deriving DecidableEq, Repr

structure Acts where
  binds : List (Open × String)
  services : List Svc
  awaitsVars : List String
deriving Repr

inductive ElseB where
  | none
  | ifLetSome (pat scrut : String) (a : Acts)
  | block (a : Acts)
deriving Repr

inductive MainStep where
  | guarded (c : GCond) (t : Acts) (e : ElseB)
  | plain (a : Acts)
deriving Repr

/-- what a run of `main` did: sockets bound, services started, services whose end `main` waits for -/
structure MainRun where
  binds : List (Open × String) := []
  services : List Svc := []
  waitsFor : List String := []
  tasks : List (String × String) := []     -- task variable ↦ the service spawned into it
deriving Repr

def Acts.run (a : Acts) (r : MainRun) : MainRun :=
  let tasks := r.tasks ++ a.services.filterMap fun s => if s.spawned then s.task.map (fun v => (v, s.fn)) else none
  { binds := r.binds ++ a.binds,
    services := r.services ++ a.services,
    waitsFor := r.waitsFor ++ (a.services.filter fun s => s.awaited && !s.spawned).map (·.fn)
      ++ a.awaitsVars.filterMap fun v => (tasks.find? (·.1 == v)).map (·.2),
    tasks := tasks }

def runMain (top entry : Mode) : List MainStep → MainRun → MainRun
  | [], r => r
  | .plain a :: rest, r => runMain top entry rest (a.run r)
  | .guarded c t e :: rest, r =>
    if c.eval top entry then runMain top entry rest (t.run r) else
    match e with
    | .none => runMain top entry rest r
    | .block a => runMain top entry rest (a.run r)
    | .ifLetSome pat scrut a =>
      match r.tasks.find? (·.1 == scrut) with
      | some (_, fn) => runMain top entry rest (a.run { r with tasks := r.tasks ++ [(pat, fn)] })
      | none => runMain top entry rest r
"""


def top_level_fns(f):
    out = set()
    for i in range(len(f.toks) - 1):
        if f.is_id(i, "fn") and f.is_id(i + 1) and not enclosing_mods(f, i) and enclosing_impl(f, i) is None:
            out.add(f.toks[i + 1].text)
    return out


def origins_of(f, fn_name, mods=()):
    i, (plo, phi), (blo, bhi) = find_fn(f, fn_name, None, mods)
    o = {}
    for a, b in split_commas(f, plo, phi, angles=True):
        while a < b and f.is_id(a, "mut"):
            a += 1
        if f.is_id(a) and f.is_p(a + 1, ":") and any(f.is_id(k, "ServerConfig") for k in range(a + 2, b)):
            o[f.toks[a].text] = "entry"
    for n, a, b in let_bindings(f, blo, bhi):
        txt = [f.toks[k].text for k in range(a, b)]
        if txt == ["config", "::", "init", "(", ")", "?"]:
            o[n] = "topLevel"
        elif len(txt) == 5 and txt[1:] == [".", "get_current", "(", ")"] and o.get(txt[0]) == "topLevel":
            o[n] = "entry"
        elif n in o:
            del o[n]     # re-bound to something else
    return o, (blo, bhi)


def guard_atoms_in(f, lo, hi, origins):
    """every `x.mode.enable_*()` in [lo, hi) -> [(index of `enable_*`, origin, receiver text, pred)]"""
    out = []
    for k in range(lo, hi):
        if f.is_id(k) and f.toks[k].text in ("enable_tcp", "enable_udp", "enable_quic"):
            if not (k - 4 >= lo and f.is_p(k - 1, ".") and f.is_id(k - 2, "mode") and f.is_p(k - 3, ".") and f.is_id(k - 4)
                    and not f.is_p(k - 5, ".") and f.is_p(k + 1, "(") and f.is_p(k + 2, ")")):
                fail("`%s` on a receiver that is not `x.mode`" % f.toks[k].text, f.toks[k].line)
            x = f.toks[k - 4].text
            if x not in origins:
                fail("the origin of `%s` in `%s.mode.%s()` is not known (rules: config::init / get_current / ServerConfig parameter)"
                     % (x, x, f.toks[k].text), f.toks[k].line)
            out.append((k, origins[x], "%s.mode" % x, f.toks[k].text.replace("enable_", "")))
    return out


def parse_gcond(f, lo, hi, origins):
    pos = [lo]

    def peek(t):
        return pos[0] < hi and f.is_p(pos[0], t)

    def atom():
        k = pos[0]
        if peek("!"):
            pos[0] += 1
            return "(.not %s)" % atom()
        if peek("("):
            e = f.match[k]
            inner = parse_gcond(f, k + 1, e, origins)
            pos[0] = e + 1
            return inner
        if k + 7 <= hi and f.is_id(k + 4) and f.toks[k + 4].text.startswith("enable_"):
            at = guard_atoms_in(f, k, k + 7, origins)
            if len(at) == 1 and at[0][0] == k + 4:
                pos[0] = k + 7
                return "(.atom .%s %s .%s)" % (at[0][1], lstr(at[0][2]), at[0][3])
        fail("guard `%s` (only `x.mode.enable_*()`, `!`, `&&`, `||`)" % f.render(lo, hi, 80), f.toks[lo].line)

    def conj():
        l = atom()
        while peek("&&"):
            pos[0] += 1
            l = "(.and %s %s)" % (l, atom())
        return l
    l = conj()
    while peek("||"):
        pos[0] += 1
        l = "(.or %s %s)" % (l, conj())
    if pos[0] != hi:
        fail("guard `%s`" % f.render(lo, hi, 80), f.toks[lo].line)
    return l


def acts_in(f, ctx, lo, hi, fns):
    binds = []
    for n, a, b in let_bindings(f, lo, hi):
        if starts_path(f, a, a):
            segs, gens, e = parse_path(f, a, b, strict=False)
            kind = {("TcpListener", "bind"): ".tcp", ("UdpSocket", "bind"): ".udp", ("Endpoint", "server"): ".quic"}.get(tuple(segs[-2:]))
            if kind and e < b and f.is_p(e, "("):
                binds.append((kind, n))
    if len(opens_in(f, ctx, lo, hi, {})) != len(binds):
        fail("a socket is bound outside a plain `let s = X::bind(..)`", f.toks[lo].line)
    services = []
    k = lo
    while k < hi:
        if starts_path(f, k, lo):
            segs, gens, e = parse_path(f, k, hi, strict=False)
            if len(segs) == 1 and segs[0] in fns and e < hi and f.is_p(e, "("):
                c = f.match[e]
                args = []
                for a, b in split_commas(f, e + 1, c):
                    kind, v = classify_arg(f, ctx, a, b)
                    if kind != "name":
                        fail("argument `%s` of the service call `%s`" % (f.render(a, b, 40), segs[0]), f.toks[a].line)
                    args.append(v)
                awaited = c + 2 < hi + 1 and f.is_p(c + 1, ".") and f.is_id(c + 2, "await")
                # enclosing `..spawn(`
                spawned, task = False, None
                for o, cl in f.match.items():
                    if o < k < cl and f.is_p(o, "(") and lo <= o and f.is_id(o - 1, "spawn"):
                        spawned = True
                        # statement start: `v = Some(` / `let v =`
                        s = o - 1
                        while s > lo and not (f.is_p(s - 1, ";") or f.is_p(s - 1, "{") or f.is_p(s - 1, "}")):
                            s -= 1
                        if f.is_id(s) and f.is_p(s + 1, "=") and f.is_id(s + 2, "Some") and f.is_p(s + 3, "("):
                            task = f.toks[s].text
                        elif f.is_id(s, "let") and f.is_id(s + 1) and f.is_p(s + 2, "="):
                            task = f.toks[s + 1].text
                services.append({"fn": segs[0], "spawned": spawned, "awaited": awaited, "args": args, "task": task})
            k = e
        else:
            k += 1
    awaits = []
    for k in range(lo, hi - 2):
        if (f.is_id(k) and f.is_p(k + 1, ".") and f.is_id(k + 2, "await") and not (k > lo and (f.is_p(k - 1, ".") or f.is_p(k - 1, "::")))
                and f.toks[k].text not in KEYWORDS):
            awaits.append(f.toks[k].text)
    return "{ binds := [%s], services := [%s], awaitsVars := [%s] }" % (
        ", ".join("(%s, %s)" % (o, lstr(n)) for o, n in binds),
        ", ".join("{ fn := %s, spawned := %s, awaited := %s, args := [%s], task := %s }" % (
            lstr(s["fn"]), "true" if s["spawned"] else "false", "true" if s["awaited"] else "false",
            ", ".join(lstr(a) for a in s["args"]), "some %s" % lstr(s["task"]) if s["task"] else "none") for s in services),
        ", ".join(lstr(a) for a in awaits))


def main_steps(f, ctx, fn_name):
    origins, (lo, hi) = origins_of(f, fn_name)
    fns = top_level_fns(f)
    steps, covered = [], []
    k = pending = lo

    def flush(upto):
        if pending < upto:
            steps.append(".plain %s" % acts_in(f, ctx, pending, upto, fns))
    while k < hi:
        t = f.toks[k]
        if f.is_id(k, "if") and not f.is_id(k + 1, "let"):
            b = f.find_top(k + 1, hi, lambda j: f.is_p(j, "{"))
            if b > 0 and guard_atoms_in(f, k + 1, b, origins):
                flush(k)
                cond = parse_gcond(f, k + 1, b, origins)
                covered.append((k + 1, b))
                tend = f.match[b]
                then = acts_in(f, ctx, b + 1, tend, fns)
                els, nxt = ".none", tend + 1
                if f.is_id(tend + 1, "else"):
                    e = tend + 2
                    if f.is_p(e, "{"):
                        els, nxt = "(.block %s)" % acts_in(f, ctx, e + 1, f.match[e], fns), f.match[e] + 1
                    elif (f.is_id(e, "if") and f.is_id(e + 1, "let") and f.is_id(e + 2, "Some") and f.is_p(e + 3, "(") and f.is_id(e + 4)
                          and f.is_p(e + 5, ")") and f.is_p(e + 6, "=") and f.is_id(e + 7) and f.is_p(e + 8, "{")):
                        c2 = f.match[e + 8]
                        if f.is_id(c2 + 1, "else"):
                            fail("`else` after `else if let` in fn %s" % fn_name, f.toks[c2 + 1].line)
                        els = "(.ifLetSome %s %s %s)" % (lstr(f.toks[e + 4].text), lstr(f.toks[e + 7].text), acts_in(f, ctx, e + 9, c2, fns))
                        nxt = c2 + 1
                    else:
                        fail("`else` branch of a mode guard in fn %s" % fn_name, f.toks[tend + 1].line)
                steps.append(".guarded %s\n      %s\n      %s" % (cond, then, els))
                k = pending = nxt
                continue
        if t.kind == "punct" and t.text in OPEN:
            k = f.match[k] + 1
            continue
        k += 1
    if pending < hi:
        steps.append(".plain %s" % acts_in(f, ctx, pending, hi, fns))
    for idx, o, r, p in guard_atoms_in(f, lo, hi, origins):
        if not any(a <= idx < b for a, b in covered):
            fail("`%s.enable_%s()` outside the condition of a top-level `if` of fn %s" % (r, p, fn_name), f.toks[idx].line)
    return steps


def receivers_of(f, fn_name):
    origins, (lo, hi) = origins_of(f, fn_name)
    return ["(.%s, %s, .%s)" % (o, lstr(r), p) for _, o, r, p in guard_atoms_in(f, lo, hi, origins)]


def emit_main(d):
    out = [MAIN_PRELUDE]
    out.append("/-- `main` of client.rs as steps -/")
    out.append("def clientMain : List MainStep := [\n  %s]" % ",\n  ".join(d["clientMain"]))
    out.append("")
    out.append("/-- every `enable_*` guard atom of `main` / `startup` of server.rs (origin, receiver, predicate) -/")
    out.append("def serverMainGuards : List (Origin × String × Pred) := [%s]" % ", ".join(d["serverMainGuards"]))
    out.append("/-- the guard atoms of `startup_tcp` / `startup_udp` of server/shadowsocks.rs -/")
    out.append("def ssGuards : List (Origin × String × Pred) := [%s]" % ", ".join(d["ssGuards"]))
    out.append("")
    return out


# ----------------------------------------------------------------------------------------------------------------------
# emission of parts 1 and 2
# ----------------------------------------------------------------------------------------------------------------------

def lstr(s):
    return '"%s"' % s


def l_ref(r):
    return "⟨%s, [%s], [%s]⟩" % ("some .m_%s" % r["mod"] if r["mod"] else "none", ", ".join(lstr(s) for s in r["segs"]),
                                 ", ".join(str(g) for g in r["gens"]))


def l_arg(a):
    k, v = a
    if k == "name":
        return ".name %s" % lstr(v)
    if k == "fn":
        return ".fn %s" % l_ref(v)
    if k == "closure":
        return ".closure [%s]" % ", ".join(l_ref(r) for r in v)
    return "." + k


def l_call(c):
    return "{ callee := %s, isMacro := %s, tried := %s, args := [%s] }" % (
        l_ref(c["ref"]), "true" if c["macro"] else "false", "true" if c["tried"] else "false", ", ".join(l_arg(a) for a in c["args"]))


def l_rhs(r, ind):
    pad = " " * ind
    return "{ line := %d, typeGenerics := [%s], calls := [\n%s]}" % (
        r["line"], ", ".join(str(g) for g in r["tgens"]), ",\n".join(pad + "  " + l_call(c) for c in r["calls"]))


def l_opt(p):
    return {"any": ".any", "none": ".none", "some": ".some"}[p[0]]


def l_cpat(p):
    if p[0] == "any":
        return "none"
    return "some [%s]" % ", ".join("." + v for v in p[1])


def l_ppat(p):
    if p is None or p[0] == "any":
        return "none"
    if len(p[1]) != 1:
        fail("alternatives in a protocol pattern", 0)
    return "some .%s" % p[1][0]


def emit_table(name, doc, arms):
    out = ["/-- %s -/" % doc, "def %s : List Arm := [" % name]
    rows = []
    for a in arms:
        pat = a["pat"]
        kind, body = a["body"]
        if kind == "direct":
            b = ".direct " + l_rhs(body, 6)
        else:
            b = ".byCipher [\n" + ",\n".join("      { ciphers := %s, rhs := %s }" % (l_cpat(i["pat"]), l_rhs(i, 8)) for i in body) + "]"
        rows.append("  { line := %d, proto := %s, ssl := %s, ws := %s, quic := %s,\n    body := %s }" % (
            a["line"], l_ppat(pat.get("protocol")), l_opt(pat.get("ssl", ("any",))), l_opt(pat.get("ws", ("any",))),
            l_opt(pat.get("quic", ("any",))), b))
    out.append(",\n".join(rows) + "]")
    return out


PRELUDE = r"""
/-- a pattern over an `Option` field: `None`, `Some(_)`, `_` -/
inductive OptPat where
  | none | some | any
deriving DecidableEq, Repr

def OptPat.matches : OptPat → Bool → Bool
  | .none, b => !b
  | .some, b => b
  | .any, _ => true

/-- a path as written: `vmess::udp::new_plain_outbound::<16>` -/
structure FnRef where
  mod : Option Mod
  segs : List String
  generics : List Nat
deriving DecidableEq, Repr

inductive Arg where
  | name (s : String)
  | fn (r : FnRef)
  | closure (refs : List FnRef)
  | lit
  | nested
deriving DecidableEq, Repr

structure Call where
  callee : FnRef
  isMacro : Bool
  tried : Bool
  args : List Arg
deriving DecidableEq, Repr

/-- the right-hand side of an arm: its call sites in source order -/
structure Rhs where
  line : Nat
  typeGenerics : List Nat
  calls : List Call
deriving DecidableEq, Repr

structure CArm where
  ciphers : Option (List Cipher)      -- `none` = `_`
  rhs : Rhs
deriving Repr

inductive Body where
  | direct (r : Rhs)
  | byCipher (arms : List CArm)
deriving Repr

structure Arm where
  line : Nat
  proto : Option Proto                -- `none` = `_` / not in the scrutinee
  ssl : OptPat
  ws : OptPat
  quic : OptPat
  body : Body
deriving Repr

/-- a configuration, as far as the dispatch looks at it -/
structure Cfg where
  proto : Proto
  cipher : Cipher
  ssl : Bool
  ws : Bool
  quic : Bool
deriving DecidableEq, Repr

def Cfg.all : List Cfg :=
  Proto.all.flatMap fun p => Cipher.all.flatMap fun c =>
    [false, true].flatMap fun s => [false, true].flatMap fun w => [false, true].map fun q => ⟨p, c, s, w, q⟩

def Arm.matches (a : Arm) (c : Cfg) : Bool :=
  (match a.proto with | none => true | some p => p == c.proto) && a.ssl.matches c.ssl && a.ws.matches c.ws && a.quic.matches c.quic

def CArm.matches (a : CArm) (k : Cipher) : Bool :=
  match a.ciphers with
  | none => true
  | some l => l.contains k

/-- Rust's `match` on the cipher: the first arm that matches -/
def selectC (arms : List CArm) (k : Cipher) : Option Rhs := (arms.find? (·.matches k)).map (·.rhs)

/-- Rust's `match`: the first arm that matches, then (nested `match x.cipher`) the first inner arm -/
def select (t : List Arm) (c : Cfg) : Option Rhs :=
  match t.find? (·.matches c) with
  | none => none
  | some a =>
    match a.body with
    | .direct r => some r
    | .byCipher as => selectC as c.cipher

/-- the index of the arm `select` takes -/
def selectIdx (t : List Arm) (c : Cfg) : Option Nat := t.findIdx? (·.matches c)

/-- an arm of the server's accept `match (&config.ssl, &config.ws)` -/
structure SrvArm where
  line : Nat
  ssl : OptPat
  ws : OptPat
  tls : Bool
  onWs : FnRef
  onNoWs : FnRef
deriving Repr

/-- (behind TLS?, the relay function) for a configuration -/
def srvSelect (t : List SrvArm) (ssl ws : Bool) : Option (Bool × FnRef) :=
  (t.find? fun a => a.ssl.matches ssl && a.ws.matches ws).map fun a => (a.tls, if ws then a.onWs else a.onNoWs)

inductive Cond where
  | tcp | udp | quic
  | not (c : Cond)
  | and (a b : Cond)
  | or (a b : Cond)
deriving Repr

inductive Open where
  | tcp | udp | quic | quicIfSection
deriving DecidableEq, Repr

inductive Step where
  | retIf (c : Cond)
  | branch (c : Cond) (t e : List Open)
  | opens (o : List Open)
deriving Repr

def Cond.eval (m : Mode) : Cond → Bool
  | .tcp => enableTcp m
  | .udp => enableUdp m
  | .quic => enableQuic m
  | .not c => !(c.eval m)
  | .and a b => a.eval m && b.eval m
  | .or a b => a.eval m || b.eval m

/-- what a function body opens under a mode (in order), stopping at the first early return that fires -/
def runSteps (m : Mode) : List Step → List Open
  | [] => []
  | .retIf c :: rest => if c.eval m then [] else runSteps m rest
  | .branch c t e :: rest => (if c.eval m then t else e) ++ runSteps m rest
  | .opens o :: rest => o ++ runSteps m rest
"""


def load(root, rel, files):
    p = os.path.join(root, rel)
    if not os.path.exists(p):
        q = os.path.join(root, FLAT[rel])
        if os.path.exists(q):
            p = q
    f = File(p)
    files[rel] = f
    return f


def extract(root):
    files = {}
    fc = load(root, F_CLIENT, files)
    ft = load(root, F_CTEMPLATE, files)
    fs = load(root, F_SERVER, files)
    fss = load(root, F_SSSERVER, files)
    fcfg = load(root, F_CONFIG, files)
    fp = load(root, F_PROTOCOL, files)
    fa = load(root, F_AEAD, files)
    protos = read_enum(fp, "Protocol")
    ciphers = read_enum(fa, "CipherKind")
    modes = read_enum(fcfg, "Mode")
    mods = []
    for m in read_mods(fc) + read_mods(fs):
        if m not in mods:
            mods.append(m)
    ctx = Ctx(protos, ciphers, modes, mods)
    d = {"ctx": ctx}
    d["clientTcp"] = table_of(fc, ctx, "transfer_tcp", ["protocol"])
    d["clientUdp"] = table_of(fc, ctx, "transfer_udp", ["protocol", "ssl", "ws", "quic"])
    d["clientTransport"] = table_of(ft, ctx, "try_transfer_tcp", ["ssl", "ws", "quic"])
    d["tcpParams"] = fn_params(ft, "transfer_tcp")
    d["udpParams"] = fn_params(ft, "transfer_udp")
    d["serverStartup"] = table_of(fs, ctx, "startup", ["protocol"])
    d["serverAccept"] = server_accept(fs, ctx)
    # server/shadowsocks.rs `startup`: `match config.cipher` at the top
    d["ssStartup"] = table_of(fss, ctx, "startup", ["cipher"], allow_inner=False)
    summaries = {}
    summaries["startup_tcp"] = opens_in(fs, ctx, *find_fn(fs, "startup_tcp", None)[2], {})
    summaries["startup_quic"] = opens_in(fs, ctx, *find_fn(fs, "startup_quic", None)[2], {})
    d["summaries"] = summaries
    d["ssTcpSteps"] = steps_of(fss, ctx, "startup_tcp", summaries)
    d["ssUdpSteps"] = steps_of(fss, ctx, "startup_udp", summaries)
    d["modeSets"] = {n: mode_set(fcfg, ctx, n) for n in ("enable_tcp", "enable_udp", "enable_quic")}
    d["clientMain"] = main_steps(fc, ctx, "main")
    d["serverMainGuards"] = receivers_of(fs, "main") + receivers_of(fs, "startup")
    d["ssGuards"] = receivers_of(fss, "startup_tcp") + receivers_of(fss, "startup_udp")
    return files, d


def emit_dispatch(d):
    ctx = d["ctx"]
    out = []

    def enum(name, doc, vs, prefix=""):
        out.append("/-- %s -/" % doc)
        out.append("inductive %s where" % name)
        out.append("  | " + " | ".join(prefix + v for v in vs))
        out.append("deriving DecidableEq, Repr")
        out.append("def %s.all : List %s := [%s]" % (name, name, ", ".join("." + prefix + v for v in vs)))
        out.append("")
    enum("Proto", "`enum Protocol` (protocol.rs)", ctx.protos)
    enum("Cipher", "`enum CipherKind` (codec/aead.rs)", ctx.ciphers)
    enum("Mode", "`enum Mode` (config.rs)", ctx.modes)
    enum("Mod", "the `mod` items of client.rs and server.rs", ctx.mods, "m_")
    for n, lean in (("enable_tcp", "Tcp"), ("enable_udp", "Udp"), ("enable_quic", "Quic")):
        out.append("/-- the `matches!` set of `Mode::%s` (config.rs) -/" % n)
        out.append("def mode%sSet : List Mode := [%s]" % (lean, ", ".join("." + v for v in d["modeSets"][n])))
        out.append("def enable%s (m : Mode) : Bool := mode%sSet.contains m" % (lean, lean))
    out.append("/-- the variant names, as written -/")
    out.append("def Mode.name : Mode → String\n" + "\n".join("  | .%s => %s" % (v, lstr(v)) for v in ctx.modes))
    out.append("def Cipher.name : Cipher → String\n" + "\n".join("  | .%s => %s" % (v, lstr(v)) for v in ctx.ciphers))
    out.append("def Proto.name : Proto → String\n" + "\n".join("  | .%s => %s" % (v, lstr(v)) for v in ctx.protos))
    out.append(PRELUDE)
    arms, line = d["clientTcp"]
    out += emit_table("clientTcp", "`transfer_tcp` of client.rs: `match current.protocol` (line %d)" % line, arms)
    out.append("")
    arms, line = d["clientUdp"]
    out += emit_table("clientUdp", "`transfer_udp` of client.rs: `match (current.protocol, &current.ssl, &current.ws, &current.quic)` (line %d)" % line, arms)
    out.append("")
    arms, line = d["clientTransport"]
    out += emit_table("clientTransport", "`try_transfer_tcp` of client/template.rs: `match (&config.ssl, &config.ws, &config.quic)` (line %d)" % line, arms)
    out.append("")
    out.append("/-- the parameter names of `template::transfer_tcp` / `template::transfer_udp` (client/template.rs), in order -/")
    out.append("def templateTcpParams : List String := [%s]" % ", ".join(lstr(p) for p in d["tcpParams"]))
    out.append("def templateUdpParams : List String := [%s]" % ", ".join(lstr(p) for p in d["udpParams"]))
    out.append("")
    arms, line = d["serverStartup"]
    out += emit_table("serverStartup", "`startup` of server.rs: `match config.protocol` (line %d)" % line, arms)
    out.append("")
    sarms, line = d["serverAccept"]
    out.append("/-- `startup_tcp` of server.rs: `match (&config.ssl, &config.ws)` (line %d) -/" % line)
    out.append("def serverAccept : List SrvArm := [")
    out.append(",\n".join("  { line := %d, ssl := %s, ws := %s, tls := %s, onWs := %s, onNoWs := %s }" % (
        a["line"], l_opt(a["ssl"]), l_opt(a["ws"]), "true" if a["tls"] else "false", l_ref(a["onWs"]), l_ref(a["onNoWs"])) for a in sarms) + "]")
    out.append("")
    arms, line = d["ssStartup"]
    out.append("/-- `startup` of server/shadowsocks.rs: `match config.cipher` (line %d) -/" % line)
    out.append("def ssStartup : List CArm := [")
    out.append(",\n".join("  { ciphers := %s, rhs := %s }" % (l_cpat(a["pat"]["cipher"]), l_rhs(a["body"][1], 4)) for a in arms) + "]")
    out.append("")
    out.append("/-- what `startup_tcp` / `startup_quic` of server.rs open -/")
    out.append("def serverStartupTcpOpens : List Open := [%s]" % ", ".join(d["summaries"]["startup_tcp"]))
    out.append("def serverStartupQuicOpens : List Open := [%s]" % ", ".join(d["summaries"]["startup_quic"]))
    out.append("/-- `startup_tcp` / `startup_udp` of server/shadowsocks.rs as steps -/")
    out.append("def ssStartupTcpSteps : List Step := [%s]" % ",\n  ".join(d["ssTcpSteps"]))
    out.append("def ssStartupUdpSteps : List Step := [%s]" % ",\n  ".join(d["ssUdpSteps"]))
    out.append("")
    out += emit_main(d)
    return out


def emit(root, files, d, keys):
    out = []
    out.append("/- GENERATED by translate_dispatch.py — do not edit.")
    out.append("   source: %s (root of the checkout)" % root)
    h = hashlib.sha256()
    for rel in sorted(files):
        h.update(files[rel].sha.encode())
    out.append("   sha256: %s (of the sha256 of the files below, in this order)" % h.hexdigest())
    for rel in sorted(files):
        out.append("     - %s (sha256 %s)" % (rel, files[rel].sha))
    out.append("   assumed externals (parts 1, 2): none are called - functions are named, not modelled.")
    for l in keys["header"]:
        out.append("   " + l)
    out.append(RULES.rstrip("\n"))
    out.append(MAIN_RULES.rstrip("\n"))
    out.append(keys["rules"].rstrip("\n"))
    out.append("-/")
    for imp in keys["imports"]:
        out.append(imp)
    out.append("")
    out.append("namespace Octo.DispatchGen")
    out.append("")
    out += emit_dispatch(d)
    out += keys["body"]
    out.append("end Octo.DispatchGen")
    return "\n".join(out) + "\n"


# ----------------------------------------------------------------------------------------------------------------------
# part 3: the key derivations - a statement-by-statement translation of a small Rust subset
# ----------------------------------------------------------------------------------------------------------------------

KEYS_RULES = r"""
   PART 3 (keys): TRANSLATED SUBSET.  Functions become Lean functions `(E : Ext) (ov : Bool) (N : Nat) -> .. -> Out _`
   (`N` = the const generic; `ov` = overflow checks on; `Out` = ok | err (`Err(..)` of the function: the base64ct error, its
   kind is not kept) | panic | timeout (a `while` that did not end within its fuel = the bound of its `<` guard + 1)).
   Statements: `let [mut] x [: T] = e;`  `x = e;`  `x += e;`  `r.copy_from_slice(e);` with r = `x`, `x[..b]`, `x[a..]`, `x[a..b]`
   (panics unless the range is in bounds and the lengths are equal)  `h.update(e);`  `v.push(e);`  `self.f.insert(k, v);`
   `while a < b {..}`  `for s in e.split('c') {..}`  `if c { return Err(..); }`  `e?;`  and a tail expression.
   Expressions: locals, integer literals, `N`, `+` `-` (checked when `ov`, wrapping at 2^64 else), `<` `!=` `==`, `.len()` (of a `&str`: its UTF-8 byte size),
   `.min(..)`, `&e`, `e[..b]` `e[a..]` (panic when out of bounds), `[0; n]`, `vec![0; n]`, `Vec::new()`, `HashMap::new()`,
   `.clone()` / `.cloned()` / `.as_bytes()` of a blake3 hash / `Arc::new(..)` / `.map(AsRef::as_ref)` (identity), `.remove(i)`
   (panics when out of bounds), field access, struct literals, tuples, `Ok(..)`, `Err(..)`, calls of translated functions.
   ASSUMED EXTERNALS (fields of `Ext`, never defaulted):
     md5    : `Md5::new()` + `update(x)`.. + `finalize_reset()` = `E.md5` of the concatenation of the updates since the last reset;
     b64    : `Base64::decode_vec(s)` = `E.b64 s` (`none` = `Err`);  `Base64::decode(s, &mut dst)` = `Err` when `E.b64 s` is `none` or
              longer than `dst`, else the decoded bytes, written over the front of `dst` (the rest of `dst` is unchanged);
     blake3 : `blake3::hash(x)` (`.as_bytes()`) = `E.blake3 x`;
     `HashMap<[u8; 16], _>` = an association list with unique keys (`insert` replaces, `get` finds, `len` counts): the std semantics.
   `s.split(':')` = `String.splitOn ":"`.  `Arc` and references are erased.
"""

KEYS_PRELUDE = r"""
/-! ## part 3: keys -/

inductive Out (α : Type) where
  | ok (a : α) | err | panic | timeout
deriving Repr, DecidableEq

def Out.bind {α β : Type} : Out α → (α → Out β) → Out β
  | .ok a, f => f a
  | .err, _ => .err
  | .panic, _ => .panic
  | .timeout, _ => .timeout

/-- the assumed externals -/
structure Ext where
  md5 : List UInt8 → List UInt8
  b64 : String → Option (List UInt8)
  blake3 : List UInt8 → List UInt8

def uadd (ov : Bool) (a b : Nat) : Out Nat :=
  if a + b < 2 ^ 64 then .ok (a + b) else if ov then .panic else .ok (a + b - 2 ^ 64)

def usub (ov : Bool) (a b : Nat) : Out Nat :=
  if b ≤ a then .ok (a - b) else if ov then .panic else .ok (a + 2 ^ 64 - b)

/-- `&x[lo..hi]` -/
def sliceRange (x : List UInt8) (lo hi : Nat) : Out (List UInt8) :=
  if lo ≤ hi ∧ hi ≤ x.length then .ok ((x.take hi).drop lo) else .panic

/-- `dst[lo..hi].copy_from_slice(src)`: the new `dst` -/
def copyInto (dst : List UInt8) (lo hi : Nat) (src : List UInt8) : Out (List UInt8) :=
  if lo ≤ hi ∧ hi ≤ dst.length then
    if src.length = hi - lo then .ok (dst.take lo ++ src ++ dst.drop hi) else .panic
  else .panic

/-- `Base64::decode(s, &mut dst)`: (the new `dst`, the decoded slice) -/
def decodeInto (E : Ext) (s : String) (dst : List UInt8) : Out (List UInt8 × List UInt8) :=
  match E.b64 s with
  | none => .err
  | some b => if b.length ≤ dst.length then .ok (b ++ dst.drop b.length, b) else .err

/-- `Base64::decode_vec(s)` -/
def decodeVec (E : Ext) (s : String) : Out (List UInt8) :=
  match E.b64 s with
  | none => .err
  | some b => .ok b

/-- `v.remove(i)`: (the new `v`, the removed element) -/
def vecRemove {α : Type} (v : List α) (i : Nat) : Out (List α × α) :=
  match v[i]? with
  | some a => .ok (v.eraseIdx i, a)
  | none => .panic

/-- `HashMap<[u8; 16], V>` -/
abbrev HashMap (V : Type) := List (List UInt8 × V)

def HashMap.insert {V : Type} (m : HashMap V) (k : List UInt8) (v : V) : HashMap V :=
  if m.any (fun p => p.1 == k) then m.map (fun p => if p.1 == k then (k, v) else p) else m ++ [(k, v)]

def HashMap.get {V : Type} (m : HashMap V) (k : List UInt8) : Option V := (m.find? (fun p => p.1 == k)).map (·.2)
"""

LEAN_TY = {"nat": "Nat", "bytes": "List UInt8", "str": "String", "hasher": "List UInt8", "vecbytes": "List (List UInt8)",
           "strs": "List String", "bool": "Bool", "user": "ServerUser", "cfguser": "User", "mgr": "ServerUserManager",
           "map": "HashMap ServerUser", "optuser": "Option ServerUser"}


class KExpr:
    """Pratt parser over the token list -> tuples"""

    def __init__(self, f, lo, hi):
        self.f, self.i, self.hi = f, lo, hi

    def peek(self, text=None):
        if self.i >= self.hi:
            return False
        t = self.f.toks[self.i]
        return t.kind == "punct" and (text is None or t.text == text)

    def idp(self, text=None):
        return self.i < self.hi and self.f.is_id(self.i, text)

    def line(self):
        return self.f.toks[min(self.i, self.hi - 1)].line

    def expect(self, text):
        if not self.peek(text):
            fail("expected `%s` at `%s`" % (text, self.f.toks[self.i].text), self.line())
        self.i += 1

    def expr(self, min_prec=0):
        l = self.unary()
        PREC = {"||": 1, "&&": 2, "==": 3, "!=": 3, "<": 3, ">": 3, "<=": 3, ">=": 3, "+": 5, "-": 5, "*": 6}
        while self.i < self.hi and self.f.toks[self.i].kind == "punct" and self.f.toks[self.i].text in PREC:
            op = self.f.toks[self.i].text
            p = PREC[op]
            if p < min_prec or p == min_prec and False:
                break
            if p <= min_prec - 1:
                break
            self.i += 1
            r = self.expr(p + 1)
            l = ("bin", op, l, r)
        return l

    def unary(self):
        if self.peek("&"):
            self.i += 1
            mut = False
            if self.idp("mut"):
                mut = True
                self.i += 1
            return ("ref", self.unary(), mut)
        if self.peek("!"):
            self.i += 1
            return ("not", self.unary())
        return self.postfix(self.primary())

    def args(self):
        """after `(`: comma separated expressions up to the matching `)`"""
        close = self.f.match[self.i - 1]
        out = []
        while self.i < close:
            sub = KExpr(self.f, self.i, close)
            out.append(sub.expr())
            self.i = sub.i
            if self.i < close:
                self.expect(",")
        self.i = close + 1
        return out

    def primary(self):
        f = self.f
        if self.i >= self.hi:
            fail("expression expected", self.line())
        t = f.toks[self.i]
        if t.kind == "int":
            self.i += 1
            return ("int", int(t.text.replace("_", ""), 0))
        if t.kind == "char":
            self.i += 1
            return ("char", t.text[1:-1])
        if self.peek("("):
            self.i += 1
            a = self.args()
            return a[0] if len(a) == 1 else ("tuple", a)
        if self.peek("["):
            close = f.match[self.i]
            sub = KExpr(f, self.i + 1, close)
            v = sub.expr()
            sub.expect(";")
            n = sub.expr()
            if sub.i != close:
                fail("array expression", t.line)
            self.i = close + 1
            return ("rep", v, n)
        if t.kind == "ident" and (t.text not in KEYWORDS or t.text in ("self", "Self")):
            segs, gens, e = parse_path(f, self.i, self.hi, strict=False)
            self.i = e
            if self.peek("!") and self.i + 1 < self.hi and f.is_p(self.i + 1, "["):
                if segs != ["vec"]:
                    fail("macro `%s!`" % "::".join(segs), t.line)
                close = f.match[self.i + 1]
                sub = KExpr(f, self.i + 2, close)
                v = sub.expr()
                sub.expect(";")
                n = sub.expr()
                if sub.i != close:
                    fail("`vec![..]` that is not `vec![v; n]`", t.line)
                self.i = close + 1
                return ("rep", v, n)
            if self.peek("("):
                self.i += 1
                return ("call", segs, self.args())
            if self.peek("{") and segs[-1][0].isupper():
                close = f.match[self.i]
                fields = []
                for a, b in split_commas(f, self.i + 1, close):
                    if not f.is_id(a):
                        fail("struct literal field", f.toks[a].line)
                    if b == a + 1:
                        fields.append((f.toks[a].text, ("path", [f.toks[a].text])))
                    else:
                        if not f.is_p(a + 1, ":"):
                            fail("struct literal field", f.toks[a].line)
                        sub = KExpr(f, a + 2, b)
                        fields.append((f.toks[a].text, sub.expr()))
                        if sub.i != b:
                            fail("struct literal field `%s`" % f.toks[a].text, f.toks[a].line)
                self.i = close + 1
                return ("struct", segs[-1], fields)
            return ("path", segs)
        fail("expression `%s`" % t.text, t.line)

    def postfix(self, e):
        f = self.f
        while self.i < self.hi:
            if self.peek("?"):
                self.i += 1
                e = ("try", e)
            elif self.peek(".") and f.is_id(self.i + 1):
                name = f.toks[self.i + 1].text
                self.i += 2
                if self.peek("("):
                    self.i += 1
                    e = ("mcall", e, name, self.args())
                else:
                    e = ("field", e, name)
            elif self.peek("["):
                close = f.match[self.i]
                d = f.find_top(self.i + 1, close, lambda j: f.is_p(j, ".."))
                if d < 0:
                    fail("indexing without a range", f.toks[self.i].line)
                lo = hi = None
                if d > self.i + 1:
                    sub = KExpr(f, self.i + 1, d)
                    lo = sub.expr()
                    if sub.i != d:
                        fail("range bound", f.toks[d].line)
                if d + 1 < close:
                    sub = KExpr(f, d + 1, close)
                    hi = sub.expr()
                    if sub.i != close:
                        fail("range bound", f.toks[d].line)
                self.i = close + 1
                e = ("index", e, lo, hi)
            else:
                break
        return e


class KFn:
    """one function: statements -> Lean text"""

    def __init__(self, f, unit, lean_name, self_ty=None):
        self.f, self.unit, self.lean_name, self.self_ty = f, unit, lean_name, self_ty
        self.aux = []         # auxiliary loop definitions (text)
        self.tmp = 0
        self.nloop = 0
        self.params = []      # (lean name, tag)

    def fresh(self, base="t"):
        self.tmp += 1
        return "%s_%d" % (base, self.tmp)

    # ---- environment: rust name -> (lean name, tag); ordered
    def bind_new(self, env, name, tag):
        used = {v[0] for v in env.values()}
        lean = name if name not in ("end", "at", "from", "open", "fun", "show", "have", "then", "do") else name + "_"
        k = 0
        while lean in used:
            k += 1
            lean = "%s_%d" % (name, k)
        env = dict(env)
        env[name] = (lean, tag)
        return env, lean

    def tag_of_type(self, lo, hi):
        f = self.f
        txt = "".join(f.toks[k].text for k in range(lo, hi))
        txt = txt.replace("&", "").replace("mut", "", 1) if txt.startswith("&mut") else txt.replace("&", "")
        if txt == "[u8]" or txt.startswith("[u8;") or txt == "Vec<u8>":
            return "bytes"
        if txt in ("str", "String"):
            return "str"
        if txt == "usize":
            return "nat"
        if txt == "User":
            return "cfguser"
        if txt.startswith("ServerUser<"):
            return "user"
        if txt.startswith("Vec<[u8;"):
            return "vecbytes"
        fail("type `%s`" % txt, f.toks[lo].line)

    # ---- expressions: returns (pre lines, atom, tag); may re-bind variables (env is mutated in place through self.env)
    def tx(self, e, want=None):
        k = e[0]
        env = self.env
        if k == "int":
            return [], str(e[1]), "nat"
        if k == "path":
            segs = e[1]
            if len(segs) == 1:
                n = segs[0]
                if n in env:
                    return [], env[n][0], env[n][1]
                if n == "N":
                    return [], "N", "nat"
                if n == "self" and self.self_ty:
                    return [], "self", self.self_ty
            fail("name `%s`" % "::".join(segs), self.line)
        if k == "ref":
            return self.tx(e[1], want)
        if k == "field":
            pre, a, t = self.tx(e[1])
            fields = self.unit.fields.get(t)
            if fields is None or e[2] not in fields:
                fail("field `.%s` of a value of kind %s" % (e[2], t), self.line)
            return pre, "%s.%s" % (a, e[2]), fields[e[2]]
        if k == "bin":
            op = e[1]
            p1, a, t1 = self.tx(e[2])
            p2, b, t2 = self.tx(e[3])
            if op in ("+", "-"):
                if (t1, t2) != ("nat", "nat"):
                    fail("arithmetic on non-usize values", self.line)
                t = self.fresh()
                return p1 + p2 + ["Out.bind (%s ov %s %s) fun %s =>" % ("uadd" if op == "+" else "usub", a, b, t)], t, "nat"
            if op in ("<", "<=", ">", ">="):
                if (t1, t2) != ("nat", "nat"):
                    fail("comparison of non-usize values", self.line)
                return p1 + p2, "(decide (%s %s %s))" % (a, {"<": "<", "<=": "≤", ">": ">", ">=": "≥"}[op], b), "bool"
            if op in ("==", "!="):
                if t1 != t2 or t1 not in ("nat", "bytes"):
                    fail("equality of values of kinds %s / %s" % (t1, t2), self.line)
                return p1 + p2, "(%s %s %s)" % (a, "==" if op == "==" else "!=", b), "bool"
            if op in ("&&", "||"):
                if p2:
                    fail("effects on the right of `%s`" % op, self.line)
                return p1, "(%s %s %s)" % (a, op, b), "bool"
            fail("operator `%s`" % op, self.line)
        if k == "not":
            p, a, t = self.tx(e[1])
            if t != "bool":
                fail("`!` on a non-bool", self.line)
            return p, "(!%s)" % a, "bool"
        if k == "rep":
            if e[1] != ("int", 0):
                fail("array / vec of a value other than 0", self.line)
            p, n, t = self.tx(e[2])
            return p, "(List.replicate %s (0 : UInt8))" % n, "bytes"
        if k == "index":
            p, a, t = self.tx(e[1])
            if t != "bytes":
                fail("slicing a value of kind %s" % t, self.line)
            pl, lo, _ = self.tx(e[2]) if e[2] is not None else ([], "0", "nat")
            ph, hi, _ = self.tx(e[3]) if e[3] is not None else ([], "%s.length" % a, "nat")
            r = self.fresh()
            return p + pl + ph + ["Out.bind (sliceRange %s %s %s) fun %s =>" % (a, lo, hi, r)], r, "bytes"
        if k == "tuple":
            pre, atoms = [], []
            for x in e[1]:
                p, a, _ = self.tx(x)
                pre += p
                atoms.append(a)
            return pre, "(%s)" % ", ".join(atoms), "tuple"
        if k == "struct":
            name = e[1]
            if name == "Self":
                name = {"user": "ServerUser", "mgr": "ServerUserManager"}.get(self.self_ty or self.ret_self, None)
            tag = {"ServerUser": "user", "ServerUserManager": "mgr"}.get(name)
            if tag is None:
                fail("struct literal `%s`" % e[1], self.line)
            pre, fs = [], []
            for fname, fe in e[2]:
                if fname not in self.unit.fields[tag]:
                    fail("field `%s` of %s" % (fname, name), self.line)
                p, a, _ = self.tx(fe, self.unit.fields[tag][fname])
                pre += p
                fs.append("%s := %s" % (fname, a))
            if sorted(x[0] for x in e[2]) != sorted(self.unit.fields[tag]):
                fail("struct literal `%s` does not give every field" % name, self.line)
            return pre, "({ %s } : %s)" % (", ".join(fs), name), tag
        if k == "try":
            inner = e[1]
            if inner[0] == "call" and inner[1][-2:] == ["Base64", "decode_vec"] and len(inner[2]) == 1:
                p, a, t = self.tx(inner[2][0])
                if t != "str":
                    fail("`decode_vec` of a non-string", self.line)
                r = self.fresh()
                return p + ["Out.bind (decodeVec E %s) fun %s =>" % (a, r)], r, "bytes"
            if inner[0] == "call" and inner[1][-2:] == ["Base64", "decode"] and len(inner[2]) == 2:
                p, a, t = self.tx(inner[2][0])
                dst = inner[2][1]
                if t != "str" or not (dst[0] == "ref" and dst[2] and dst[1][0] == "path" and len(dst[1][1]) == 1 and dst[1][1][0] in env
                                      and env[dst[1][1][0]][1] == "bytes"):
                    fail("`Base64::decode(s, &mut buffer)` with other arguments", self.line)
                d = env[dst[1][1][0]][0]
                r = self.fresh()
                return p + ["Out.bind (decodeInto E %s %s) fun (%s, %s) =>" % (a, d, d, r)], r, "bytes"
            fail("`?` on an expression other than `Base64::decode_vec(..)` / `Base64::decode(.., &mut ..)`", self.line)
        if k == "call":
            segs, args = e[1], e[2]
            if segs in (["Md5", "new"],) and not args:
                return [], "([] : List UInt8)", "hasher"
            if segs == ["Vec", "new"] and not args:
                return [], "[]", want or "vec?"
            if segs == ["Vec", "with_capacity"] and len(args) == 1:
                return [], "[]", want or "vec?"
            if segs == ["HashMap", "new"] and not args:
                return [], "([] : HashMap ServerUser)", "map"
            if segs == ["Arc", "new"] and len(args) == 1:
                return self.tx(args[0])
            if segs == ["blake3", "hash"] and len(args) == 1:
                p, a, t = self.tx(args[0])
                if t != "bytes":
                    fail("`blake3::hash` of a non-byte value", self.line)
                return p, "(E.blake3 %s)" % a, "bytes"
            if segs == ["Ok"] and len(args) == 1:
                p, a, t = self.tx(args[0])
                return p, "(Out.ok %s)" % a, "out"
            if segs == ["Err"] and len(args) == 1:
                if args[0][0] != "path":
                    fail("`Err(..)` of a computed value", self.line)
                return [], "Out.err", "out"
            if len(segs) == 1 and segs[0] in self.unit.fns:
                callee = self.unit.fns[segs[0]]
                pre, atoms = [], []
                for x in args:
                    p, a, _ = self.tx(x)
                    pre += p
                    atoms.append(a)
                return pre, "(%s E ov N %s)" % (callee, " ".join(atoms)), "out"
            fail("call of `%s`" % "::".join(segs), self.line)
        if k == "mcall":
            recv, name, args = e[1], e[2], e[3]
            if name in ("clone", "cloned", "to_owned") and not args:
                return self.tx(recv)
            if name == "map" and args == [("path", ["AsRef", "as_ref"])]:
                return self.tx(recv)
            p, a, t = self.tx(recv)
            if name == "len" and not args and t in ("bytes", "vecbytes", "map", "hasher", "vec?"):
                return p, "%s.length" % a, "nat"
            if name == "len" and not args and t == "str":
                return p, "%s.utf8ByteSize" % a, "nat"
            if name == "as_bytes" and not args and t == "bytes":
                return p, a, "bytes"
            if name == "min" and len(args) == 1 and t == "nat":
                p2, b, t2 = self.tx(args[0])
                if t2 != "nat":
                    fail("`.min` of a non-usize", self.line)
                return p + p2, "(Nat.min %s %s)" % (a, b), "nat"
            if name == "split" and len(args) == 1 and args[0][0] == "char" and t == "str" and len(args[0][1]) == 1:
                return p, '(%s.splitOn "%s")' % (a, args[0][1]), "strs"
            if name == "finalize_reset" and not args and t == "hasher" and recv[0] == "path":
                r = self.fresh("digest")
                return p + ["let %s := E.md5 %s" % (r, a), "let %s : List UInt8 := []" % a], r, "bytes"
            if name == "remove" and len(args) == 1 and t == "vecbytes" and recv[0] == "path":
                p2, i, t2 = self.tx(args[0])
                r = self.fresh()
                return p + p2 + ["Out.bind (vecRemove %s %s) fun (%s, %s) =>" % (a, i, a, r)], r, "bytes"
            if name == "get" and len(args) == 1 and t == "map":
                p2, b, t2 = self.tx(args[0])
                if t2 != "bytes":
                    fail("`.get` with a non-byte key", self.line)
                return p + p2, "(HashMap.get %s %s)" % (a, b), "optuser"
            if t in ("user", "mgr") and name in self.unit.methods.get(t, {}) and not args:
                r = self.fresh()
                return p + ["Out.bind (%s E ov N %s) fun %s =>" % (self.unit.methods[t][name][0], a, r)], r, self.unit.methods[t][name][1]
            fail("method `.%s(..)` on a value of kind %s" % (name, t), self.line)
        fail("expression form `%s`" % k, self.line)

    # ---- statements
    def split_stmts(self, lo, hi):
        """[(kind, ...)] of the block [lo, hi)"""
        f = self.f
        out = []
        k = lo
        while k < hi:
            line = f.toks[k].line
            if f.is_id(k, "let"):
                e = f.find_top(k, hi, lambda j: f.is_p(j, ";"))
                if e < 0:
                    fail("`let` without `;`", line)
                a = k + 1
                mut = False
                if f.is_id(a, "mut"):
                    mut, a = True, a + 1
                if not f.is_id(a):
                    fail("`let` pattern", line)
                eq = f.find_top(a + 1, e, lambda j: f.is_p(j, "="))
                if eq < 0:
                    fail("`let` without initialiser", line)
                ty = None
                if f.is_p(a + 1, ":"):
                    ty = (a + 2, eq)
                elif eq != a + 1:
                    fail("`let` pattern", line)
                out.append(("let", line, f.toks[a].text, ty, (eq + 1, e)))
                k = e + 1
            elif f.is_id(k, "while") or f.is_id(k, "for") or f.is_id(k, "if"):
                b = f.find_top(k + 1, hi, lambda j: f.is_p(j, "{"))
                if b < 0:
                    fail("block expected", line)
                c = f.match[b]
                if f.is_id(k, "if") and f.is_id(c + 1, "else"):
                    fail("`if .. else` statement", line)
                if f.is_id(k, "for"):
                    if not (f.is_id(k + 1) and f.is_id(k + 2, "in")):
                        fail("`for` pattern", line)
                    out.append(("for", line, f.toks[k + 1].text, (k + 3, b), (b + 1, c)))
                else:
                    out.append((f.toks[k].text, line, (k + 1, b), (b + 1, c)))
                k = c + 1
            elif f.is_id(k, "return"):
                e = f.find_top(k, hi, lambda j: f.is_p(j, ";"))
                if e < 0:
                    e = hi
                out.append(("return", line, (k + 1, e)))
                k = e + 1
            elif f.is_id(k, "use"):
                fail("`use` inside a function", line)
            else:
                e = f.find_top(k, hi, lambda j: f.is_p(j, ";"))
                if e < 0:
                    out.append(("tail", line, (k, hi)))
                    k = hi
                else:
                    asg = f.find_top(k, e, lambda j: f.is_p(j, "=") or f.is_p(j, "+="))
                    if asg > 0:
                        out.append(("assign", line, f.toks[asg].text, (k, asg), (asg + 1, e)))
                    else:
                        out.append(("expr", line, (k, e)))
                    k = e + 1
        return out

    def parse(self, lo, hi):
        p = KExpr(self.f, lo, hi)
        e = p.expr()
        if p.i != hi:
            fail("trailing tokens `%s` in an expression" % self.f.toks[p.i].text, self.f.toks[p.i].line)
        return e

    def state_vars(self, env):
        return [(n, v[0], v[1]) for n, v in env.items() if n not in self.param_names]

    def tx_stmts(self, stmts, tail):
        """lines for the statements, then `tail()` (a function returning the final lines)"""
        lines = []
        for idx, s in enumerate(stmts):
            kind = s[0]
            self.line = s[1]
            if kind == "let":
                _, _, name, ty, (a, b) = s
                want = self.tag_of_type(*ty) if ty else None
                p, atom, t = self.tx(self.parse(a, b), want)
                if t == "out" or t == "tuple":
                    fail("`let` of a Result / tuple value", self.line)
                if want and t not in (want, "vec?") and not (want == "bytes" and t == "bytes"):
                    fail("`let %s: ..` annotated %s, initialiser of kind %s" % (name, want, t), self.line)
                self.env, lean = self.bind_new(self.env, name, want or t)
                if (want or t) == "vec?":
                    self.late.append((name, lean))
                    lines += p + ["let %s : «KIND:%s» := %s" % (lean, lean, atom)]
                else:
                    lines += p + ["let %s := %s" % (lean, atom)]
            elif kind == "assign":
                _, _, op, (a, b), (c, d) = s
                lhs = self.parse(a, b)
                if not (lhs[0] == "path" and len(lhs[1]) == 1 and lhs[1][0] in self.env):
                    fail("assignment to something that is not a local", self.line)
                lean, tag = self.env[lhs[1][0]]
                p, atom, t = self.tx(self.parse(c, d))
                if t != tag:
                    fail("assignment of a value of kind %s to a local of kind %s" % (t, tag), self.line)
                if op == "+=":
                    if tag != "nat":
                        fail("`+=` on a non-usize", self.line)
                    lines += p + ["Out.bind (uadd ov %s %s) fun %s =>" % (lean, atom, lean)]
                else:
                    lines += p + ["let %s := %s" % (lean, atom)]
            elif kind == "expr":
                e = self.parse(*s[2])
                if e[0] == "try":
                    p, atom, t = self.tx(e)
                    lines += p
                elif e[0] == "mcall" and e[2] == "copy_from_slice" and len(e[3]) == 1:
                    recv = e[1]
                    lo = hi = None
                    base = recv
                    if recv[0] == "index":
                        base, lo, hi = recv[1], recv[2], recv[3]
                    if not (base[0] == "path" and len(base[1]) == 1 and base[1][0] in self.env and self.env[base[1][0]][1] == "bytes"):
                        fail("`copy_from_slice` into something that is not a local byte buffer", self.line)
                    d = self.env[base[1][0]][0]
                    pl, lo_a, _ = self.tx(lo) if lo is not None else ([], "0", "nat")
                    ph, hi_a, _ = self.tx(hi) if hi is not None else ([], "%s.length" % d, "nat")
                    p, src, t = self.tx(e[3][0])
                    if t != "bytes":
                        fail("`copy_from_slice` of a non-byte value", self.line)
                    lines += pl + ph + p + ["Out.bind (copyInto %s %s %s %s) fun %s =>" % (d, lo_a, hi_a, src, d)]
                elif e[0] == "mcall" and e[2] == "update" and len(e[3]) == 1 and e[1][0] == "path" and self.tx(e[1])[2] == "hasher":
                    h = self.tx(e[1])[1]
                    p, a, t = self.tx(e[3][0])
                    if t != "bytes":
                        fail("`update` with a non-byte value", self.line)
                    lines += p + ["let %s := %s ++ %s" % (h, h, a)]
                elif e[0] == "mcall" and e[2] == "push" and len(e[3]) == 1 and e[1][0] == "path" and len(e[1][1]) == 1 and e[1][1][0] in self.env:
                    n = e[1][1][0]
                    lean, tag = self.env[n]
                    p, a, t = self.tx(e[3][0])
                    if t != "bytes" or tag not in ("vec?", "vecbytes"):
                        fail("`push` of a value of kind %s onto a local of kind %s" % (t, tag), self.line)
                    self.env[n] = (lean, "vecbytes")
                    lines += p + ["let %s := %s ++ [%s]" % (lean, lean, a)]
                elif (e[0] == "mcall" and e[2] == "insert" and len(e[3]) == 2 and e[1] == ("field", ("path", ["self"]), "users")
                      and self.self_ty == "mgr" and self.self_mut):
                    p1, kk, t1 = self.tx(e[3][0])
                    p2, vv, t2 = self.tx(e[3][1])
                    if (t1, t2) != ("bytes", "user"):
                        fail("`insert` of kinds %s, %s" % (t1, t2), self.line)
                    lines += p1 + p2 + ["let self : ServerUserManager := { self with users := HashMap.insert self.users %s %s }" % (kk, vv)]
                else:
                    fail("expression statement of this form", self.line)
            elif kind == "if":
                _, _, (a, b), (c, d) = s
                p, cond, t = self.tx(self.parse(a, b))
                if t != "bool":
                    fail("`if` on a non-bool", self.line)
                inner = self.split_stmts(c, d)
                if not (len(inner) == 1 and inner[0][0] == "return"):
                    fail("`if` whose body is not a single `return Err(..);`", self.line)
                rp, ratom, rt = self.tx(self.parse(*inner[0][2]))
                if rp or ratom != "Out.err":
                    fail("`return` of something other than `Err(..)`", self.line)
                lines += p + ["if %s then Out.err else" % cond]
            elif kind == "while":
                _, _, (a, b), (c, d) = s
                ce = self.parse(a, b)
                if not (ce[0] == "bin" and ce[1] == "<"):
                    fail("`while` condition that is not `a < b`", self.line)
                lines += self.tx_loop("while", ce, None, (c, d))
            elif kind == "for":
                _, _, var, (a, b), (c, d) = s
                p, it, t = self.tx(self.parse(a, b))
                if t != "strs":
                    fail("`for` over something that is not `s.split('c')`", self.line)
                lines += p + self.tx_loop("for", it, var, (c, d))
            elif kind == "tail":
                if idx != len(stmts) - 1:
                    fail("expression without `;` before the end of the block", self.line)
                p, atom, t = self.tx(self.parse(*s[2]))
                if self.in_loop:
                    fail("tail expression in a loop body", self.line)
                if t == "out":
                    return lines + p + [atom]
                return lines + p + ["Out.ok %s" % atom]
            else:
                fail("statement `%s`" % kind, self.line)
        return lines + tail()

    def tx_loop(self, kind, head, var, body):
        self.nloop += 1
        name = "%s_%s%d" % (self.lean_name.replace(".", "_"), kind, self.nloop)
        outer_env = dict(self.env)
        saved_in_loop = self.in_loop
        self.in_loop = True
        svars = self.state_vars(outer_env)
        if kind == "for":
            self.env, vlean = self.bind_new(self.env, var, "str")
        stmts = self.split_stmts(*body)

        def rec():
            # state variables by their (unchanged) lean names; kinds may have been refined (vec? -> vecbytes)
            return ["%s E ov N %s %s (%s)" % (name, " ".join(p[0] for p in self.params), "fuel" if kind == "while" else "rest",
                                             ", ".join(v[1] for v in svars))]
        body_lines = self.tx_stmts(stmts, rec)
        # kinds after the body (refinements)
        for n, lean, tag in svars:
            outer_env[n] = (lean, self.env[n][1])
        svars = [(n, lean, outer_env[n][1]) for n, lean, tag in svars]
        for n, lean, tag in svars:
            if tag not in LEAN_TY:
                fail("the kind of local `%s` could not be determined" % n, self.line)
        self.env = outer_env
        self.in_loop = saved_in_loop
        sty = " × ".join(LEAN_TY[v[2]] for v in svars) or "Unit"
        pty = " ".join("(%s : %s)" % (p[0], LEAN_TY[p[1]]) for p in self.params)
        pat = "(%s)" % ", ".join(v[1] for v in svars)
        d = []
        if kind == "while":
            pc, ca, _ = self.tx(head)
            d.append("def %s (E : Ext) (ov : Bool) (N : Nat) %s : Nat → (%s) → Out (%s)" % (name, pty, sty, sty))
            d.append("  | 0, _ => .timeout")
            d.append("  | fuel + 1, %s =>" % pat)
            for l in pc:
                d.append("    " + l)
            d.append("    if %s then" % ca)
            d += ["      " + l for l in body_lines]
            d.append("    else Out.ok %s" % pat)
            self.aux.append("\n".join(d))
            bp, bound, _ = self.tx(head[3])
            return bp + ["Out.bind (%s E ov N %s (%s + 1) %s) fun %s =>" % (name, " ".join(p[0] for p in self.params), bound, pat, pat)]
        d.append("def %s (E : Ext) (ov : Bool) (N : Nat) %s : List String → (%s) → Out (%s)" % (name, pty, sty, sty))
        d.append("  | [], st => Out.ok st")
        d.append("  | %s :: rest, %s =>" % (vlean, pat))
        d += ["    " + l for l in body_lines]
        self.aux.append("\n".join(d))
        return ["Out.bind (%s E ov N %s %s %s) fun %s =>" % (name, " ".join(p[0] for p in self.params), head, pat, pat)]

    def translate(self, params, body, ret_self=None, self_mut=False):
        f = self.f
        self.env = {}
        self.late = []
        self.in_loop = False
        self.ret_self = ret_self
        self.self_mut = self_mut
        self.param_names = set()
        for a, b in split_commas(f, *params, angles=True):
            if f.is_p(a, "&") and (f.is_id(a + 1, "self") or (f.is_id(a + 1, "mut") and f.is_id(a + 2, "self"))):
                self.params.append(("self", self.self_ty))
                continue
            if not (f.is_id(a) and f.is_p(a + 1, ":")):
                fail("parameter `%s`" % f.render(a, b, 40), f.toks[a].line)
            tag = self.tag_of_type(a + 2, b)
            self.env, lean = self.bind_new(self.env, f.toks[a].text, tag)
            self.params.append((lean, tag))
            self.param_names.add(f.toks[a].text)
        stmts = self.split_stmts(*body)
        self.line = f.toks[body[0]].line

        def end():
            if self.self_mut:
                return ["Out.ok self"]
            fail("function body without a tail expression", self.line)
        lines = self.tx_stmts(stmts, end)
        pty = " ".join("(%s : %s)" % (p[0], LEAN_TY[p[1]]) for p in self.params)
        text = "def %s (E : Ext) (ov : Bool) (N : Nat) %s :=\n" % (self.lean_name, pty) + "\n".join("  " + l for l in lines)
        for name, lean in self.late:
            tag = self.env[name][1] if name in self.env and self.env[name][0] == lean else None
            if tag not in LEAN_TY:
                fail("the kind of local `%s` could not be determined" % name, self.line)
            text = text.replace("«KIND:%s»" % lean, LEAN_TY[tag])
        return self.aux, text


class KUnit:
    def __init__(self):
        self.fields = {"cfguser": {"name": "str", "password": "str"}}
        self.fns = {}
        self.methods = {}


def struct_fields_of(f, name, unit_tag_of):
    for i in range(len(f.toks) - 2):
        if f.is_id(i, "struct") and f.is_id(i + 1, name):
            b = f.find_top(i + 2, len(f.toks), lambda j: f.is_p(j, "{") or f.is_p(j, ";"))
            if b < 0 or not f.is_p(b, "{"):
                break
            out = {}
            for a, c in split_commas(f, b + 1, f.match[b], angles=True):
                while a < c and (f.is_id(a, "pub") or f.is_p(a, "#")):
                    a = f.match[a + 1] + 1 if f.is_p(a, "#") else a + 1
                if not (f.is_id(a) and f.is_p(a + 1, ":")):
                    fail("field of struct %s" % name, f.toks[a].line)
                out[f.toks[a].text] = unit_tag_of("".join(f.toks[k].text for k in range(a + 2, c)), f.toks[a].line)
            return out
    fail("struct %s not found in %s" % (name, f.path), 0)


def extract_keys(root, files):
    fp = load(root, F_SSPROTO, files)
    fm = load(root, F_SSMANAGER, files)
    fcfg = files[F_CONFIG]
    unit = KUnit()

    def tag_of(txt, line):
        if txt == "String":
            return "str"
        if txt.startswith("[u8;"):
            return "bytes"
        if txt.startswith("HashMap<[u8;16],Arc<ServerUser<"):
            return "map"
        fail("field type `%s`" % txt, line)
    unit.fields["cfguser"] = struct_fields_of(fcfg, "User", tag_of)
    unit.fields["user"] = struct_fields_of(fm, "ServerUser", tag_of)
    unit.fields["mgr"] = struct_fields_of(fm, "ServerUserManager", tag_of)
    body = [KEYS_PRELUDE]

    def structure(name, tag):
        body.append("/-- `struct %s` -/" % name)
        body.append("structure %s where" % name)
        for k, t in unit.fields[tag].items():
            body.append("  %s : %s" % (k, LEAN_TY[t]))
        body.append("deriving Repr, DecidableEq\n")
    structure("User", "cfguser")
    structure("ServerUser", "user")
    structure("ServerUserManager", "mgr")
    names = []

    def one(f, rust, lean, impl_of=None, mods=(), self_ty=None, ret_self=None, self_mut=False, doc=""):
        i, params, bd = find_fn(f, rust, impl_of, mods)
        k = KFn(f, unit, lean, self_ty)
        aux, text = k.translate(params, bd, ret_self, self_mut)
        for a in aux:
            body.append(a + "\n")
        body.append("/-- `%s` (%s, line %d) -/" % (rust, doc, f.toks[i].line))
        body.append(text + "\n")
        names.append("%s (%s:%d)" % (lean, os.path.basename(f.path), f.toks[i].line))
    one(fp, "openssl_bytes_to_key", "openssl_bytes_to_key", mods=("aead",), doc="protocol/shadowsocks.rs `mod aead`")
    unit.fns["openssl_bytes_to_key"] = "openssl_bytes_to_key"
    one(fp, "password_to_keys", "password_to_keys", mods=("aead_2022",), doc="protocol/shadowsocks.rs `mod aead_2022`")
    unit.fns["password_to_keys"] = "password_to_keys"
    one(fp, "password_to_exact_keys", "password_to_exact_keys", mods=("aead_2022",), doc="protocol/shadowsocks.rs `mod aead_2022`")
    one(fm, "identity_hash", "ServerUser.identity_hash_", impl_of="ServerUser", self_ty="user", doc="manager/shadowsocks.rs")
    unit.methods["user"] = {"identity_hash": ("ServerUser.identity_hash_", "bytes")}
    one(fm, "try_from", "ServerUser.try_from", impl_of="ServerUser", ret_self="user", doc="manager/shadowsocks.rs `impl TryFrom<&User> for ServerUser<N>`")
    one(fm, "new", "ServerUserManager.new", impl_of="ServerUserManager", ret_self="mgr", doc="manager/shadowsocks.rs")
    one(fm, "add_user", "ServerUserManager.add_user", impl_of="ServerUserManager", self_ty="mgr", self_mut=True, doc="manager/shadowsocks.rs")
    one(fm, "get_user_by_hash", "ServerUserManager.get_user_by_hash", impl_of="ServerUserManager", self_ty="mgr", doc="manager/shadowsocks.rs")
    one(fm, "clone_user_by_hash", "ServerUserManager.clone_user_by_hash", impl_of="ServerUserManager", self_ty="mgr", doc="manager/shadowsocks.rs")
    one(fm, "user_count", "ServerUserManager.user_count", impl_of="ServerUserManager", self_ty="mgr", doc="manager/shadowsocks.rs")
    header = ["part 3 translated: " + ", ".join(names),
              "part 3 skipped: `Mode::{to_u8, expect_u8}` (protocol/shadowsocks.rs; translated by translate_sstcp.py), `users_iter`, `Default`, `PartialEq`, `Hash`, `Display` impls (manager/shadowsocks.rs), tests",
              "assumed externals (part 3): Ext.md5 (md5 crate), Ext.b64 (base64ct), Ext.blake3 (blake3 crate); std HashMap / Vec / slice semantics as written in the rules below"]
    return {"header": header, "rules": KEYS_RULES, "imports": [], "body": body}


def main(argv):
    if len(argv) != 3:
        sys.stderr.write("usage: translate_dispatch.py <root of a checkout> <out.lean>\n")
        return 2
    root, dst = argv[1], argv[2]
    try:
        files, d = extract(root)
        keys = extract_keys(root, files)
    except (IOError, OSError) as e:
        sys.stderr.write("translate_dispatch: %s\n" % e)
        return 2
    except Unsupported as e:
        sys.stderr.write("translate_dispatch: unsupported: %s (line %s)\n" % (e.what, e.line))
        return 3
    text = emit(root, files, d, keys)
    try:
        with open(dst, "w") as f:
            f.write(text)
    except (IOError, OSError) as e:
        sys.stderr.write("translate_dispatch: %s\n" % e)
        return 2
    return 0


if __name__ == "__main__":
    sys.exit(main(sys.argv))
