//! C15: every way a flow can end — application first, target first, either side resetting, the
//! client-server link cut in mid-transfer, target refused / unresolvable, server gone — on the real
//! client and server: what was received is delivered, the other side sees the end promptly, and
//! descriptors and tasks return to the idle baseline after batches of such flows.
use crate::e2e_gen::*;
use crate::session::Session;
use crate::util::*;

/// the transport ends while part of a frame is still buffered (the peer vanished in mid-frame; with the WebSocket
/// adapter: its last message ended inside a chunk): the decoded stream must END — report the truncation at most once and
/// then finish — because the pump that forwards it waits for exactly that before it closes the other side
fn truncated_end(s: &mut Session, rng: &mut Rng) {
    use crate::c04::random_uuid;
    use crate::gen_ss::*;
    for proto in ["aes-128-gcm", "2022-blake3-aes-128-gcm", "vmess", "trojan-udp"] {
        for adapter in ["", " adapter=ws"] {
            s.begin_case(&format!("truncated-end:{}{}", proto, adapter.replace(" adapter=", ":")));
            let (c, sv) = (s.fresh("c"), s.fresh("s"));
            let addr = random_addr(rng);
            match proto {
                "vmess" => {
                    let uuid = random_uuid(rng);
                    s.run(&format!("vm.client {} uuid={} cipher=aes-128-gcm cmd=tcp addr={}", c, uuid, addr));
                    s.run(&format!("vm.server {} users=a:{}{}", sv, uuid, adapter));
                }
                "trojan-udp" => {
                    s.run(&format!("tj.client {} password=secret cmd=udp addr={}", c, addr));
                    s.run(&format!("tj.server {} password=secret{}", sv, adapter));
                }
                cipher => {
                    let cipher: &'static str = CIPHERS.iter().find(|c| **c == cipher).unwrap();
                    let cfg = random_cfg(rng, cipher, false);
                    let (cc, sc) = (s.fresh("cc"), s.fresh("sc"));
                    s.run(&format!("ss.cctx {} cipher={} password={}", cc, cipher, cfg.client_password));
                    s.run(&format!("ss.sctx {} cipher={} password={} users=-", sc, cipher, cfg.server_password));
                    s.run(&format!("ss.new {} {} {}", c, cc, addr));
                    s.run(&format!("ss.new {} {} -{}", sv, sc, adapter));
                }
            }
            let wire = if proto == "trojan-udp" {
                let mut w = vec![];
                for _ in 0..2 {
                    let r = s.run(&format!("st.enc {} {} to={}", c, hex(&rng.bytes(50)), random_addr(rng)));
                    w.extend(unhex(&r).unwrap_or_default());
                }
                Some(w)
            } else {
                encode_all(s, &c, &[rng.bytes(300), rng.bytes(200)])
            };
            let Some(wire) = wire else { continue };
            // everything but the last 7 bytes, in two reads / messages; then the end of the transport
            let cutp = wire.len() - 7;
            let first = wire.len() / 2;
            let d = feed_all(s, &sv, &[wire[..first].to_vec(), wire[first..cutp].to_vec()], true);
            let last = s.lines.last().cloned().unwrap_or_default();
            if d.panic || !d.end || last.contains("err-forever") {
                s.oracle_fail(&format!("truncated-end:{}", proto), &format!("a transport that ended inside a frame: the decoded stream did not end (end={} panic={}){}", d.end, d.panic, if last.contains("err-forever") { ": it reports an error on every poll, forever" } else { "" }));
            }
            s.mark_nontrivial();
        }
    }
}

/// more associations than the client keeps at once, through a protocol whose datagrams travel inside a connection: the
/// association that is evicted gives its connection (and with it the server's flow) back
fn evicted_associations(s: &mut Session, rng: &mut Rng) {
    for base in protocol_ciphers(rng) {
        if !(base.protocol == "vmess" && base.cipher == "aes-128-gcm") {
            continue;
        }
        let mut cfg = base.with("tcp");
        cfg.udp = true;
        s.begin_case(&format!("evicted-associations:{}", cfg.label()));
        let Some(w) = cfg.start(s, false, 4) else { continue };
        let r = s.run(&format!("e2e.udpbind {} n=70", w));
        let links: usize = field(&r, "links").parse().unwrap_or(usize::MAX);
        if field(&r, "answered") != "70" {
            s.oracle_fail("evicted-associations", &format!("70 associations one after the other: not every one was answered: `{}`", r));
        } else if links > 64 {
            s.oracle_fail("evicted-associations", &format!("70 associations through a client that keeps 64: {} connections towards the server are still open — an evicted association kept its connection", links));
        }
        s.run(&format!("e2e.stop {}", w));
        s.mark_nontrivial();
    }
}

/// the link between client and server fails right behind data (the target's answer is carried to the client in one piece
/// and the connection is reset behind it): everything the client had received is delivered to the application before
/// its end-of-stream - answers that fit one read, one write buffer, and several
pub fn link_reset_cases(s: &mut Session, thorough: bool, rng: &mut Rng) {
    for base in protocol_ciphers(rng) {
        let family_pick = matches!((base.protocol, base.cipher, base.users.as_str()), ("shadowsocks", "aes-128-gcm", _) | ("shadowsocks", "2022-blake3-aes-256-gcm", "-") | ("vmess", "aes-128-gcm", _) | ("trojan", _, _));
        if !thorough && !family_pick {
            continue;
        }
        let cfg = base.with("tcp");
        s.begin_case(&format!("link-reset-behind-answer:{}", cfg.label()));
        let Some(w) = cfg.start(s, true, 4) else {
            s.oracle_fail(&format!("start:{}", cfg.label()), "a README-supported configuration does not start");
            continue;
        };
        let sizes: &[usize] = if thorough { &[1, 200, 1000, 6000, 8192, 8193, 30000, 100000] } else { &[200, 6000, 30000] };
        for size in sizes {
            let r = s.run(&format!("e2e.linkreset {} size={}", w, size));
            if r != "answer=complete" {
                s.oracle_fail(&format!("lost_link-reset:{}", cfg.label()), &format!("the link was reset right behind an answer of {} bytes that the client had received: the application got `{}`", size, r));
            }
        }
        s.run(&format!("e2e.stop {}", w));
        s.mark_nontrivial();
    }
}

pub fn generate(s: &mut Session, tier: &str, rng: &mut Rng) {
    link_reset_cases(s, tier == "thorough", rng);
    let thorough = tier == "thorough";
    truncated_end(s, rng);
    evicted_associations(s, rng);
    let mut transports = vec!["tcp", "ws"];
    if tls_available() {
        transports.extend(["tls", "wss", "quic"]);
    } else {
        s.count("skipped:tls-wss-quic(no certificate)");
    }
    let all = protocol_ciphers(rng);
    // one configuration per codec family in the quick tier
    let picks: Vec<Cfg> = if thorough { all } else { all.into_iter().filter(|c| matches!((c.protocol, c.cipher, c.users.as_str()), ("shadowsocks", "aes-256-gcm", _) | ("shadowsocks", "2022-blake3-aes-128-gcm", "-") | ("vmess", "aes-128-gcm", _) | ("trojan", _, _))).collect() };
    let max_total = if thorough { 1 << 20 } else { 100_000 };
    for (ci, base) in picks.into_iter().enumerate() {
        for t in &transports {
            // quick tier: plain tcp plus one other transport per configuration, rotating so that each is used
            let others = ["ws", "tls", "wss", "quic"];
            if !thorough && *t != "tcp" && *t != others[ci % others.len()] {
                continue;
            }
            let cfg = base.with(t);
            s.begin_case(&format!("endings:{}", cfg.label()));
            // the link forwarder only understands tcp
            let link = *t != "quic";
            let Some(w) = cfg.start(s, link, 4) else {
                s.oracle_fail(&format!("start:{}", cfg.label()), "a README-supported configuration does not start");
                continue;
            };
            // warm up (lazy one-time allocations: resolver threads, tls tables), then take the baseline
            s.run(&format!("e2e.tcp {} kind=socks5 host=localhost up=10 down=10 seed=1 close=target", w));
            s.run(&format!("e2e.tcp {} kind=socks5 host=localhost up=10 down=10 seed=1 close=app target=unresolvable", w));
            s.run(&format!("e2e.fdbase {}", w));
            let rounds = if thorough { 4 } else { 1 };
            for _ in 0..rounds {
                let mut endings: Vec<String> = vec![
                    "close=target".into(),
                    "close=app".into(),
                    "close=app-early".into(),
                    "close=app reset=app".into(),
                    "close=app reset=target".into(),
                    "close=app reset=target-answer".into(),
                    "close=target-idle".into(),
                    "close=app target=refused".into(),
                    "close=app target=unresolvable".into(),
                ];
                if link {
                    endings.push("close=app cut=0".into());
                    endings.push("close=app cut=K".into());
                }
                // an upload far larger than what the server can have consumed when the application closes right behind it
                endings.push("close=app-early big".into());
                // … and the target is slow to read: what the server still holds for it when the flow is dropped must get there
                endings.push("close=app-early slow=1 big".into());
                for e in endings {
                    let kind = *rng.pick(&KINDS);
                    let big = e.ends_with(" big");
                    let e = e.trim_end_matches(" big").to_owned();
                    // (over quic the whole upload fits the connection's flow-control window: make it several windows large)
                    let up = if big { format!("{}", if *t == "quic" { 2_000_000 + rng.below(1_000_000) } else { 150_000 + rng.below(400_000) }) } else { sizes(rng, max_total) };
                    let pieces = up.split(',').count();
                    let e = e.replace("cut=K", &format!("cut={}", 1 + rng.below(pieces as u64)));
                    let host = if e.contains("unresolvable") { "localhost" } else { "127.0.0.1" };
                    // (an answer that is followed by a reset must already have left the target's socket: keep it small)
                    let down = if e.contains("target-answer") { (1 + rng.below(1000)).to_string() } else { sizes(rng, max_total) };
                    let op = format!("e2e.tcp {} kind={} host={} up={} down={} seed={} {}", w, kind, host, up, down, rng.below(1 << 40), e);
                    let r = s.run(&op);
                    let label = format!("{}:{}", e.split(' ').last().unwrap_or("").split('=').next().unwrap_or(""), cfg.label());
                    let delivered = ["up", "down", "up-prefix"].iter().all(|k| matches!(field(&r, k), "" | "ok" | "0"));
                    // (a target that was never dialled has no end to observe)
                    let ends = ["eof", "target-eof", "end"].iter().all(|k| matches!(field(&r, k), "" | "1" | "-") || (*k == "target-eof" && field(&r, "dialed") == "0"));
                    if !delivered {
                        s.oracle_fail(&format!("lost:{}", label), &format!("{}: what the closing side had sent was not delivered first: `{}`", op, r));
                    } else if !ends {
                        s.oracle_fail(&format!("no-end:{}", label), &format!("{}: the other side did not observe the end of the flow: `{}`", op, r));
                    } else if !matches!(field(&r, "idle-held"), "" | "0") {
                        s.oracle_fail(&format!("held:{}", label), &format!("{}: the flow had ended for the application, which stayed idle, but sockets of the flow were still held: `{}`", op, r));
                    } else if field(&r, "prompt") != "1" {
                        s.oracle_fail(&format!("slow-end:{}", label), &format!("{}: the end was not observed promptly: `{}`", op, r));
                    }
                    s.count(&format!("ending:{}", e.split(' ').map(|x| x.split('=').next().unwrap_or("")).collect::<Vec<_>>().join("+")));
                }
                // a batch of concurrent flows, then everything must be released
                let n = if thorough { 24 } else { 6 };
                for close in ["target", "app"] {
                    let op = format!("e2e.par {} n={} m=0 kind=connect host=127.0.0.1 up={} down={} seed={} close={}", w, n, sizes(rng, max_total / 4), sizes(rng, max_total / 4), rng.below(1 << 40), close);
                    s.run(&op);
                }
                let r = s.run(&format!("e2e.fdcheck {}", w));
                if r != "baseline" {
                    s.oracle_fail(&format!("leak:{}", cfg.label()), &format!("after every flow had ended descriptors/tasks did not return to the idle baseline: `{}`", r));
                }
            }
            // the server goes away and comes back: flows in between end promptly, nothing is left behind
            if *t == "tcp" {
                s.run(&format!("e2e.server {} stop", w));
                let op = format!("e2e.tcp {} kind=socks5 host=127.0.0.1 up=100 down=50 seed=3 close=app", w);
                let r = s.run(&op);
                if field(&r, "eof") != "1" {
                    s.oracle_fail(&format!("server-gone:{}", cfg.label()), &format!("{}: with the server unreachable the application saw no end-of-stream: `{}`", op, r));
                }
                s.run(&format!("e2e.server {} start", w));
                s.run(&format!("e2e.tcp {} kind=socks5 host=127.0.0.1 up=100 down=50 seed=3 close=app", w));
                let r = s.run(&format!("e2e.fdcheck {}", w));
                if r != "baseline" {
                    s.oracle_fail(&format!("leak-after-restart:{}", cfg.label()), &format!("descriptors/tasks did not return to the idle baseline: `{}`", r));
                }
            }
            s.run(&format!("e2e.stop {}", w));
            s.mark_nontrivial();
        }
    }
}
