//! C01: end-to-end byte transparency — the real server task and the real client services on
//! loopback, every (protocol, cipher) of the README over every available transport, the three local
//! handshake kinds, traffic scripts of very different shapes, either side closing first.
//! The model side predicts each observation from the two-hop pump model (`Octo.System`).
use crate::e2e_gen::*;
use crate::session::Session;
use crate::util::*;

fn check(s: &mut Session, label: &str, script: &str, r: &str, target_first: bool) {
    if field(r, "dialed") != "1" {
        s.oracle_fail(&format!("not-dialed:{}", label), &format!("{}: the target was not dialled on the requested address: `{}`", script, r));
    } else if field(r, "up") != "ok" {
        s.oracle_fail(&format!("up:{}", label), &format!("{}: bytes of the application did not arrive intact at the target: `{}`", script, r));
    } else if field(r, "down") != "ok" {
        s.oracle_fail(&format!("down:{}", label), &format!("{}: bytes of the target did not arrive intact at the application: `{}`", script, r));
    } else if target_first && field(r, "eof") != "1" {
        s.oracle_fail(&format!("eof:{}", label), &format!("{}: the target closed after answering, the application saw no end-of-stream: `{}`", script, r));
    }
}

pub fn generate(s: &mut Session, tier: &str, rng: &mut Rng) {
    let thorough = tier == "thorough";
    // "the server dials exactly the requested host and port": the target the local handshake extracts from the request
    crate::c13::target_cases(s, if thorough { 6000 } else { 600 }, rng);
    // "every byte written by the target arrives at the application": also when the link fails right behind them
    crate::c15::link_reset_cases(s, thorough, rng);
    let mut transports = vec!["tcp", "ws"];
    if tls_available() {
        transports.extend(["tls", "wss", "quic"]);
    } else {
        s.count("skipped:tls-wss-quic(no certificate)");
    }
    let max_total = if thorough { 3 << 20 } else { 200_000 };
    let scripts = if thorough { 6 } else { 2 };
    for base in protocol_ciphers(rng) {
        for t in &transports {
            // quick tier: the encrypted transports with one configuration per codec family
            let family_pick = matches!((base.protocol, base.cipher, base.users.as_str()), ("shadowsocks", "aes-128-gcm", _) | ("shadowsocks", "2022-blake3-chacha20-poly1305", _) | ("vmess", "aes-128-gcm", _) | ("trojan", _, _));
            if !thorough && matches!(*t, "tls" | "wss" | "quic") && !family_pick {
                continue;
            }
            let cfg = base.with(t);
            s.begin_case(&format!("config:{}", cfg.label()));
            let Some(w) = cfg.start(s, false, 4) else {
                s.oracle_fail(&format!("start:{}", cfg.label()), "a README-supported configuration does not start");
                continue;
            };
            for kind in KINDS {
                for i in 0..scripts {
                    let target_first = (i + rng.below(2)) % 2 == 0;
                    let host = if rng.below(3) == 0 { "localhost" } else { "127.0.0.1" };
                    let (up, down) = (sizes(rng, max_total), sizes(rng, max_total));
                    let op = format!("e2e.tcp {} kind={} host={} up={} down={} seed={} close={}", w, kind, host, up, down, rng.below(1 << 40), if target_first { "target" } else { "app" });
                    let r = s.run(&op);
                    check(s, &cfg.label(), &op, &r, target_first);
                    s.count(&format!("flow:{}:{}:{}", kind, t, if target_first { "target-first" } else { "app-first" }));
                }
            }
            // the application sends and closes at once: everything it wrote still reaches the target, then the end
            for (ki, kind) in KINDS.iter().enumerate() {
                // (one of the three far larger than what the server can have consumed by the time the application has closed)
                let up = if ki == 0 { format!("{}", 150_000 + rng.below(300_000)) } else { sizes(rng, max_total) };
                let op = format!("e2e.tcp {} kind={} host=127.0.0.1 up={} down=10 seed={} close=app-early", w, kind, up, rng.below(1 << 40));
                let r = s.run(&op);
                if field(&r, "up") != "ok" || field(&r, "target-eof") != "1" {
                    s.oracle_fail(&format!("early-close:{}", cfg.label()), &format!("{}: the application wrote and closed at once; its bytes did not all reach the target before the end: `{}`", op, r));
                }
                s.count(&format!("flow:{}:{}:app-early", kind, t));
            }
            // several flows at once through the same client and server
            let n = if thorough { 16 } else { 4 };
            let op = format!("e2e.par {} n={} m=0 kind=socks5 host=127.0.0.1 up={} down={} seed={} close=target", w, n, sizes(rng, max_total / 4), sizes(rng, max_total / 4), rng.below(1 << 40));
            let r = s.run(&op);
            if r != format!("tcp:{}x[dialed=1 up=ok down=ok eof=1 target-eof=- prompt=1]", n) {
                s.oracle_fail(&format!("par:{}", cfg.label()), &format!("{}: concurrent flows: `{}`", op, r));
            }
            s.run(&format!("e2e.stop {}", w));
            s.mark_nontrivial();
        }
        // the same configuration behind a link that delivers the stream in small pieces of changing size: every read of
        // client and server ends somewhere inside a frame (a first flight split by the path MTU, slow links)
        let family_pick = matches!((base.protocol, base.cipher, base.users.as_str()), ("shadowsocks", "aes-256-gcm", _) | ("shadowsocks", "2022-blake3-aes-128-gcm", _) | ("vmess", _, _) | ("trojan", _, _));
        if thorough || family_pick {
            for t in if thorough && tls_available() { vec!["tcp", "tls"] } else { vec!["tcp"] } {
                let cfg = base.with(t);
                s.begin_case(&format!("chopped:{}", cfg.label()));
                let w = s.fresh("w");
                let mut op = format!("e2e.start {} protocol={} cipher={} spw={} cpw={} users={} mode=tcp link=chop threads=4", w, cfg.protocol, cfg.cipher, cfg.spw, cfg.cpw, cfg.users);
                if t == "tls" {
                    op.push_str(" tls=ssl");
                }
                if s.run(&op) != "ok" {
                    continue;
                }
                for kind in KINDS {
                    let target_first = rng.below(2) == 0;
                    let op = format!("e2e.tcp {} kind={} host=127.0.0.1 up={} down={} seed={} close={}", w, kind, sizes(rng, 40_000), sizes(rng, 40_000), rng.below(1 << 40), if target_first { "target" } else { "app" });
                    let r = s.run(&op);
                    check(s, &format!("chopped:{}", cfg.label()), &op, &r, target_first);
                }
                // a first write larger than one body chunk / one read
                let op = format!("e2e.tcp {} kind=socks5 host=127.0.0.1 up=5000,3000 down=2000 seed={} close=target", w, rng.below(1 << 40));
                let r = s.run(&op);
                check(s, &format!("chopped:{}", cfg.label()), &op, &r, true);
                s.run(&format!("e2e.stop {}", w));
                s.mark_nontrivial();
            }
        }
    }
}
