//! C04: decoding is independent of segmentation, and never stalls — valid streams of every
//! protocol/direction/cipher cut in many ways, through the real FramedRead
use crate::gen_ss::*;
use crate::session::Session;
use crate::util::*;

fn ss_case(s: &mut Session, rng: &mut Rng, cipher: &'static str, want_user: bool, style: u64, big: bool) {
    s.begin_case(&format!("ss:{}:{}:cut{}", cipher, if want_user { "eih" } else { "psk" }, style));
    let cfg = random_cfg(rng, cipher, want_user);
    let with_user = cfg.with_user;
    let Some(f) = open_flow(s, rng, cfg) else {
        s.oracle_fail("ss-setup", "could not create the contexts of a documented configuration");
        return;
    };
    // client -> server
    let writes = random_writes(rng, big);
    let Some(wire) = encode_all(s, &f.client, &writes) else { return };
    let plain: Vec<u8> = writes.concat();
    let pieces = cut(rng, &wire, first_min(cipher, true, with_user), style);
    let d = feed_all(s, &f.server, &pieces, false);
    if d.panic {
        s.oracle_fail(&format!("ss-c2s-panic:{}", cipher), "server decoder panicked on a valid stream");
        return;
    }
    if d.err {
        s.oracle_fail(&format!("ss-c2s-err:{}", cipher), "server decoder reported an error on a valid stream");
        return;
    }
    if d.connect.as_deref() != Some(f.addr.as_str()) {
        s.oracle_fail(&format!("ss-c2s-addr:{}", cipher), &format!("target {:?} instead of {}", d.connect, f.addr));
        return;
    }
    if d.data != plain {
        let what = if plain.starts_with(&d.data) { "stall: complete frames delivered to the adapter were not released" } else { "different plaintext" };
        s.oracle_fail(&format!("ss-c2s-data:{}", cipher), &format!("{} ({} of {} bytes)", what, d.data.len(), plain.len()));
        return;
    }
    // server -> client
    let writes = random_writes(rng, big);
    let Some(wire) = encode_all(s, &f.server, &writes) else { return };
    let plain: Vec<u8> = writes.concat();
    let pieces = cut(rng, &wire, first_min(cipher, false, with_user), style);
    let d = feed_all(s, &f.client, &pieces, true);
    if d.panic || d.err {
        s.oracle_fail(&format!("ss-s2c-err:{}", cipher), "client decoder failed on a valid response stream");
        return;
    }
    if d.data != plain {
        s.oracle_fail(&format!("ss-s2c-data:{}", cipher), &format!("client released {} of {} bytes", d.data.len(), plain.len()));
        return;
    }
    s.mark_nontrivial();
}

pub fn random_uuid(rng: &mut Rng) -> String {
    let b = rng.bytes(16);
    let h: String = b.iter().map(|x| format!("{:02x}", x)).collect();
    format!("{}-{}-{}-{}-{}", &h[0..8], &h[8..12], &h[12..16], &h[16..20], &h[20..32])
}

fn check_dir(s: &mut Session, key: &str, d: &Delivered, plain: &[u8], want_addr: Option<&str>) -> bool {
    if d.panic {
        s.oracle_fail(&format!("{}-panic", key), "decoder panicked on a valid stream");
        return false;
    }
    if d.err {
        s.oracle_fail(&format!("{}-err", key), "decoder reported an error on a valid stream");
        return false;
    }
    if let Some(a) = want_addr {
        if d.connect.as_deref() != Some(a) {
            s.oracle_fail(&format!("{}-addr", key), &format!("target {:?} instead of {}", d.connect, a));
            return false;
        }
    }
    if d.data != plain {
        let what = if plain.starts_with(&d.data) { "stall: complete frames delivered to the adapter were not released" } else { "different plaintext" };
        s.oracle_fail(&format!("{}-data", key), &format!("{} ({} of {} bytes)", what, d.data.len(), plain.len()));
        return false;
    }
    true
}

/// client -> server through the repo's WebSocketFramed: pieces are WebSocket messages
fn ws_case(s: &mut Session, rng: &mut Rng, proto: &str, style: u64) {
    s.begin_case(&format!("ws:{}:cut{}", proto, style));
    let (c, sv) = (s.fresh("c"), s.fresh("s"));
    let addr = random_addr(rng);
    let mut fm = 1;
    match proto {
        "vmess" => {
            let uuid = random_uuid(rng);
            s.run(&format!("vm.client {} uuid={} cipher=aes-128-gcm cmd=tcp addr={}", c, uuid, addr));
            s.run(&format!("vm.server {} users=a:{} adapter=ws", sv, uuid));
        }
        "trojan" => {
            s.run(&format!("tj.client {} password=pw{} cmd=tcp addr={}", c, rng.below(1000), addr));
            let pw = s.lines.last().unwrap().split("password=").nth(1).unwrap().split(' ').next().unwrap().to_owned();
            s.run(&format!("tj.server {} password={} adapter=ws", sv, pw));
        }
        cipher => {
            let cipher: &'static str = CIPHERS.iter().find(|c| **c == cipher).unwrap();
            let cfg = random_cfg(rng, cipher, false);
            let (cc, sc) = (s.fresh("cc"), s.fresh("sc"));
            s.run(&format!("ss.cctx {} cipher={} password={}", cc, cipher, cfg.client_password));
            s.run(&format!("ss.sctx {} cipher={} password={} users=-", sc, cipher, cfg.server_password));
            s.run(&format!("ss.new {} {} {}", c, cc, addr));
            s.run(&format!("ss.new {} {} - adapter=ws", sv, sc));
            fm = first_min(cipher, true, false);
        }
    }
    let writes = random_writes(rng, false);
    let Some(wire) = encode_all(s, &c, &writes) else { return };
    let pieces = cut(rng, &wire, fm, style);
    let d = feed_all(s, &sv, &pieces, false);
    if !check_dir(s, &format!("ws-c2s:{}", proto), &d, &writes.concat(), Some(&addr)) {
        return;
    }
    s.mark_nontrivial();
}

fn vm_case(s: &mut Session, rng: &mut Rng, cipher: &'static str, style: u64, big: bool) {
    s.begin_case(&format!("vmess:{}:cut{}", cipher, style));
    let (c, sv) = (s.fresh("c"), s.fresh("s"));
    let uuid = random_uuid(rng);
    let other = random_uuid(rng);
    // VMess domain names go through String::from_utf8 on the server: keep them ASCII
    let addr = random_addr(rng);
    s.run(&format!("vm.client {} uuid={} cipher={} cmd=tcp addr={}", c, uuid, cipher, addr));
    let users = if rng.chance(1, 2) { format!("a:{};b:{}", other, uuid) } else { format!("a:{}", uuid) };
    s.run(&format!("vm.server {} users={}", sv, users));
    let writes = random_writes(rng, big);
    let Some(wire) = encode_all(s, &c, &writes) else { return };
    let pieces = cut(rng, &wire, 1, style);
    let d = feed_all(s, &sv, &pieces, false);
    if !check_dir(s, &format!("vmess-c2s:{}", cipher), &d, &writes.concat(), Some(&addr)) {
        return;
    }
    let writes = random_writes(rng, big);
    let Some(wire) = encode_all(s, &sv, &writes) else { return };
    let pieces = cut(rng, &wire, 1, style);
    let d = feed_all(s, &c, &pieces, true);
    if !check_dir(s, &format!("vmess-s2c:{}", cipher), &d, &writes.concat(), None) {
        return;
    }
    s.mark_nontrivial();
}

fn tj_case(s: &mut Session, rng: &mut Rng, style: u64, big: bool) {
    s.begin_case(&format!("trojan:cut{}", style));
    let (c, sv) = (s.fresh("c"), s.fresh("s"));
    let len = rng.range(1, 30) as usize;
    let pw: String = (0..len).map(|_| *rng.pick(b"abcdefghijklmnopqrstuvwxyz0123456789-_.") as char).collect();
    let addr = random_addr(rng);
    s.run(&format!("tj.client {} password={} cmd=tcp addr={}", c, pw, addr));
    s.run(&format!("tj.server {} password={}", sv, pw));
    let writes = random_writes(rng, big);
    let Some(wire) = encode_all(s, &c, &writes) else { return };
    let pieces = cut(rng, &wire, 1, style);
    let d = feed_all(s, &sv, &pieces, false);
    if !check_dir(s, "trojan-c2s", &d, &writes.concat(), Some(&addr)) {
        return;
    }
    let writes = random_writes(rng, big);
    let Some(wire) = encode_all(s, &sv, &writes) else { return };
    let pieces = cut(rng, &wire, 1, style);
    let d = feed_all(s, &c, &pieces, true);
    if !check_dir(s, "trojan-s2c", &d, &writes.concat(), None) {
        return;
    }
    s.mark_nontrivial();
}

pub fn generate(s: &mut Session, tier: &str, rng: &mut Rng) {
    // a target address spread over several chunks (third-party senders), every cut, several read patterns
    match crate::craft::Crafter::new() {
        Some(mut cr) => {
            crate::c03::ss_legacy_split_address(s, &mut cr, rng, tier == "thorough");
            // a 2022 request without payload: the connect comes with the header, not with the next chunk (never stalls)
            for cipher in CIPHERS {
                if is2022(cipher) {
                    crate::c03::ss2022_empty_first_payload(s, &mut cr, rng, cipher, false);
                    if eih(cipher) {
                        crate::c03::ss2022_empty_first_payload(s, &mut cr, rng, cipher, true);
                    }
                }
            }
        }
        None => {
            s.begin_case("no-driver");
            s.oracle_fail("craft", "the Lean driver could not be started for Spec-side building");
        }
    }
    let reps = if tier == "thorough" { 12 } else { 1 };
    for _ in 0..reps {
        for cipher in CIPHERS {
            for style in 0..5u64 {
                for want_user in [false, true] {
                    if want_user && !eih(cipher) {
                        continue;
                    }
                    // byte-by-byte cuts only on small flows
                    ss_case(s, rng, cipher, want_user, style, style != 1 && style != 2 && tier == "thorough");
                }
            }
        }
        for style in 0..5u64 {
            let big = style != 1 && style != 2 && tier == "thorough";
            for cipher in ["aes-128-gcm", "chacha20-poly1305", "aes-256-gcm"] {
                vm_case(s, rng, cipher, style, big);
            }
            tj_case(s, rng, style, big);
            for proto in ["vmess", "trojan", "aes-256-gcm", "2022-blake3-aes-128-gcm"] {
                ws_case(s, rng, proto, style);
            }
            // datagram streams behind the WebSocket adapter: every frame of a message is delivered, however many
            for proto in ["trojan", "vmess-aes", "vmess-chacha"] {
                crate::c02::stream_udp_case(s, rng, proto, style, true);
            }
        }
    }
}
