//! C04: decoding is independent of segmentation, and never stalls — valid streams of every
//! protocol/direction/cipher cut in many ways, through the real FramedRead
use crate::gen_ss::*;
use crate::session::Session;
use crate::util::*;

fn ss_case(s: &mut Session, rng: &mut Rng, cipher: &'static str, want_user: bool, style: u64, big: bool) {
    s.begin_case(&format!("ss:{}:{}:cut{}", cipher, if want_user { "eih" } else { "psk" }, style));
    let cfg = random_cfg(rng, cipher, want_user);
    let with_user = cfg.with_user;
    let Some(f) = open_flow(s, rng, cfg) else {
        s.oracle_fail("ss-setup", "could not create the contexts of a documented configuration");
        return;
    };
    // client -> server
    let writes = random_writes(rng, big);
    let Some(wire) = encode_all(s, &f.client, &writes) else { return };
    let plain: Vec<u8> = writes.concat();
    let pieces = cut(rng, &wire, first_min(cipher, true, with_user), style);
    let d = feed_all(s, &f.server, &pieces, false);
    if d.panic {
        s.oracle_fail(&format!("ss-c2s-panic:{}", cipher), "server decoder panicked on a valid stream");
        return;
    }
    if d.err {
        s.oracle_fail(&format!("ss-c2s-err:{}", cipher), "server decoder reported an error on a valid stream");
        return;
    }
    if d.connect.as_deref() != Some(f.addr.as_str()) {
        s.oracle_fail(&format!("ss-c2s-addr:{}", cipher), &format!("target {:?} instead of {}", d.connect, f.addr));
        return;
    }
    if d.data != plain {
        let what = if plain.starts_with(&d.data) { "stall: complete frames delivered to the adapter were not released" } else { "different plaintext" };
        s.oracle_fail(&format!("ss-c2s-data:{}", cipher), &format!("{} ({} of {} bytes)", what, d.data.len(), plain.len()));
        return;
    }
    // server -> client
    let writes = random_writes(rng, big);
    let Some(wire) = encode_all(s, &f.server, &writes) else { return };
    let plain: Vec<u8> = writes.concat();
    let pieces = cut(rng, &wire, first_min(cipher, false, with_user), style);
    let d = feed_all(s, &f.client, &pieces, true);
    if d.panic || d.err {
        s.oracle_fail(&format!("ss-s2c-err:{}", cipher), "client decoder failed on a valid response stream");
        return;
    }
    if d.data != plain {
        s.oracle_fail(&format!("ss-s2c-data:{}", cipher), &format!("client released {} of {} bytes", d.data.len(), plain.len()));
        return;
    }
    s.mark_nontrivial();
}

pub fn generate(s: &mut Session, tier: &str, rng: &mut Rng) {
    let reps = if tier == "thorough" { 12 } else { 1 };
    for _ in 0..reps {
        for cipher in CIPHERS {
            for style in 0..5u64 {
                for want_user in [false, true] {
                    if want_user && !eih(cipher) {
                        continue;
                    }
                    // byte-by-byte cuts only on small flows
                    ss_case(s, rng, cipher, want_user, style, style != 1 && style != 2 && tier == "thorough");
                }
            }
        }
    }
}
