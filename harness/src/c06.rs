//! C06: no relaying without the credential; users stay separated — near-miss credentials of every
//! kind offered to the real server decoders; oracle: nothing is released (no target, no payload)
use base64ct::{Base64, Encoding};

use crate::c02::timed;
use crate::c04::random_uuid;
use crate::craft::Crafter;
use crate::gen_ss::*;
use crate::session::Session;
use crate::stream::now_secs;
use crate::util::*;

fn be16(n: usize) -> Vec<u8> {
    vec![(n >> 8) as u8, n as u8]
}

fn spec(s: &mut Session, cr: &mut Crafter, q: &str) -> String {
    let a = cr.ask(q);
    s.lines.push(format!("# spec: {} -> {}", &q[..q.len().min(240)], &a[..a.len().min(160)]));
    s.count(&format!("spec:{}", q.split(' ').next().unwrap_or("")));
    a
}

fn must_refuse(s: &mut Session, key: &str, what: &str, d: &Delivered) {
    if d.panic {
        s.oracle_fail(&format!("{}:panic", key), &format!("decoder panicked on {}", what));
    } else if d.connect.is_some() || !d.data.is_empty() {
        s.oracle_fail(&format!("{}:released", key), &format!("{}: a target or payload was released without the credential", what));
    }
}

fn flip_b64(rng: &mut Rng, b64: &str) -> String {
    let mut k = Base64::decode_vec(b64).unwrap_or_default();
    let i = rng.below(k.len() as u64) as usize;
    k[i] ^= 1 << rng.below(8);
    Base64::encode_string(&k)
}

fn ss_cases(s: &mut Session, cr: &mut Crafter, rng: &mut Rng, cipher: &'static str, want_user: bool) {
    let cfg = random_cfg(rng, cipher, want_user);
    s.begin_case(&format!("ss:{}:{}", cipher, if cfg.with_user { "eih" } else { "psk" }));
    let key = format!("ss:{}", cipher);
    let n = key_len(cipher);
    let addr = random_addr(rng);
    let new_server = |s: &mut Session| -> String {
        let (sc, sv) = (s.fresh("sc"), s.fresh("s"));
        s.run(&format!("ss.sctx {} cipher={} password={} users={}", sc, cipher, cfg.server_password, cfg.users));
        s.run(&format!("ss.new {} {} -", sv, sc));
        sv
    };
    let client_stream = |s: &mut Session, password: &str| -> Option<Vec<u8>> {
        let (cc, c) = (s.fresh("cc"), s.fresh("c"));
        if s.run(&format!("ss.cctx {} cipher={} password={}", cc, cipher, password)) != "ok" {
            return None;
        }
        s.run(&format!("ss.new {} {} {}", c, cc, addr));
        encode_all(s, &c, &[b"GET / HTTP/1.1\r\nHost: secret\r\n\r\n".to_vec()])
    };
    // positive control
    if let Some(w) = client_stream(s, &cfg.client_password) {
        let sv = new_server(s);
        let d = feed_all(s, &sv, &[w], false);
        if d.connect.as_deref() != Some(addr.as_str()) {
            s.oracle_fail(&format!("{}:control", key), "the right credential was not accepted");
            return;
        }
    }
    // one bit of the key is wrong
    let wrong = if is2022(cipher) {
        let parts: Vec<&str> = cfg.client_password.split(':').collect();
        let mut p: Vec<String> = parts.iter().map(|x| x.to_string()).collect();
        let i = rng.below(p.len() as u64) as usize;
        p[i] = flip_b64(rng, &p[i]);
        p.join(":")
    } else {
        format!("{}x", cfg.client_password)
    };
    if let Some(w) = client_stream(s, &wrong) {
        let sv = new_server(s);
        let d = feed_all(s, &sv, &[w], true);
        must_refuse(s, &key, "a request under a key with one wrong bit", &d);
    }
    if is2022(cipher) {
        let psk = cfg.server_password.clone();
        let unregistered = Base64::encode_string(&rng.bytes(n));
        if cfg.with_user {
            // identity of an unregistered user
            if let Some(w) = client_stream(s, &format!("{}:{}", psk, unregistered)) {
                let sv = new_server(s);
                let d = feed_all(s, &sv, &[w], true);
                must_refuse(s, &key, "a request naming an unregistered user", &d);
            }
            // identity header naming nobody, session sealed under the *server* key: a peer that holds the
            // server key but no registered user key
            if let Some(w) = client_stream(s, &format!("{}:{}", psk, psk)) {
                let sv = new_server(s);
                let d = feed_all(s, &sv, &[w], true);
                must_refuse(s, &key, "a request from a peer holding only the server key (identity = server key)", &d);
            }
            // no identity header at all (plain PSK client against a multi-user server)
            if let Some(w) = client_stream(s, &psk) {
                let sv = new_server(s);
                let d = feed_all(s, &sv, &[w], true);
                must_refuse(s, &key, "a request without identity header to a multi-user server", &d);
            }
            // registered identity header of one user, session under another (registered) user's key
            let users: Vec<&str> = cfg.users.split(';').map(|u| u.split_once(':').unwrap().1).collect();
            let target = unhex(&s.run(&format!("addr.enc s5 {}", addr))).unwrap_or_default();
            let var = [target, be16(3), rng.bytes(3), b"steal".to_vec()].concat();
            let fixed = [vec![0u8], now_secs().to_be_bytes().to_vec(), be16(var.len())].concat();
            let w = spec(s, cr, &format!("craft.ss2022 cipher={} password={}:{} bodypsk={} salt={} fixed={} var={} chunks=- eih=1", cipher, psk, users[0], users[1], hex(&rng.bytes(n)), hex(&fixed), hex(&var)));
            if let Some(w) = unhex(&w) {
                let sv = new_server(s);
                let d = feed_all(s, &sv, &[w], true);
                must_refuse(s, &key, "user B's packet under user A's identity header", &d);
            }
            // user separation of the response: the answer to alice opens under alice's key only
            let sv = new_server(s);
            let (cc, c) = (s.fresh("cc"), s.fresh("c"));
            s.run(&format!("ss.cctx {} cipher={} password={}:{}", cc, cipher, psk, users[0]));
            s.run(&format!("ss.new {} {} {}", c, cc, addr));
            if let Some(req) = encode_all(s, &c, &[b"hi".to_vec()]) {
                feed_all(s, &sv, &[req], false);
                if let Some(resp) = encode_all(s, &sv, &[b"answer for alice".to_vec()]) {
                    let a = spec(s, cr, &format!("spec.parse.ss2022 cipher={} password={} eih=0 fixedlen={} wire={}", cipher, users[0], 11 + n, hex(&resp)));
                    let b = spec(s, cr, &format!("spec.parse.ss2022 cipher={} password={} eih=0 fixedlen={} wire={}", cipher, users[1], 11 + n, hex(&resp)));
                    let p = spec(s, cr, &format!("spec.parse.ss2022 cipher={} password={} eih=0 fixedlen={} wire={}", cipher, psk, 11 + n, hex(&resp)));
                    if !a.starts_with("ok") || b.starts_with("ok") || p.starts_with("ok") {
                        s.oracle_fail(&format!("{}:user-separation", key), "the response to one user is not sealed under exactly that user's key");
                    }
                }
            }
        } else if eih(cipher) {
            // identity header offered to a single-user server is just garbage in the header position
            if let Some(w) = client_stream(s, &format!("{}:{}", psk, unregistered)) {
                let sv = new_server(s);
                let d = feed_all(s, &sv, &[w], true);
                must_refuse(s, &key, "a request with identity header to a single-user server", &d);
            }
        }
    }
    // truncated valid handshake, then close
    if let Some(w) = client_stream(s, &cfg.client_password) {
        let sv = new_server(s);
        let k = first_min(cipher, true, cfg.with_user).max(n + 1).min(w.len() - 1);
        let d = feed_all(s, &sv, &[w[..k].to_vec()], true);
        if d.connect.is_some() && k < n + 18 {
            s.oracle_fail(&format!("{}:released", key), "a truncated handshake released a target");
        }
    }
    s.mark_nontrivial();
}

fn vm_tj_cases(s: &mut Session, rng: &mut Rng) {
    s.begin_case("vmess");
    let (registered, other) = (random_uuid(rng), random_uuid(rng));
    let addr = random_addr(rng);
    for (uuid, ok) in [(&registered, true), (&other, false)] {
        let (c, sv) = (s.fresh("c"), s.fresh("s"));
        s.run(&format!("vm.client {} uuid={} cipher=aes-128-gcm cmd=tcp addr={}", c, uuid, addr));
        s.run(&format!("vm.server {} users=a:{};b:{}", sv, registered, random_uuid(rng)));
        let Some(w) = encode_all(s, &c, &[b"payload".to_vec()]) else { return };
        let d = feed_all(s, &sv, &[w.clone()], true);
        if ok {
            if d.connect.as_deref() != Some(addr.as_str()) {
                s.oracle_fail("vmess:control", "a registered user id was not accepted");
            }
            // header bits flipped inside the sealed part
            for pos in [20usize, 40, 45, w.len().min(70) - 1] {
                let sv2 = s.fresh("s");
                s.run(&format!("vm.server {} users=a:{}", sv2, registered));
                let mut m = w.clone();
                m[pos] ^= 0x10;
                let d = feed_all(s, &sv2, &[m], true);
                if d.connect.is_some() && pos < 61 {
                    s.oracle_fail("vmess:released", "a request with a modified sealed header released a target");
                }
            }
        } else {
            must_refuse(s, "vmess", "a request of an unregistered user id", &d);
        }
    }
    s.mark_nontrivial();
    // several inbounds in one process, each with its own users: an id registered with one is a stranger to the other
    s.begin_case("vmess:two-inbounds");
    let (u1, u2) = (random_uuid(rng), random_uuid(rng));
    for (client_id, server_id, ok) in [(&u1, &u1, true), (&u2, &u2, true), (&u1, &u2, false), (&u2, &u1, false), (&u2, &u2, true)] {
        let (c, sv) = (s.fresh("c"), s.fresh("s"));
        let addr = random_addr(rng);
        s.run(&format!("vm.client {} uuid={} cipher=aes-128-gcm cmd=tcp addr={}", c, client_id, addr));
        s.run(&format!("vm.server {} users=only:{}", sv, server_id));
        let Some(w) = encode_all(s, &c, &[b"payload".to_vec()]) else { return };
        let d = feed_all(s, &sv, &[w], true);
        if ok && d.connect.as_deref() != Some(addr.as_str()) {
            s.oracle_fail("vmess:control", "an inbound did not accept its own registered user id");
        } else if !ok {
            must_refuse(s, "vmess", "a request of a user id registered with another inbound only", &d);
        }
    }
    s.mark_nontrivial();
    // several trojan inbounds in one process, each with its own password: each checks its own
    s.begin_case("trojan:two-inbounds");
    let (p1, p2) = (format!("first-{}", rng.below(1 << 40)), format!("second-{}", rng.below(1 << 40)));
    for (client_pw, server_pw, ok) in [(&p1, &p1, true), (&p2, &p2, true), (&p1, &p2, false), (&p2, &p1, false), (&p2, &p2, true)] {
        let (c, sv) = (s.fresh("c"), s.fresh("s"));
        let addr = random_addr(rng);
        s.run(&format!("tj.client {} password={} cmd=tcp addr={}", c, client_pw, addr));
        s.run(&format!("tj.server {} password={}", sv, server_pw));
        let Some(w) = encode_all(s, &c, &[b"payload".to_vec()]) else { return };
        let d = feed_all(s, &sv, &[w], true);
        if ok && d.connect.as_deref() != Some(addr.as_str()) {
            s.oracle_fail("trojan:control", "an inbound did not accept its own password");
        } else if !ok {
            must_refuse(s, "trojan", "a request with the password of another inbound of the same process", &d);
        }
    }
    s.mark_nontrivial();
    s.begin_case("trojan");
    let pw = "correct horse battery";
    let pw = pw.replace(' ', "-");
    for (p, ok) in [(pw.clone(), true), (format!("{}x", pw), false), (pw.to_uppercase(), false), (pw[..pw.len() - 1].to_owned(), false)] {
        let (c, sv) = (s.fresh("c"), s.fresh("s"));
        s.run(&format!("tj.client {} password={} cmd=tcp addr={}", c, p, addr));
        s.run(&format!("tj.server {} password={}", sv, pw));
        let Some(w) = encode_all(s, &c, &[b"payload".to_vec()]) else { return };
        let d = feed_all(s, &sv, &[w.clone()], true);
        if ok {
            if d.connect.as_deref() != Some(addr.as_str()) {
                s.oracle_fail("trojan:control", "the right password was not accepted");
            }
            // the digest in upper case, and with one character changed
            let sv2 = s.fresh("s");
            s.run(&format!("tj.server {} password={}", sv2, pw));
            let mut m = w.clone();
            m[..56].make_ascii_uppercase();
            if m != w {
                let d = feed_all(s, &sv2, &[m], true);
                must_refuse(s, "trojan", "the digest in upper case", &d);
            }
            let sv3 = s.fresh("s");
            s.run(&format!("tj.server {} password={}", sv3, pw));
            let mut m = w.clone();
            m[rng.below(56) as usize] ^= 1;
            let d = feed_all(s, &sv3, &[m], true);
            must_refuse(s, "trojan", "a digest with one wrong character", &d);
        } else {
            must_refuse(s, "trojan", "a request with a wrong password", &d);
        }
    }
    s.mark_nontrivial();
}

/// the same for datagrams: the udp codec of the server releases a datagram only for the configured key, and
/// with users only for a registered user key named by the identity header; replies are sealed for that user alone
fn ss_udp_cases(s: &mut Session, rng: &mut Rng, cipher: &'static str, want_user: bool) {
    let cfg = random_cfg(rng, cipher, want_user);
    s.begin_case(&format!("ss-udp:{}:{}", cipher, if cfg.with_user { "eih" } else { "psk" }));
    let key = format!("ss-udp:{}", cipher);
    let n = key_len(cipher);
    let us = s.fresh("us");
    s.run(&format!("ssu.server {} cipher={} password={} users={}", us, cipher, cfg.server_password, cfg.users));
    let offer = |s: &mut Session, rng: &mut Rng, password: &str| -> Option<(String, String)> {
        let uc = s.fresh("uc");
        if s.run(&format!("ssu.client {} cipher={} password={}", uc, cipher, password)) != "ok" {
            return None;
        }
        let w = timed(s, &format!("ssu.cenc {} addr={} payload={}", uc, random_addr(rng), hex(&rng.bytes(20))));
        unhex(&w)?;
        Some((uc, timed(s, &format!("ssu.sdec {} {}", us, w))))
    };
    // positive control, attributed to the right user
    let Some((uc_good, r)) = offer(s, rng, &cfg.client_password) else { return };
    let want_name = if cfg.with_user { cfg.users.split(';').find(|u| cfg.client_password.ends_with(u.split_once(':').unwrap().1)).map(|u| u.split_once(':').unwrap().0.to_owned()).unwrap_or_default() } else { "-".to_owned() };
    if !r.starts_with("ok ") || !r.contains(&format!(" user={} ", want_name)) {
        s.oracle_fail(&format!("{}:control", key), &format!("the right credential was not accepted / attributed: {}", &r[..r.len().min(60)]));
        return;
    }
    let mut variants: Vec<(String, &str)> = vec![];
    if is2022(cipher) {
        let psk = cfg.server_password.clone();
        let parts: Vec<String> = cfg.client_password.split(':').map(|x| x.to_string()).collect();
        for i in 0..parts.len() {
            let mut p = parts.clone();
            p[i] = flip_b64(rng, &p[i]);
            variants.push((p.join(":"), "a datagram under a key with one wrong bit"));
        }
        let unregistered = Base64::encode_string(&rng.bytes(n));
        if cfg.with_user {
            variants.push((format!("{}:{}", psk, unregistered), "a datagram naming an unregistered user"));
            variants.push((format!("{}:{}", psk, psk), "a datagram from a peer holding only the server key (identity = server key)"));
            variants.push((psk.clone(), "a datagram without identity header to a multi-user server"));
            variants.push((parts[parts.len() - 1].clone(), "a datagram under a user key without the server key"));
            variants.push((format!("{}:{}", unregistered, parts[parts.len() - 1]), "a datagram of a registered user under a wrong server key"));
        } else {
            variants.push((unregistered.clone(), "a datagram under an unrelated key"));
            if eih(cipher) {
                variants.push((format!("{}:{}", psk, unregistered), "a datagram with identity header to a single-user server"));
            }
        }
    } else {
        variants.push((format!("{}x", cfg.client_password), "a datagram under another password"));
        variants.push((cfg.client_password.to_uppercase() + "_", "a datagram under another password"));
    }
    for (pw, what) in variants {
        if let Some((_, r)) = offer(s, rng, &pw) {
            if r.starts_with("ok") {
                s.oracle_fail(&format!("{}:released", key), &format!("{}: released without the credential: {}", what, &r[..r.len().min(60)]));
            } else if r.starts_with("panic") {
                s.oracle_fail(&format!("{}:panic", key), &format!("decoder panicked on {}", what));
            }
        }
    }
    // a registered user cannot speak as another: after user B's own datagram on session X (which fills the server's
    // cipher cache for X), a datagram sealed under B's key whose identity header names user A is refused
    if cfg.with_user {
        if let Some(mut cr) = Crafter::new() {
            let users: Vec<(&str, &str)> = cfg.users.split(';').map(|u| u.split_once(':').unwrap()).collect();
            let (b_name, b_key) = *users.iter().find(|(n, _)| *n == want_name).unwrap();
            if let Some((a_name, a_key)) = users.iter().find(|(n, _)| *n != want_name) {
                let sid = 1 + rng.below(1 << 50);
                let body = |rng: &mut Rng| [vec![0u8], now_secs().to_be_bytes().to_vec(), vec![0, 0], vec![1, 1, 2, 3, 4, 0, 53], rng.bytes(9)].concat();
                let w = cr.ask(&format!("craft.ssu cipher={} password={} ipsk={} sid={} pid=1 rnd=- body={}", cipher, b_key, cfg.server_password, sid, hex(&body(rng))));
                let r = timed(s, &format!("ssu.sdec {} {}", us, w));
                if !r.starts_with("ok ") || !r.contains(&format!(" user={} ", b_name)) {
                    s.oracle_fail(&format!("{}:control", key), "a registered user's crafted datagram was not accepted / attributed");
                }
                let w = cr.ask(&format!("craft.ssu cipher={} password={} ipsk={} eihfor={} sid={} pid=2 rnd=- body={}", cipher, b_key, cfg.server_password, a_key, sid, hex(&body(rng))));
                let r = timed(s, &format!("ssu.sdec {} {}", us, w));
                if r.starts_with("ok") {
                    s.oracle_fail(&format!("{}:impersonation", key), &format!("a datagram sealed under {}'s key but naming {} in its identity header was accepted: {}", b_name, a_name, &r[..r.len().min(60)]));
                }
            }
        }
    }
    // the reply to one user opens for that user only (another registered user with the same session id gets nothing)
    if cfg.with_user {
        let csid = 1 + rng.below(1 << 50);
        s.run(&format!("ssu.setid {} csid={}", uc_good, csid));
        let other = cfg.users.split(';').map(|u| u.split_once(':').unwrap()).find(|(name, _)| *name != want_name);
        if let Some((_, other_key)) = other {
            let uo = s.fresh("uc");
            s.run(&format!("ssu.client {} cipher={} password={}:{}", uo, cipher, cfg.server_password, other_key));
            s.run(&format!("ssu.setid {} csid={}", uo, csid));
            let w = timed(s, &format!("ssu.senc {} csid={} ssid={} pid=1 user={} addr={} payload={}", us, csid, rng.below(1 << 50), want_name, random_addr(rng), hex(b"for one user only")));
            let own = timed(s, &format!("ssu.cdec {} {}", uc_good, w));
            let foreign = timed(s, &format!("ssu.cdec {} {}", uo, w));
            if !own.starts_with("ok") || foreign.starts_with("ok") {
                s.oracle_fail(&format!("{}:user-separation", key), "a reply is not sealed for exactly the user it belongs to");
            }
        }
    }
    s.mark_nontrivial();
}

/// requests sealed under command keys that belong to no configured user - in particular the keys a table holds when it
/// was built carelessly (all zero, all ones) - and, for a Shadowsocks 2022 server with a single user, every way of
/// holding only part of the credential
fn unregistered_key_cases(s: &mut Session, cr: &mut Crafter, rng: &mut Rng) {
    use base64ct::{Base64, Encoding};
    s.begin_case("vmess:raw-command-keys");
    let addr = random_addr(rng);
    let vm_target = unhex(s.run(&format!("addr.enc vm {}", addr)).strip_prefix("ok ").unwrap_or("-")).unwrap_or_default();
    for users in 1..=3usize {
        let list: Vec<String> = (0..users).map(|i| format!("u{}:{}", i, random_uuid(rng))).collect();
        for ck in [vec![0u8; 16], vec![0xffu8; 16], rng.bytes(16)] {
            let sv = s.fresh("s");
            s.run(&format!("vm.server {} users={}", sv, list.join(";")));
            let (iv, key16) = (rng.bytes(16), rng.bytes(16));
            let instr = spec(s, cr, &format!("craft.vm.instr iv={} key={} v=7 opt=17 padsec=3 cmd=1 pta={} padding=-", hex(&iv), hex(&key16), hex(&vm_target)));
            let head = spec(s, cr, &format!("craft.vm.req cmdkey={} time={} rand={} nonce={} header={}", hex(&ck), crate::stream::now_secs(), hex(&rng.bytes(4)), hex(&rng.bytes(8)), instr));
            let Some(w) = unhex(&head) else {
                s.oracle_fail("craft", "spec builder unavailable");
                return;
            };
            let d = feed_all(s, &sv, &[w], true);
            must_refuse(s, "vmess", &format!("a request sealed under the command key {} that no configured user has ({} users)", hex(&ck[..2]), users), &d);
        }
    }
    s.mark_nontrivial();
    for (cipher, n) in [("2022-blake3-aes-128-gcm", 16usize), ("2022-blake3-aes-256-gcm", 32)] {
        s.begin_case(&format!("ss:{}:single-user", cipher));
        let k = |rng: &mut Rng| Base64::encode_string(&rng.bytes(n));
        let (psk, user, other_psk, other_user) = (k(rng), k(rng), k(rng), k(rng));
        for (what, client_pw, ok) in [
            ("both keys", format!("{}:{}", psk, user), true),
            ("the user's key but not the server's", format!("{}:{}", other_psk, user), false),
            ("the server's key but not the user's", format!("{}:{}", psk, other_user), false),
            ("the user's key alone, no identity header", user.clone(), false),
            ("the server's key alone, no identity header", psk.clone(), false),
        ] {
            let (cc, sc, c, sv) = (s.fresh("cc"), s.fresh("sc"), s.fresh("c"), s.fresh("s"));
            let addr = random_addr(rng);
            s.run(&format!("ss.cctx {} cipher={} password={}", cc, cipher, client_pw));
            s.run(&format!("ss.sctx {} cipher={} password={} users=solo:{}", sc, cipher, psk, user));
            s.run(&format!("ss.new {} {} {}", c, cc, addr));
            s.run(&format!("ss.new {} {} -", sv, sc));
            let Some(w) = encode_all(s, &c, &[b"payload".to_vec()]) else { return };
            let d = feed_all(s, &sv, &[w], true);
            if ok {
                if d.connect.as_deref() != Some(addr.as_str()) {
                    s.oracle_fail(&format!("ss:{}:control", cipher), "the single configured user was not accepted");
                }
            } else {
                must_refuse(s, &format!("ss:{}", cipher), &format!("a single-user server, a client that holds {}", what), &d);
            }
        }
        s.mark_nontrivial();
    }
}

pub fn generate(s: &mut Session, tier: &str, rng: &mut Rng) {
    let Some(mut cr) = Crafter::new() else {
        s.begin_case("no-driver");
        s.oracle_fail("craft", "the Lean driver could not be started for Spec-side building");
        return;
    };
    let reps = if tier == "thorough" { 8 } else { 1 };
    for _ in 0..reps {
        for cipher in CIPHERS {
            ss_cases(s, &mut cr, rng, cipher, false);
            if eih(cipher) {
                ss_cases(s, &mut cr, rng, cipher, true);
            }
        }
        for cipher in CIPHERS {
            ss_udp_cases(s, rng, cipher, false);
            if eih(cipher) {
                ss_udp_cases(s, rng, cipher, true);
            }
        }
        vm_tj_cases(s, rng);
        unregistered_key_cases(s, &mut cr, rng);
    }
    // the real server: two users, one session id — each reply is sealed for the user whose datagram it answers
    for cfg in crate::e2e_gen::protocol_ciphers(rng) {
        if cfg.protocol != "shadowsocks" || cfg.users == "-" {
            continue;
        }
        s.begin_case(&format!("e2e-udp-owner:{}", cfg.cipher));
        let Some(w) = cfg.start(s, false, 2) else { continue };
        let r = s.run(&format!("e2e.udpowner {}", w));
        if r != "a=ok b=ok a=ok" {
            s.oracle_fail(&format!("e2e-udp-owner:{}", cfg.cipher), &format!("replies of the real server to two users sharing a session id: `{}`", r));
        }
        s.run(&format!("e2e.stop {}", w));
        s.mark_nontrivial();
    }
    // a user table whose keys cannot be used must stop the start-up: a server that skipped them would serve whoever
    // holds the server key alone
    crate::c16::bad_user_keys(s, rng);
}
