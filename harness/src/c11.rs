//! C11: packet-id window — generated histories against the real `PacketWindowFilter`,
//! with the set specification evaluated directly on the implementation's answers (oracle).
use std::collections::BTreeSet;

use crate::session::Session;
use crate::util::{Rng, hex};

const W: u64 = 8128;

fn spec_accept(set: &BTreeSet<u64>, id: u64, limit: u64) -> bool {
    if id >= limit || set.contains(&id) {
        return false;
    }
    match set.iter().next_back() {
        None => true,
        Some(max) => *max <= id.saturating_add(W) && (id as u128 + W as u128) >= *max as u128,
    }
}

fn history(s: &mut Session, kind: &str, ids: &[u64], limit: u64) {
    s.begin_case(kind);
    let f = s.fresh("f");
    s.run(&format!("pw.new {}", f));
    let mut set = BTreeSet::new();
    let (mut acc, mut rej) = (0, 0);
    for id in ids {
        let r = s.run(&format!("pw.val {} {} {}", f, id, limit));
        let want = spec_accept(&set, *id, limit);
        if want {
            set.insert(*id);
        }
        if (r == "1") != want {
            s.oracle_fail("window", &format!("id {} answered {} but the window specification says {}", id, r, want as u8));
            return;
        }
        if r == "1" { acc += 1 } else { rej += 1 }
    }
    if acc > 0 && rej > 0 {
        s.mark_nontrivial();
    }
}

/// the filter where it is used: the client's datagram codec fed histories of replies — own session and foreign
/// sessions mixed, duplicates, stale ids, far jumps.  Oracle = the property itself: a reply is delivered iff it is
/// of this session, not delivered before, and at most 8128 behind the highest delivered id; whatever was refused
/// (duplicate, stale, foreign) changes nothing for the packets that follow.
pub fn codec_histories(s: &mut Session, rng: &mut Rng, thorough: bool) {
    use crate::c02::timed;
    use crate::gen_ss::*;
    for cipher in CIPHERS {
        if !is2022(cipher) {
            continue;
        }
        for round in 0..if thorough { 6 } else { 1 } {
            s.begin_case(&format!("codec-history:{}:{}", cipher, round));
            let cfg = random_cfg(rng, cipher, false);
            let (uc, us) = (s.fresh("uc"), s.fresh("us"));
            s.run(&format!("ssu.client {} cipher={} password={}", uc, cipher, cfg.client_password));
            s.run(&format!("ssu.server {} cipher={} password={} users=-", us, cipher, cfg.server_password));
            let csid = 1 + rng.below(1 << 50);
            s.run(&format!("ssu.setid {} csid={}", uc, csid));
            let ssid = rng.next();
            let mut seen = std::collections::HashSet::new();
            let mut highest: Option<u64> = None;
            let mut base = rng.below(1 << 20);
            for step in 0..if thorough { 120 } else { 40 } {
                let foreign = rng.chance(1, 4);
                let pid = match rng.below(10) {
                    0 => { base += 8100 + rng.below(60); base }                 // around one window ahead
                    1 => { base += 20000 + rng.below(1 << 30); base }           // far jump
                    2 => base.saturating_sub(8120 + rng.below(20)),             // around the stale edge
                    3 if foreign => base + (1 << 40),                           // a far foreign id
                    _ => base.saturating_sub(rng.below(40)) + rng.below(30),    // near the top, many repeats
                };
                let sid = if foreign { csid ^ (1 + rng.below(1 << 20)) } else { csid };
                let w = timed(s, &format!("ssu.senc {} csid={} ssid={} pid={} addr=4:01020304:53 payload={}", us, sid, ssid, pid, hex(&rng.bytes(3))));
                let r = timed(s, &format!("ssu.cdec {} {}", uc, w));
                let want = !foreign && !seen.contains(&pid) && highest.map(|h| pid > h || h - pid <= 8128).unwrap_or(true);
                if r.starts_with("ok") != want || r.starts_with("err") || r.starts_with("panic") {
                    s.oracle_fail("codec-window", &format!("step {}: reply with id {} of {} session (highest delivered {:?}, delivered before: {}) was {}", step, pid, if foreign { "a foreign" } else { "the own" }, highest, seen.contains(&pid), &r[..r.len().min(12)]));
                    break;
                }
                if want {
                    seen.insert(pid);
                    highest = Some(highest.map(|h| h.max(pid)).unwrap_or(pid));
                }
                if !foreign && pid > base {
                    base = pid;
                }
            }
            s.mark_nontrivial();
        }
        // replies of two server sessions (the server was restarted, or two servers behind one address) recorded and sent
        // again alternately: whatever the server session, an id that was delivered is never delivered again
        s.begin_case(&format!("codec-replay-two-server-sessions:{}", cipher));
        let cfg = random_cfg(rng, cipher, false);
        let (uc, us) = (s.fresh("uc"), s.fresh("us"));
        s.run(&format!("ssu.client {} cipher={} password={}", uc, cipher, cfg.client_password));
        s.run(&format!("ssu.server {} cipher={} password={} users=-", us, cipher, cfg.server_password));
        let csid = 1 + rng.below(1 << 50);
        s.run(&format!("ssu.setid {} csid={}", uc, csid));
        let (s1, s2) = (rng.next(), rng.next());
        let mut recorded = vec![];
        for i in 0..6u64 {
            for (ssid, pid) in [(s1, 100 + i), (s2, 3000 + i)] {
                let w = timed(s, &format!("ssu.senc {} csid={} ssid={} pid={} addr=4:01020304:53 payload={}", us, csid, ssid, pid, hex(&rng.bytes(3))));
                let r = timed(s, &format!("ssu.cdec {} {}", uc, w));
                if !r.starts_with("ok") {
                    s.oracle_fail("codec-window", &format!("a fresh reply (id {}) was not delivered: {}", pid, &r[..r.len().min(40)]));
                }
                recorded.push((pid, w));
            }
        }
        for round in 0..2 {
            for (pid, w) in &recorded {
                let r = timed(s, &format!("ssu.cdec {} {}", uc, w));
                if r.starts_with("ok") {
                    s.oracle_fail("codec-window", &format!("replay round {}: the recorded reply with id {} was delivered a second time", round, pid));
                }
            }
        }
        s.mark_nontrivial();
    }
}

pub fn generate(s: &mut Session, tier: &str, rng: &mut Rng) {
    let top = u64::MAX;
    let lim_wg = u64::MAX - (1u64 << 13);
    // boundary alphabet around 0, block edges, the window edge, ring wrap, the top of the range
    let base: Vec<u64> = vec![0, 1, 2, 63, 64, 65, 127, 128, 8127, 8128, 8129, 8130, 8191, 8192, 8193, 16256, 16320, 16384, 24384];
    // the repo's own vector, plus the duplicate / stale probes of the property text
    let t = W + 1;
    history(s, "wireguard-vector", &[0, 1, 1, 9, 8, 7, 7, t, t - 1, t - 1, t - 2, 2, 2, t + 16, 3, t + 16, t * 4, t * 4 - (t - 1), 10, t * 4 - t, t * 4 - (t + 1), t * 4 - (t - 2), t * 4 + 1 - t, 0, lim_wg, lim_wg - 1, lim_wg, lim_wg - 1, lim_wg - 2, lim_wg + 1, lim_wg + 2, lim_wg - 2, lim_wg - 3, 0], lim_wg);
    // exhaustive short histories over a small boundary alphabet
    let alpha: Vec<u64> = vec![0, 1, 63, 64, 8127, 8128, 8129, 8192, 8193, 16320, top - 1, top];
    let depth = if tier == "thorough" { 4 } else { 3 };
    let mut idx = vec![0usize; depth];
    'outer: loop {
        let ids: Vec<u64> = idx.iter().map(|i| alpha[*i]).collect();
        history(s, "exhaustive", &ids, top);
        let mut k = depth;
        loop {
            if k == 0 {
                break 'outer;
            }
            k -= 1;
            idx[k] += 1;
            if idx[k] < alpha.len() {
                break;
            }
            idx[k] = 0;
        }
    }
    // window edge relative to an arbitrary high-water mark: last, then last-8127..last-8130
    for _ in 0..if tier == "thorough" { 2000 } else { 200 } {
        let last = rng.range(8200, top - 10);
        let mut ids = vec![last];
        for d in [8126u64, 8127, 8128, 8129, 8130, 8128, 1, 0] {
            ids.push(last - d);
        }
        ids.push(last + rng.range(1, 9000).min(top - last));
        ids.push(last - 8128);
        ids.push(last);
        history(s, "edge", &ids, top);
    }
    // an id accepted in the oldest block the window still covers, then small advances that stay inside the newest block
    // (no block may be cleared by them), then the old id again: it is a duplicate.  All offsets of the old id inside
    // its block, advances of 1..3 ids, high-water marks at every position of their block.
    for k in 0..if tier == "thorough" { 1200 } else { 160 } {
        let base = if k % 5 == 0 { 0 } else { rng.range(0, top - 40000) & !63 };
        let x = base + rng.range(0, 63);
        // a high-water mark at most one window above x, in the newest block that still covers x's block
        let hi = (x + W - rng.range(0, 63)).min(top - 8);
        let mut ids = vec![x, hi];
        let mut cur = hi;
        for _ in 0..1 + k % 3 {
            // stay inside the block of `cur` where there is room
            let step = if cur % 64 == 63 { 0 } else { 1 };
            cur += step;
            if step == 1 && cur <= x + W {
                ids.push(cur);
            }
        }
        ids.push(x);
        ids.push(x + 1);
        ids.push(x);
        history(s, "old-block-then-small-advances", &ids, top);
    }
    // the same edges at the very top of the 64-bit range (both production callers pass u64::MAX as the limit)
    for k in 0..if tier == "thorough" { 200 } else { 24 } {
        let last = top - 1 - (k % 4);
        let mut ids = vec![last - 9000, last];
        for d in [1u64, 2, 63, 64, 65, 8126, 8127, 8128, 8129, 8130, 8128, 1] {
            ids.push(last - d);
        }
        ids.push(last - rng.range(1, 8128));
        ids.push(last);
        ids.push(top - 1);
        ids.push(top);
        history(s, "edge-top", &ids, top);
    }
    // random walks: mostly small steps forward/backward, sometimes jumps beyond the ring, duplicates
    let walks = if tier == "thorough" { 400 } else { 40 };
    for _ in 0..walks {
        let mut cur: u64 = *rng.pick(&base) + rng.below(3) * (1u64 << rng.range(0, 62));
        let n = rng.range(50, if tier == "thorough" { 5000 } else { 600 });
        let mut ids = Vec::with_capacity(n as usize);
        for _ in 0..n {
            let c = rng.below(100);
            let id = if c < 45 {
                cur.saturating_add(rng.range(1, 70))
            } else if c < 75 {
                cur.saturating_sub(rng.range(0, 200))
            } else if c < 85 {
                cur.saturating_sub(rng.range(8000, 8300))
            } else if c < 92 {
                cur.saturating_add(rng.range(8000, 20000))
            } else if c < 96 {
                *rng.pick(&base)
            } else {
                cur
            };
            if id > cur {
                cur = id;
            }
            ids.push(id);
        }
        let limit = if rng.chance(1, 4) { cur.saturating_sub(rng.below(100)) } else { top };
        history(s, "walk", &ids, limit);
    }
    codec_histories(s, rng, tier == "thorough");
    // the real server: a refused duplicate does not end the session or disturb the packets that follow
    for cfg in crate::e2e_gen::protocol_ciphers(rng) {
        if cfg.protocol != "shadowsocks" || !cfg.cipher.starts_with("2022") {
            continue;
        }
        if tier != "thorough" && !(cfg.cipher.ends_with("aes-128-gcm") || cfg.cipher.ends_with("chacha20-poly1305")) {
            continue;
        }
        s.begin_case(&format!("e2e-replay:{}:{}", cfg.cipher, cfg.users != "-"));
        let Some(w) = cfg.start(s, false, 2) else { continue };
        let r = s.run(&format!("e2e.udpreplay {}", w));
        if r != "ok" {
            s.oracle_fail("e2e-replay", &format!("{}: a replayed datagram disturbed its session: `{}`", cfg.label(), r));
        }
        s.run(&format!("e2e.stop {}", w));
        s.mark_nontrivial();
    }
}
