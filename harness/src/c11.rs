//! C11: packet-id window — generated histories against the real `PacketWindowFilter`,
//! with the set specification evaluated directly on the implementation's answers (oracle).
use std::collections::BTreeSet;

use crate::session::Session;
use crate::util::Rng;

const W: u64 = 8128;

fn spec_accept(set: &BTreeSet<u64>, id: u64, limit: u64) -> bool {
    if id >= limit || set.contains(&id) {
        return false;
    }
    match set.iter().next_back() {
        None => true,
        Some(max) => *max <= id.saturating_add(W) && (id as u128 + W as u128) >= *max as u128,
    }
}

fn history(s: &mut Session, kind: &str, ids: &[u64], limit: u64) {
    s.begin_case(kind);
    let f = s.fresh("f");
    s.run(&format!("pw.new {}", f));
    let mut set = BTreeSet::new();
    let (mut acc, mut rej) = (0, 0);
    for id in ids {
        let r = s.run(&format!("pw.val {} {} {}", f, id, limit));
        let want = spec_accept(&set, *id, limit);
        if want {
            set.insert(*id);
        }
        if (r == "1") != want {
            s.oracle_fail("window", &format!("id {} answered {} but the window specification says {}", id, r, want as u8));
            return;
        }
        if r == "1" { acc += 1 } else { rej += 1 }
    }
    if acc > 0 && rej > 0 {
        s.mark_nontrivial();
    }
}

pub fn generate(s: &mut Session, tier: &str, rng: &mut Rng) {
    let top = u64::MAX;
    let lim_wg = u64::MAX - (1u64 << 13);
    // boundary alphabet around 0, block edges, the window edge, ring wrap, the top of the range
    let base: Vec<u64> = vec![0, 1, 2, 63, 64, 65, 127, 128, 8127, 8128, 8129, 8130, 8191, 8192, 8193, 16256, 16320, 16384, 24384];
    // the repo's own vector, plus the duplicate / stale probes of the property text
    let t = W + 1;
    history(s, "wireguard-vector", &[0, 1, 1, 9, 8, 7, 7, t, t - 1, t - 1, t - 2, 2, 2, t + 16, 3, t + 16, t * 4, t * 4 - (t - 1), 10, t * 4 - t, t * 4 - (t + 1), t * 4 - (t - 2), t * 4 + 1 - t, 0, lim_wg, lim_wg - 1, lim_wg, lim_wg - 1, lim_wg - 2, lim_wg + 1, lim_wg + 2, lim_wg - 2, lim_wg - 3, 0], lim_wg);
    // exhaustive short histories over a small boundary alphabet
    let alpha: Vec<u64> = vec![0, 1, 63, 64, 8127, 8128, 8129, 8192, 8193, 16320, top - 1, top];
    let depth = if tier == "thorough" { 4 } else { 3 };
    let mut idx = vec![0usize; depth];
    'outer: loop {
        let ids: Vec<u64> = idx.iter().map(|i| alpha[*i]).collect();
        history(s, "exhaustive", &ids, top);
        let mut k = depth;
        loop {
            if k == 0 {
                break 'outer;
            }
            k -= 1;
            idx[k] += 1;
            if idx[k] < alpha.len() {
                break;
            }
            idx[k] = 0;
        }
    }
    // window edge relative to an arbitrary high-water mark: last, then last-8127..last-8130
    for _ in 0..if tier == "thorough" { 2000 } else { 200 } {
        let last = rng.range(8200, top - 10);
        let mut ids = vec![last];
        for d in [8126u64, 8127, 8128, 8129, 8130, 8128, 1, 0] {
            ids.push(last - d);
        }
        ids.push(last + rng.range(1, 9000).min(top - last));
        ids.push(last - 8128);
        ids.push(last);
        history(s, "edge", &ids, top);
    }
    // random walks: mostly small steps forward/backward, sometimes jumps beyond the ring, duplicates
    let walks = if tier == "thorough" { 400 } else { 40 };
    for _ in 0..walks {
        let mut cur: u64 = *rng.pick(&base) + rng.below(3) * (1u64 << rng.range(0, 62));
        let n = rng.range(50, if tier == "thorough" { 5000 } else { 600 });
        let mut ids = Vec::with_capacity(n as usize);
        for _ in 0..n {
            let c = rng.below(100);
            let id = if c < 45 {
                cur.saturating_add(rng.range(1, 70))
            } else if c < 75 {
                cur.saturating_sub(rng.range(0, 200))
            } else if c < 85 {
                cur.saturating_sub(rng.range(8000, 8300))
            } else if c < 92 {
                cur.saturating_add(rng.range(8000, 20000))
            } else if c < 96 {
                *rng.pick(&base)
            } else {
                cur
            };
            if id > cur {
                cur = id;
            }
            ids.push(id);
        }
        let limit = if rng.chance(1, 4) { cur.saturating_sub(rng.below(100)) } else { top };
        history(s, "walk", &ids, limit);
    }
}
