//! C05: tampered or reflected ciphertext is never delivered as plaintext — every kind of mutation of
//! valid encrypted streams, fed to the real decoders under the real adapters; oracle: what is released
//! is a prefix of what the legitimate sender wrote (and the target, if released, is the real one)
use crate::c04::random_uuid;
use crate::gen_ss::*;
use crate::session::Session;
use crate::util::*;

struct Pair {
    client: String,
    server: String,
    addr: String,
    first_min_c2s: usize,
    first_min_s2c: usize,
    proto: String,
    /// recreate a fresh server decoder (same credentials) for another mutation of the same request
    remake_server: Box<dyn Fn(&mut Session, bool) -> String>,
    /// another client of the same credentials and target (a second connection of the same user)
    remake_client: Box<dyn Fn(&mut Session) -> String>,
}

fn make_pair(s: &mut Session, rng: &mut Rng, proto: &'static str, ws: bool) -> Option<Pair> {
    let (c, sv) = (s.fresh("c"), s.fresh("s"));
    let addr = random_addr(rng);
    let ad = if ws { " adapter=ws" } else { "" };
    if proto.starts_with("vmess-") {
        let cipher = if proto.starts_with("vmess-aes") { "aes-128-gcm" } else { "chacha20-poly1305" };
        // (`-udp`: the udp command - every write is one datagram, one chunk each)
        let cmd = if proto.ends_with("-udp") { "udp" } else { "tcp" };
        let uuid = random_uuid(rng);
        s.run(&format!("vm.client {} uuid={} cipher={} cmd={} addr={}", c, uuid, cipher, cmd, addr));
        s.run(&format!("vm.server {} users=a:{}{}", sv, uuid, ad));
        let u = uuid.clone();
        let (u2, a2) = (uuid.clone(), addr.clone());
        return Some(Pair { client: c, server: sv, addr, first_min_c2s: 1, first_min_s2c: 1, proto: proto.into(), remake_server: Box::new(move |s, ws| {
            let n = s.fresh("s");
            s.run(&format!("vm.server {} users=a:{}{}", n, u, if ws { " adapter=ws" } else { "" }));
            n
        }), remake_client: Box::new(move |s| {
            let n = s.fresh("c");
            s.run(&format!("vm.client {} uuid={} cipher={} cmd={} addr={}", n, u2, cipher, cmd, a2));
            n
        }) });
    }
    let cipher: &'static str = CIPHERS.iter().find(|x| **x == proto)?;
    let wu = rng.chance(1, 2);
    let cfg = random_cfg(rng, cipher, eih(cipher) && wu);
    let (cc, sc) = (s.fresh("cc"), s.fresh("sc"));
    s.run(&format!("ss.cctx {} cipher={} password={}", cc, cipher, cfg.client_password));
    s.run(&format!("ss.sctx {} cipher={} password={} users={}", sc, cipher, cfg.server_password, cfg.users));
    s.run(&format!("ss.new {} {} {}", c, cc, addr));
    s.run(&format!("ss.new {} {} -{}", sv, sc, ad));
    let (pw, users) = (cfg.server_password.clone(), cfg.users.clone());
    let (cpw, a2) = (cfg.client_password.clone(), addr.clone());
    Some(Pair {
        client: c,
        server: sv,
        addr,
        first_min_c2s: first_min(cipher, true, cfg.with_user),
        first_min_s2c: first_min(cipher, false, cfg.with_user),
        proto: proto.into(),
        // a fresh context: the replay cache must not turn the mutated copies into replays
        remake_server: Box::new(move |s, ws| {
            let (sc, n) = (s.fresh("sc"), s.fresh("s"));
            s.run(&format!("ss.sctx {} cipher={} password={} users={}", sc, cipher, pw, users));
            s.run(&format!("ss.new {} {} -{}", n, sc, if ws { " adapter=ws" } else { "" }));
            n
        }),
        // (its own context: the replay cache of the first connection must not mask the binding check)
        remake_client: Box::new(move |s| {
            let (cc, n) = (s.fresh("cc"), s.fresh("c"));
            s.run(&format!("ss.cctx {} cipher={} password={}", cc, cipher, cpw));
            s.run(&format!("ss.new {} {} {}", n, cc, a2));
            n
        }),
    })
}

fn mutate(rng: &mut Rng, w: &[u8], other: &[u8], kind: u64) -> (Vec<u8>, &'static str) {
    let n = w.len();
    let mut m = w.to_vec();
    match kind {
        0 => {
            let i = rng.below(n as u64) as usize;
            m[i] ^= 1 << rng.below(8);
            (m, "bitflip")
        }
        1 => {
            m.truncate(rng.below(n as u64) as usize);
            (m, "truncate")
        }
        2 => {
            let a = rng.below(n as u64) as usize;
            let l = (rng.range(1, 40) as usize).min(n - a);
            m.drain(a..a + l);
            (m, "delete")
        }
        3 => {
            let a = rng.below(n as u64) as usize;
            let l = (rng.range(1, 60) as usize).min(n - a);
            let dup: Vec<u8> = m[a..a + l].to_vec();
            let at = a + l;
            m.splice(at..at, dup);
            (m, "duplicate")
        }
        4 => {
            let a = rng.below(n as u64) as usize;
            let l1 = (rng.range(1, 40) as usize).min(n - a);
            let l2 = (rng.range(1, 40) as usize).min(n - a - l1);
            let mut seg: Vec<u8> = m[a + l1..a + l1 + l2].to_vec();
            seg.extend_from_slice(&m[a..a + l1]);
            m.splice(a..a + l1 + l2, seg);
            (m, "swap")
        }
        5 => {
            let a = rng.below(n as u64) as usize;
            let l = rng.range(1, 8) as usize;
            let junk = rng.bytes(l);
            m.splice(a..a, junk);
            (m, "insert")
        }
        6 => {
            // splice: a tail from the opposite direction
            let a = rng.below(n as u64) as usize;
            m.truncate(a);
            let b = rng.below(other.len().max(1) as u64) as usize;
            m.extend_from_slice(&other[b.min(other.len())..]);
            (m, "splice")
        }
        _ => {
            let a = rng.below(n as u64) as usize;
            let l = (rng.range(1, 30) as usize).min(n - a);
            for x in &mut m[a..a + l] {
                *x = rng.next() as u8;
            }
            (m, "overwrite")
        }
    }
}

fn judge(s: &mut Session, key: &str, what: &str, d: &Delivered, plain: &[u8], addr: Option<&str>, changed: bool) {
    if d.panic {
        s.oracle_fail(&format!("{}:panic", key), &format!("decoder panicked on a {} stream", what));
        return;
    }
    if !plain.starts_with(&d.data) {
        s.oracle_fail(&format!("{}:not-prefix", key), &format!("after {}: released bytes are not a prefix of what the sender wrote", what));
        return;
    }
    if let (Some(a), Some(c)) = (addr, d.connect.as_deref()) {
        if a != c {
            s.oracle_fail(&format!("{}:target", key), &format!("after {}: a different target was released", what));
            return;
        }
    }
    let _ = changed;
}

pub fn generate(s: &mut Session, tier: &str, rng: &mut Rng) {
    let thorough = tier == "thorough";
    // chunks can be exchanged or replayed unnoticed exactly where a (key, nonce) pair repeats: the two nonce generators
    // against the specifications' sequences, far beyond the lengths the stream cases reach
    crate::c12::nonce_generator_cases(s, tier, rng);
    let protos: Vec<&'static str> = CIPHERS.iter().copied().chain(["vmess-aes", "vmess-chacha", "vmess-aes-udp", "vmess-chacha-udp"]).collect();
    for proto in protos {
        for ws in [false, true] {
            s.begin_case(&format!("{}:{}", proto, if ws { "ws" } else { "framed" }));
            // the honest pair always sits under FramedRead; `ws` selects the adapter of the attacked decoders
            let Some(p) = make_pair(s, rng, proto, false) else { continue };
            let key = format!("{}:{}", p.proto, if ws { "ws" } else { "framed" });
            let writes = vec![rng.bytes(40), rng.bytes(300), rng.bytes(5)];
            let Some(req) = encode_all(s, &p.client, &writes) else { continue };
            let plain = writes.concat();
            // the honest server sees the honest request (needed before it can answer)
            let d = feed_all(s, &p.server, &[req.clone()], false);
            if d.data != plain {
                continue;
            }
            let rwrites = vec![rng.bytes(60), rng.bytes(200)];
            let Some(resp) = encode_all(s, &p.server, &rwrites) else { continue };
            let rplain = rwrites.concat();
            s.mark_nontrivial();
            let reps = if thorough { 60 } else { 10 };
            // client -> server mutations
            for i in 0..reps {
                s.subcase(&format!("{}:c2s", key));
                let (m, what) = mutate(rng, &req, &resp, i % 8);
                let sv = (p.remake_server)(s, ws);
                let style = rng.below(5);
                let pieces = cut(rng, &m, p.first_min_c2s, if style == 1 { 2 } else { style });
                let d = feed_all(s, &sv, &pieces, !ws && rng.chance(1, 2));
                judge(s, &format!("{}:c2s", key), what, &d, &plain, Some(&p.addr), m != req);
                s.mark_nontrivial();
            }
            // reflection and opposite-direction splice towards the server
            s.subcase(&format!("{}:reflect-to-server", key));
            let sv = (p.remake_server)(s, ws);
            let d = feed_all(s, &sv, &[resp.clone()], false);
            let binds_direction = proto.starts_with("2022") || proto.starts_with("vmess");
            if d.panic {
                s.oracle_fail(&format!("{}:reflect-s:panic", key), "decoder panicked on a reflected stream");
            }
            if binds_direction && (!d.data.is_empty() || d.connect.is_some()) {
                s.oracle_fail(&format!("{}:reflect-s", key), "a response fed back to a server was accepted as a request");
            }
            s.mark_nontrivial();
            if !ws {
                // server -> client: each mutation needs a client that sent this very request; only one
                // client has, so test one mutation per pair and the reflection on a sibling
                s.subcase(&format!("{}:s2c", key));
                let mk = rng.below(8);
                let (m, what) = mutate(rng, &resp, &req, mk);
                let pieces = cut(rng, &m, p.first_min_s2c, 3);
                let d = feed_all(s, &p.client, &pieces, true);
                judge(s, &format!("{}:s2c", key), what, &d, &rplain, None, m != resp);
                s.mark_nontrivial();
                // reflection: a second client of the same credentials gets its own request back
                s.subcase(&format!("{}:reflect-to-client", key));
                // (legacy Shadowsocks has no direction binding by design; the property names 2022 and VMess)
                let binds_direction = proto.starts_with("2022") || proto.starts_with("vmess");
                if let Some(p2) = make_pair(s, rng, proto, false) {
                    if let Some(req2) = encode_all(s, &p2.client, &[rng.bytes(80)]) {
                        let d = feed_all(s, &p2.client, &[req2], true);
                        if binds_direction && !d.data.is_empty() {
                            s.oracle_fail(&format!("{}:reflect-c", key), "a client accepted its own request reflected back as a response");
                        }

                    }
                }
                s.mark_nontrivial();
                // splice across connections: the valid response to connection X of this user, delivered on a second
                // connection Y of the same user (same key, own request sent): Y must release nothing of it
                s.subcase(&format!("{}:cross-connection", key));
                if binds_direction {
                    let c2 = (p.remake_client)(s);
                    if encode_all(s, &c2, &[rng.bytes(33)]).is_some() {
                        let style = *rng.pick(&[0u64, 3]);
                        let pieces = cut(rng, &resp, p.first_min_s2c, style);
                        let d = feed_all(s, &c2, &pieces, true);
                        if d.panic {
                            s.oracle_fail(&format!("{}:cross-connection:panic", key), "decoder panicked on another connection's response");
                        }
                        if !d.data.is_empty() {
                            s.oracle_fail(&format!("{}:cross-connection", key), "a client released the response that belongs to another connection (not bound to its own request)");
                        }
                    }
                }
                s.mark_nontrivial();
            }
        }
    }
    // datagrams: type rule, reflection to the sender (both directions), stale copies
    if let Some(mut cr) = crate::craft::Crafter::new() {
        crate::c10::udp_rules(s, &mut cr, rng);
    }
    // authentic answers written for another session of the same key, spliced onto this session's socket (fresh and stale
    // packet ids, before and after own answers): released to nobody
    crate::c11::codec_histories(s, rng, false);
}
