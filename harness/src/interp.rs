//! op interpreter: executes one line of the op language against the real code
use std::collections::HashMap;
use std::panic::{AssertUnwindSafe, catch_unwind};

use bytes::BytesMut;
use octo_squirrel::manager::packet_window::PacketWindowFilter;
use octo_squirrel::protocol::socks5::address as s5addr;
use octo_squirrel::protocol::vmess::address as vmaddr;

use crate::util::*;

pub enum Obj {
    Pw(PacketWindowFilter),
    SsCtx(crate::stream::ss::SsCtx),
    SsuClient(crate::ssudp::SsuClient),
    SsuServer(crate::ssudp::SsuServer),
    World(crate::e2e::World),
    Stream(crate::stream::Boxed),
}

pub struct Interp {
    pub objs: HashMap<String, Obj>,
    pub rt: tokio::runtime::Runtime,
}

impl Default for Interp {
    fn default() -> Self {
        Interp { objs: HashMap::new(), rt: tokio::runtime::Builder::new_current_thread().enable_all().build().unwrap() }
    }
}

fn kv<'a>(t: &[&'a str], key: &str) -> Option<&'a str> {
    t.iter().find_map(|x| x.strip_prefix(key).and_then(|r| r.strip_prefix('=')))
}

pub fn install_quiet_panic_hook() {
    if std::env::var("VERIF_LOUD").is_err() { std::panic::set_hook(Box::new(|_| {})); }
}

impl Interp {
    pub fn exec(&mut self, op: &str) -> String {
        let toks: Vec<&str> = op.split(' ').filter(|t| !t.is_empty()).collect();
        crate::watch::op_started(op);
        let r = catch_unwind(AssertUnwindSafe(|| self.exec_inner(&toks)));
        crate::watch::op_finished();
        match r {
            Ok(r) => r,
            Err(_) => {
                // a stateful object touched by a panicking op is no longer trustworthy
                if toks.len() > 1 {
                    self.objs.remove(toks[1]);
                }
                "panic".to_owned()
            }
        }
    }

    fn exec_inner(&mut self, t: &[&str]) -> String {
        match t {
            ["pw.new", name] => {
                self.objs.insert(name.to_string(), Obj::Pw(PacketWindowFilter::new()));
                "ok".into()
            }
            ["pw.val", name, id, limit] => {
                let (Some(Obj::Pw(f)), Ok(id), Ok(limit)) = (self.objs.get_mut(*name), id.parse::<u64>(), limit.parse::<u64>()) else {
                    return "bad-op".into();
                };
                if f.validate_packet_id(id, limit) { "1".into() } else { "0".into() }
            }
            ["addr.enc", "s5", a] => {
                let Some(a) = parse_addr(a) else { return "bad-op".into() };
                let mut dst = BytesMut::new();
                s5addr::encode(&a, &mut dst);
                hex(&dst)
            }
            ["addr.len", "s5", a] => {
                let Some(a) = parse_addr(a) else { return "bad-op".into() };
                s5addr::length(&a).to_string()
            }
            ["addr.dec", "s5", h] => {
                let Some(b) = unhex(h) else { return "bad-op".into() };
                let mut src = BytesMut::from(&b[..]);
                match s5addr::decode(&mut src) {
                    Ok(a) => format!("ok {} rest={}", show_addr(&a), hex(&src)),
                    Err(_) => "err".into(),
                }
            }
            ["addr.trylen", h, at] => {
                let (Some(b), Ok(at)) = (unhex(h), at.parse::<usize>()) else { return "bad-op".into() };
                let src = BytesMut::from(&b[..]);
                match s5addr::try_decode_at(&src, at) {
                    Ok(n) => format!("ok {}", n),
                    Err(_) => "err".into(),
                }
            }
            ["addr.cmp", a, b] => {
                let (Some(a), Some(b)) = (parse_addr(a), parse_addr(b)) else { return "bad-op".into() };
                match a.cmp(&b) {
                    std::cmp::Ordering::Less => "lt".into(),
                    std::cmp::Ordering::Equal => "eq".into(),
                    std::cmp::Ordering::Greater => "gt".into(),
                }
            }
            ["addr.enc", "vm", a] => {
                let Some(a) = parse_addr(a) else { return "bad-op".into() };
                let mut dst = BytesMut::new();
                match vmaddr::write_address_port(&a, &mut dst) {
                    Ok(()) => format!("ok {}", hex(&dst)),
                    Err(_) => "err".into(),
                }
            }
            ["addr.dec", "vm", h] => {
                let Some(b) = unhex(h) else { return "bad-op".into() };
                let mut src = bytes::Bytes::from(b);
                match vmaddr::read_address_port(&mut src) {
                    Ok(a) => format!("ok {} rest={}", show_addr(&a), hex(&src)),
                    Err(_) => "err".into(),
                }
            }
            ["ssu.client", name, ..] => {
                let (Some(c), Some(p)) = (kv(t, "cipher"), kv(t, "password")) else { return "bad-op".into() };
                match crate::ssudp::client(&self.rt, c, p) {
                    Ok(o) => {
                        self.objs.insert(name.to_string(), Obj::SsuClient(o));
                        "ok".into()
                    }
                    Err(_) => "err".into(),
                }
            }
            ["ssu.server", name, ..] => {
                let (Some(c), Some(p), Some(u)) = (kv(t, "cipher"), kv(t, "password"), kv(t, "users")) else { return "bad-op".into() };
                match crate::ssudp::server(c, p, &crate::stream::parse_users(u)) {
                    Ok(o) => {
                        self.objs.insert(name.to_string(), Obj::SsuServer(o));
                        "ok".into()
                    }
                    Err(_) => "err".into(),
                }
            }
            ["ssu.cenc", name, ..] => {
                let (Some(Obj::SsuClient(o)), Some(a), Some(p)) = (self.objs.get_mut(*name), kv(t, "addr").and_then(parse_addr), kv(t, "payload").and_then(unhex)) else { return "bad-op".into() };
                match o.encode(a, &p) {
                    Ok(w) => hex(&w),
                    Err(_) => "err".into(),
                }
            }
            ["ssu.setid", name, ..] => {
                // verification hook of the client crate: put the session's ids at chosen values
                let Some(Obj::SsuClient(o)) = self.objs.get_mut(*name) else { return "bad-op".into() };
                o.set_ids(kv(t, "csid").and_then(|x| x.parse().ok()), kv(t, "pid").and_then(|x| x.parse().ok()));
                "ok".into()
            }
            ["ssu.cdec", name, h, ..] => {
                let (Some(Obj::SsuClient(o)), Some(b)) = (self.objs.get_mut(*name), unhex(h)) else { return "bad-op".into() };
                o.decode(&b)
            }
            ["ssu.sdec", name, h, ..] => {
                let (Some(Obj::SsuServer(o)), Some(b)) = (self.objs.get(*name), unhex(h)) else { return "bad-op".into() };
                o.decode(&b)
            }
            ["ssu.senc", name, ..] => {
                let (Some(Obj::SsuServer(o)), Some(a), Some(p)) = (self.objs.get(*name), kv(t, "addr").and_then(parse_addr), kv(t, "payload").and_then(unhex)) else { return "bad-op".into() };
                let (Some(csid), Some(ssid), Some(pid)) = (kv(t, "csid").and_then(|x| x.parse().ok()), kv(t, "ssid").and_then(|x| x.parse().ok()), kv(t, "pid").and_then(|x| x.parse().ok())) else { return "bad-op".into() };
                match o.encode(csid, ssid, pid, kv(t, "user"), a, &p) {
                    Ok(w) => hex(&w),
                    Err(_) => "err".into(),
                }
            }
            ["e2e.start", name, ..] => {
                let (Some(proto), Some(cipher), Some(spw), Some(cpw), Some(users), Some(mode)) = (kv(t, "protocol"), kv(t, "cipher"), kv(t, "spw"), kv(t, "cpw"), kv(t, "users"), kv(t, "mode")) else { return "bad-op".into() };
                let threads = kv(t, "threads").and_then(|x| x.parse().ok()).unwrap_or(4);
                // (the ports are picked free and bound a moment later: another socket of this busy process may take one in
                // between — that is a property of the harness, not of the code under test; try again with new ports)
                for attempt in 0..4 {
                    match crate::e2e::World::start(proto, cipher, spw, cpw, &crate::stream::parse_users(users), mode, kv(t, "cmode"), kv(t, "ws") == Some("1"), matches!(kv(t, "link"), Some("1") | Some("chop")), kv(t, "link") == Some("chop"), threads, kv(t, "tls")) {
                        Ok(w) => {
                            self.objs.insert(name.to_string(), Obj::World(w));
                            return "ok".into();
                        }
                        Err(e) => {
                            let msg = e.to_string();
                            if attempt == 3 || !(msg.contains("in use") || msg.contains("Address already")) {
                                return "err".into();
                            }
                        }
                    }
                }
                "err".into()
            }
            ["e2e.tcp", name, ..] => {
                let Some(Obj::World(w)) = self.objs.get(*name) else { return "bad-op".into() };
                let Some(sc) = tcp_script(t, 0) else { return "bad-op".into() };
                w.tcp_flow(sc)
            }
            ["e2e.par", name, ..] => {
                let Some(Obj::World(w)) = self.objs.get(*name) else { return "bad-op".into() };
                let (Some(n), Some(m), Some(seed)) = (kv(t, "n").and_then(|x| x.parse::<u64>().ok()), kv(t, "m").and_then(|x| x.parse::<u64>().ok()), kv(t, "seed").and_then(|x| x.parse::<u64>().ok())) else { return "bad-op".into() };
                let mut scripts = vec![];
                for i in 0..n {
                    let Some(sc) = tcp_script(t, i + 1) else { return "bad-op".into() };
                    scripts.push(sc);
                }
                let sizes = crate::e2e::parse_sizes(kv(t, "sizes").unwrap_or("16"));
                let udp = (0..m).map(|i| crate::e2e::payload(seed ^ (0x5500 + i), &sizes)).collect();
                w.par(scripts, udp)
            }
            ["e2e.udp", name, ..] => {
                let Some(Obj::World(w)) = self.objs.get(*name) else { return "bad-op".into() };
                let (Some(sizes), Some(seed)) = (kv(t, "sizes"), kv(t, "seed").and_then(|x| x.parse::<u64>().ok())) else { return "bad-op".into() };
                w.udp_flow(&crate::e2e::payload(seed, &crate::e2e::parse_sizes(sizes)))
            }
            ["e2e.udpm", name, ..] => {
                let Some(Obj::World(w)) = self.objs.get(*name) else { return "bad-op".into() };
                let (Some(a), Some(k), Some(per), Some(seed)) = (kv(t, "apps").and_then(|x| x.parse().ok()), kv(t, "targets").and_then(|x| x.parse().ok()), kv(t, "per").and_then(|x| x.parse().ok()), kv(t, "seed").and_then(|x| x.parse().ok())) else { return "bad-op".into() };
                w.udp_multi(a, k, per, seed, kv(t, "mix") == Some("1"))
            }
            ["e2e.udpbind", name, ..] => {
                let Some(Obj::World(w)) = self.objs.get(*name) else { return "bad-op".into() };
                let Some(n) = kv(t, "n").and_then(|x| x.parse().ok()) else { return "bad-op".into() };
                w.udp_bind_many(n)
            }
            ["e2e.udpowner", name] => {
                let Some(Obj::World(w)) = self.objs.get(*name) else { return "bad-op".into() };
                w.udp_owner()
            }
            ["e2e.udpreplay", name] => {
                let Some(Obj::World(w)) = self.objs.get(*name) else { return "bad-op".into() };
                w.udp_replay_live()
            }
            ["e2e.ssid", name, ..] => {
                let Some(Obj::World(w)) = self.objs.get(*name) else { return "bad-op".into() };
                let (Some(n), Some(per)) = (kv(t, "sessions").and_then(|x| x.parse().ok()), kv(t, "per").and_then(|x| x.parse().ok())) else { return "bad-op".into() };
                w.server_ids(n, per)
            }
            ["e2e.fault", name, kind, junk] => {
                let (Some(Obj::World(w)), Some(j)) = (self.objs.get(*name), unhex(junk)) else { return "bad-op".into() };
                w.fault(kind, &j)
            }
            ["e2e.resolver", name, ..] => {
                let Some(Obj::World(w)) = self.objs.get(*name) else { return "bad-op".into() };
                let Some(n) = kv(t, "n").and_then(|x| x.parse().ok()) else { return "bad-op".into() };
                w.resolver_stall(n, kv(t, "via") == Some("udp"))
            }
            ["e2e.udpflood", name, ..] => {
                let Some(Obj::World(w)) = self.objs.get(*name) else { return "bad-op".into() };
                let Some(ms) = kv(t, "ms").and_then(|x| x.parse().ok()) else { return "bad-op".into() };
                w.udp_flood(ms)
            }
            ["e2e.udphol", name, ..] => {
                let Some(Obj::World(w)) = self.objs.get(*name) else { return "bad-op".into() };
                let Some(ms) = kv(t, "hold").and_then(|x| x.parse().ok()) else { return "bad-op".into() };
                w.udp_head_of_line(ms)
            }
            ["e2e.udplru", name, ..] => {
                let Some(Obj::World(w)) = self.objs.get(*name) else { return "bad-op".into() };
                let Some(n) = kv(t, "n").and_then(|x| x.parse().ok()) else { return "bad-op".into() };
                w.udp_receive_only_survives(n)
            }
            ["e2e.linkreset", name, ..] => {
                let Some(Obj::World(w)) = self.objs.get(*name) else { return "bad-op".into() };
                let Some(n) = kv(t, "size").and_then(|x| x.parse().ok()) else { return "bad-op".into() };
                w.link_reset_behind_answer(n)
            }
            ["e2e.udpfire", name, ..] => {
                let Some(Obj::World(w)) = self.objs.get(*name) else { return "bad-op".into() };
                let Some(n) = kv(t, "n").and_then(|x| x.parse().ok()) else { return "bad-op".into() };
                w.udp_fire(n)
            }
            ["e2e.cut", name] => {
                let Some(Obj::World(w)) = self.objs.get(*name) else { return "bad-op".into() };
                w.cut()
            }
            ["e2e.server", name, what] => {
                let Some(Obj::World(w)) = self.objs.get_mut(*name) else { return "bad-op".into() };
                w.server(what)
            }
            ["e2e.fdbase", name] => {
                let Some(Obj::World(w)) = self.objs.get(*name) else { return "bad-op".into() };
                w.fd_base()
            }
            ["e2e.fdcheck", name] => {
                let Some(Obj::World(w)) = self.objs.get(*name) else { return "bad-op".into() };
                w.fd_check()
            }
            ["e2e.alive", name] => {
                let Some(Obj::World(w)) = self.objs.get(*name) else { return "bad-op".into() };
                w.alive()
            }
            ["e2e.stop", name] => {
                self.objs.remove(*name);
                "ok".into()
            }
            ["e2e.fds"] => crate::e2e::open_fds().to_string(),
            ["hs.http", method, path] => {
                let (Some(m), Some(p)) = (unhex(method).and_then(|b| String::from_utf8(b).ok()), unhex(path).and_then(|b| String::from_utf8(b).ok())) else { return "bad-op".into() };
                use octo_squirrel_client::client::verif::handshake as hs;
                match hs::recognize_http(&m, &p) {
                    Ok(hs::Proxy::Http(octo_squirrel::protocol::address::Address::Domain(h, port))) => format!("ok http {} {}", hex(h.as_bytes()), port),
                    Ok(hs::Proxy::Https(octo_squirrel::protocol::address::Address::Domain(h, port))) => format!("ok https {} {}", hex(h.as_bytes()), port),
                    Ok(_) => "ok other".into(),
                    Err(_) => "err".into(),
                }
            }
            ["hs.run", kind, segs, ..] => {
                let segments: Vec<Vec<u8>> = segs.split(';').filter_map(unhex).collect();
                let split = kv(t, "split").and_then(|x| x.parse::<usize>().ok());
                let marker = kv(t, "marker").and_then(unhex).unwrap_or_default();
                let _ = kind;
                crate::hs::run(&self.rt, &segments, split, &marker, kv(t, "fin") == Some("1"))
            }
            ["cfg.cipher", h] => {
                let Some(name) = unhex(h).and_then(|b| String::from_utf8(b).ok()) else { return "err".into() };
                match serde_json::from_value::<octo_squirrel::codec::aead::CipherKind>(serde_json::Value::String(name)) {
                    Ok(k) => format!("ok {:?} 2022={} eih={}", k, k.is_aead_2022() as u8, k.support_eih() as u8),
                    Err(_) => "err".into(),
                }
            }
            ["cfg.mode", h] => {
                let Some(name) = unhex(h).and_then(|b| String::from_utf8(b).ok()) else { return "err".into() };
                match serde_json::from_value::<octo_squirrel::config::Mode>(serde_json::Value::String(name)) {
                    Ok(m) => format!("ok tcp={} udp={} quic={}", m.enable_tcp() as u8, m.enable_udp() as u8, m.enable_quic() as u8),
                    Err(_) => "err".into(),
                }
            }
            ["cfg.protocol", h] => {
                let Some(name) = unhex(h).and_then(|b| String::from_utf8(b).ok()) else { return "err".into() };
                match serde_json::from_value::<octo_squirrel::protocol::Protocol>(serde_json::Value::String(name)) {
                    Ok(p) => format!("ok {:?}", p),
                    Err(_) => "err".into(),
                }
            }
            ["s5.dec", kind, h] => {
                use octo_squirrel::protocol::socks5::codec::*;
                use tokio_util::codec::Decoder;
                let Some(b) = unhex(h) else { return "bad-op".into() };
                let mut src = BytesMut::from(&b[..]);
                // encode the decoded message again to print its fields (the message fields are mostly private)
                fn reenc(m: &mut dyn octo_squirrel::protocol::socks5::message::Socks5Message) -> Vec<u8> {
                    let mut d = BytesMut::new();
                    m.encode(&mut d);
                    d.to_vec()
                }
                match *kind {
                    "ireq" => match Socks5InitialRequestDecoder.decode(&mut src) {
                        Ok(Some(mut m)) => {
                            let e = reenc(&mut m);
                            format!("ok methods={} rest={}", hex(&e[2..]), hex(&src))
                        }
                        Ok(None) => "more".into(),
                        Err(_) => "err".into(),
                    },
                    "creq" => match Socks5CommandRequestDecoder.decode(&mut src) {
                        Ok(Some(m)) => format!("ok cmd={} {} rest={}", m.command_type as u8, show_addr(&m.dst_addr), hex(&src)),
                        Ok(None) => "more".into(),
                        Err(_) => "err".into(),
                    },
                    "iresp" => match Socks5InitialResponseDecoder.decode(&mut src) {
                        Ok(Some(m)) => format!("ok method={} rest={}", m.auth_method as u8, hex(&src)),
                        Ok(None) => "more".into(),
                        Err(_) => "err".into(),
                    },
                    "cresp" => match Socks5CommandResponseDecoder.decode(&mut src) {
                        Ok(Some(m)) => format!("ok status={} {} rest={}", m.command_status as u8, show_addr(&m.bnd_addr), hex(&src)),
                        Ok(None) => "more".into(),
                        Err(_) => "err".into(),
                    },
                    "udp" => {
                        let r = match Socks5UdpCodec.decode(&mut src) {
                            Ok(Some((data, a))) => format!("ok {} data={}", show_addr(&a), hex(&data)),
                            Ok(None) => "more".into(),
                            Err(_) => "err".into(),
                        };
                        format!("{} rest={}", r, hex(&src))
                    }
                    _ => "bad-op".into(),
                }
            }
            ["vm.client", name, ..] => {
                let (Some(u), Some(c), Some(cmd), Some(a)) = (kv(t, "uuid"), kv(t, "cipher"), kv(t, "cmd"), kv(t, "addr").and_then(parse_addr)) else { return "err".into() };
                match crate::stream::vm::client(u, c, cmd == "udp", &a) {
                    Ok(o) => {
                        self.objs.insert(name.to_string(), Obj::Stream(o));
                        "ok".into()
                    }
                    Err(_) => "err".into(),
                }
            }
            ["vm.server", name, ..] => {
                let Some(u) = kv(t, "users") else { return "bad-op".into() };
                let r = if kv(t, "adapter") == Some("ws") { crate::stream::vm::ws_server(&self.rt, &crate::stream::parse_users(u)) } else { crate::stream::vm::server(&crate::stream::parse_users(u)) };
                match r {
                    Ok(o) => {
                        self.objs.insert(name.to_string(), Obj::Stream(o));
                        "ok".into()
                    }
                    Err(_) => "err".into(),
                }
            }
            ["tj.client", name, ..] => {
                let (Some(p), Some(cmd), Some(a)) = (kv(t, "password"), kv(t, "cmd"), kv(t, "addr").and_then(parse_addr)) else { return "bad-op".into() };
                match crate::stream::tj::client(p, cmd == "udp", &a) {
                    Ok(o) => {
                        self.objs.insert(name.to_string(), Obj::Stream(o));
                        "ok".into()
                    }
                    Err(_) => "err".into(),
                }
            }
            ["tj.server", name, ..] => {
                let Some(p) = kv(t, "password") else { return "bad-op".into() };
                let r = if kv(t, "adapter") == Some("ws") { crate::stream::tj::ws_server(&self.rt, p) } else { crate::stream::tj::server(p) };
                match r {
                    Ok(o) => {
                        self.objs.insert(name.to_string(), Obj::Stream(o));
                        "ok".into()
                    }
                    Err(_) => "err".into(),
                }
            }
            ["ss.cctx", name, ..] => {
                let (Some(c), Some(p)) = (kv(t, "cipher"), kv(t, "password")) else { return "bad-op".into() };
                match crate::stream::ss::client_ctx(c, p) {
                    Ok(ctx) => {
                        self.objs.insert(name.to_string(), Obj::SsCtx(ctx));
                        "ok".into()
                    }
                    Err(_) => "err".into(),
                }
            }
            ["ss.sctx", name, ..] => {
                let (Some(c), Some(p), Some(u)) = (kv(t, "cipher"), kv(t, "password"), kv(t, "users")) else { return "bad-op".into() };
                match crate::stream::ss::server_ctx(c, p, &crate::stream::parse_users(u)) {
                    Ok(ctx) => {
                        self.objs.insert(name.to_string(), Obj::SsCtx(ctx));
                        "ok".into()
                    }
                    Err(_) => "err".into(),
                }
            }
            ["ss.race" | "ss.rerace", ctx, wire, n] => {
                // n threads present the same request to codecs sharing one server context, at the same time
                let (Some(Obj::SsCtx(c)), Some(w), Some(n)) = (self.objs.get(*ctx), unhex(wire), n.parse::<usize>().ok()) else { return "bad-op".into() };
                crate::stream::ss::race(c, &w, n)
            }
            ["ssu.par", ..] => {
                let (Some(cipher), Some(pw), Some(threads), Some(packets), Some(seed)) = (kv(t, "cipher"), kv(t, "password"), kv(t, "threads").and_then(|x| x.parse::<usize>().ok()), kv(t, "packets").and_then(|x| x.parse::<usize>().ok()), kv(t, "seed").and_then(|x| x.parse::<u64>().ok())) else { return "bad-op".into() };
                crate::ssudp::par(&self.rt, cipher, pw, threads, packets, seed)
            }
            ["ss.new", name, ctx, addr, ..] => {
                let a = if *addr == "-" { None } else { parse_addr(addr) };
                let Some(Obj::SsCtx(c)) = self.objs.get(*ctx) else { return "bad-op".into() };
                let r = if kv(t, "adapter") == Some("ws") { crate::stream::ss::new_ws_server(&self.rt, c) } else { crate::stream::ss::new_stream(c, a) };
                match r {
                    Ok(o) => {
                        self.objs.insert(name.to_string(), Obj::Stream(o));
                        "ok".into()
                    }
                    Err(_) => "err".into(),
                }
            }
            ["st.enc", name, payload, ..] => {
                let (Some(Obj::Stream(o)), Some(p)) = (self.objs.get_mut(*name), unhex(payload)) else { return "bad-op".into() };
                let item = match kv(t, "to").and_then(parse_addr) {
                    Some(a) => crate::stream::EncItem::Udp(p, a),
                    None => crate::stream::EncItem::Tcp(p),
                };
                match o.encode(item) {
                    Ok(w) => hex(&w),
                    Err(_) => "err".into(),
                }
            }
            ["st.feed", name, piece, ..] => {
                let (Some(Obj::Stream(o)), Some(p)) = (self.objs.get_mut(*name), unhex(piece)) else { return "bad-op".into() };
                o.feed(&self.rt, &p).text()
            }
            ["st.eof", name] => {
                let Some(Obj::Stream(o)) = self.objs.get_mut(*name) else { return "bad-op".into() };
                o.eof(&self.rt).text()
            }
            ["nonce.cnt", iv, n] => {
                // the real `CountingNonceGenerator` after `n` earlier calls
                let (Some(mut buf), Some(n)) = (unhex(iv), n.parse::<u64>().ok()) else { return "bad-op".into() };
                if buf.len() < 12 || n > 10_000_000 {
                    return "bad-op".into();
                }
                let mut g = octo_squirrel::codec::aead::CountingNonceGenerator::new(12);
                let mut out = vec![];
                for _ in 0..=n {
                    out = g.generate(&mut buf).to_vec();
                }
                hex(&out)
            }
            ["nonce.inc.at", state] => {
                // the real `IncreasingNonceGenerator` whose last handed-out nonce was `state`: the next one
                let Some(b) = unhex(state) else { return "bad-op".into() };
                let Ok(arr) = <[u8; 12]>::try_from(b.as_slice()) else { return "bad-op".into() };
                let mut g = octo_squirrel::codec::aead::IncreasingNonceGenerator::verif_at(arr);
                hex(g.generate())
            }
            ["nonce.inc", n] => {
                // the real `IncreasingNonceGenerator`: the nonce handed out by call number `n` (0-based)
                let Some(n) = n.parse::<u64>().ok() else { return "bad-op".into() };
                if n > 10_000_000 {
                    return "bad-op".into();
                }
                let mut g = octo_squirrel::codec::aead::IncreasingNonceGenerator::init();
                let mut out = vec![];
                for _ in 0..=n {
                    out = g.generate().to_vec();
                }
                hex(&out)
            }
            ["addr.accept", a] => {
                let Some(a) = parse_addr(a) else { return "bad-op".into() };
                match octo_squirrel_client::client::verif::handshake::check_address(a) {
                    Ok(_) => "1".into(),
                    Err(_) => "0".into(),
                }
            }
            _ => "bad-op".into(),
        }
    }
}

/// `kind= host= up= down= seed= close=app|target [target=up|refused|unresolvable] [cut=K]`; `salt` varies the payload per parallel flow
fn tcp_script(t: &[&str], salt: u64) -> Option<crate::e2e::TcpScript> {
    let seed = kv(t, "seed")?.parse::<u64>().ok()?.wrapping_add(salt.wrapping_mul(0x9e37_79b9));
    let up = crate::e2e::payload(seed, &crate::e2e::parse_sizes(kv(t, "up")?));
    let down = crate::e2e::payload(seed ^ 0xabcd, &crate::e2e::parse_sizes(kv(t, "down")?)).concat();
    Some(crate::e2e::TcpScript {
        kind: kv(t, "kind")?.to_owned(),
        host: kv(t, "host")?.to_owned(),
        up,
        down,
        target_closes_first: kv(t, "close") == Some("target") || kv(t, "close") == Some("target-idle"),
        hold: kv(t, "close") == Some("target-idle"),
        slow_target: kv(t, "slow") == Some("1"),
        target: kv(t, "target").unwrap_or("up").to_owned(),
        cut_after: kv(t, "cut").and_then(|x| x.parse().ok()),
        reset: kv(t, "reset").map(|x| x.to_owned()),
        early: kv(t, "close") == Some("app-early"),
    })
}
