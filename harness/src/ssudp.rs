//! Shadowsocks UDP codecs: the client's per-binding `DatagramPacketCodec` (built through the real
//! `Client::new_static` + `new_plain_outbound`), the server-side `SessionCodec`
use std::sync::Arc;

use anyhow::Result;
use bytes::BytesMut;
use octo_squirrel::codec::aead::CipherKind;
use octo_squirrel::codec::shadowsocks::udp::{AEADCipherCodec, Context, Session, SessionCodec};
use octo_squirrel::config::ServerConfig;
use octo_squirrel::manager::shadowsocks::{ServerUser, ServerUserManager};
use octo_squirrel::protocol::address::Address;
use octo_squirrel::protocol::shadowsocks::Mode;
use octo_squirrel::protocol::shadowsocks::aead::openssl_bytes_to_key;
use octo_squirrel::protocol::shadowsocks::aead_2022::password_to_exact_keys;
use octo_squirrel_client::client::verif as cv;
use octo_squirrel_server::server::verif as sv;
use tokio_util::codec::{Decoder, Encoder};
use tokio_util::udp::UdpFramed;

use crate::stream::server_config;
use crate::util::*;

pub enum SsuClient {
    C16(UdpFramed<cv::shadowsocks::udp::DatagramPacketCodec<'static, 16>>),
    C32(UdpFramed<cv::shadowsocks::udp::DatagramPacketCodec<'static, 32>>),
}

fn is16(cipher: &str) -> bool {
    cipher == "aes-128-gcm" || cipher == "2022-blake3-aes-128-gcm"
}

pub fn client(rt: &tokio::runtime::Runtime, cipher: &str, password: &str) -> Result<SsuClient> {
    let cfg: ServerConfig<cv::SslConfig> = server_config("shadowsocks", cipher, password, &[])?;
    let dummy = Address::Domain("x".into(), 1);
    rt.block_on(async {
        Ok(if is16(cipher) {
            let c = cv::shadowsocks::udp::Client::<16>::new_static(cfg)?;
            SsuClient::C16(cv::shadowsocks::udp::new_plain_outbound(&dummy, &c).await?)
        } else {
            let c = cv::shadowsocks::udp::Client::<32>::new_static(cfg)?;
            SsuClient::C32(cv::shadowsocks::udp::new_plain_outbound(&dummy, &c).await?)
        })
    })
}

impl SsuClient {
    pub fn encode(&mut self, addr: Address, payload: &[u8]) -> Result<Vec<u8>> {
        let mut dst = crate::util::dst_dgram();
        let item = (BytesMut::from(payload), addr);
        match self {
            SsuClient::C16(f) => f.codec_mut().encode(item, &mut dst)?,
            SsuClient::C32(f) => f.codec_mut().encode(item, &mut dst)?,
        }
        Ok(dst.to_vec())
    }

    pub fn set_ids(&mut self, csid: Option<u64>, pid: Option<u64>) {
        match self {
            SsuClient::C16(f) => f.codec_mut().verif_set_ids(csid, pid),
            SsuClient::C32(f) => f.codec_mut().verif_set_ids(csid, pid),
        }
    }

    pub fn decode(&mut self, wire: &[u8]) -> String {
        let mut src = BytesMut::from(wire);
        let r = match self {
            SsuClient::C16(f) => f.codec_mut().decode(&mut src),
            SsuClient::C32(f) => f.codec_mut().decode(&mut src),
        };
        match r {
            Ok(Some((data, a))) => format!("ok {} data={}", show_addr(&a), hex(&data)),
            Ok(None) => "none".into(),
            Err(_) => "err".into(),
        }
    }
}

/// a bare client-mode `SessionCodec` (public API of the library): what a client of its own would use to talk to
/// the real server's udp port; `decode` also tells the ids the server put on its reply
pub enum RawClient {
    C16(SessionCodec<'static, 16>),
    C32(SessionCodec<'static, 32>),
}

fn raw<const N: usize>(kind: CipherKind, password: &str) -> Result<SessionCodec<'static, N>> {
    let (key, identity_keys): ([u8; N], Vec<[u8; N]>) = if kind.is_aead_2022() { password_to_exact_keys(password).map_err(|e| anyhow::anyhow!(e))? } else { (openssl_bytes_to_key(password.as_bytes()), Vec::new()) };
    let key: &'static [u8; N] = Box::leak(Box::new(key));
    let iks: &'static Vec<[u8; N]> = Box::leak(Box::new(identity_keys));
    Ok(SessionCodec::new(Context::new(Mode::Client, None, key, iks), AEADCipherCodec::new(kind)))
}

impl RawClient {
    pub fn new(cipher: &str, password: &str) -> Result<RawClient> {
        let cfg: ServerConfig<sv::SslConfig> = server_config("shadowsocks", cipher, password, &[])?;
        Ok(if is16(cipher) { RawClient::C16(raw::<16>(cfg.cipher, password)?) } else { RawClient::C32(raw::<32>(cfg.cipher, password)?) })
    }

    pub fn encode(&self, csid: u64, pid: u64, addr: Address, payload: &[u8]) -> Result<Vec<u8>> {
        let mut dst = crate::util::dst_dgram();
        match self {
            RawClient::C16(c) => c.encode((BytesMut::from(payload), addr, Session::new(csid, 0, pid, None)), &mut dst)?,
            RawClient::C32(c) => c.encode((BytesMut::from(payload), addr, Session::new(csid, 0, pid, None)), &mut dst)?,
        }
        Ok(dst.to_vec())
    }

    /// (client session id, server session id, packet id, payload)
    pub fn decode(&self, wire: &[u8]) -> Option<(u64, u64, u64, Vec<u8>)> {
        let mut src = BytesMut::from(wire);
        match self {
            RawClient::C16(c) => c.decode(&mut src).ok().flatten().map(|(d, _, s)| (s.client_session_id, s.server_session_id, s.packet_id, d.to_vec())),
            RawClient::C32(c) => c.decode(&mut src).ok().flatten().map(|(d, _, s)| (s.client_session_id, s.server_session_id, s.packet_id, d.to_vec())),
        }
    }
}

pub enum SsuServer {
    S16(SessionCodec<'static, 16>, Arc<ServerUserManager<16>>),
    S32(SessionCodec<'static, 32>, Arc<ServerUserManager<32>>),
}

fn build<const N: usize>(kind: CipherKind, cfg: &ServerConfig<sv::SslConfig>) -> Result<(SessionCodec<'static, N>, Arc<ServerUserManager<N>>)> {
    // as server/shadowsocks.rs::startup / startup_udp do
    let mut m: ServerUserManager<N> = ServerUserManager::new();
    for user in cfg.user.iter() {
        m.add_user(ServerUser::try_from(user).map_err(|e| anyhow::anyhow!(e))?);
    }
    let um = Arc::new(m);
    let (key, identity_keys): ([u8; N], Vec<[u8; N]>) = if kind.is_aead_2022() {
        password_to_exact_keys(&cfg.password).map_err(|e| anyhow::anyhow!(e))?
    } else {
        (openssl_bytes_to_key(cfg.password.as_bytes()), Vec::new())
    };
    let key: &'static [u8; N] = Box::leak(Box::new(key));
    let iks: &'static Vec<[u8; N]> = Box::leak(Box::new(identity_keys));
    let ctx = Context::new(Mode::Server, Some(um.clone()), key, iks);
    Ok((SessionCodec::new(ctx, AEADCipherCodec::new(kind)), um))
}

pub fn server(cipher: &str, password: &str, users: &[(String, String)]) -> Result<SsuServer> {
    let cfg: ServerConfig<sv::SslConfig> = server_config("shadowsocks", cipher, password, users)?;
    Ok(if is16(cipher) {
        let (c, u) = build::<16>(cfg.cipher, &cfg)?;
        SsuServer::S16(c, u)
    } else {
        let (c, u) = build::<32>(cfg.cipher, &cfg)?;
        SsuServer::S32(c, u)
    })
}

impl SsuServer {
    pub fn decode(&self, wire: &[u8]) -> String {
        let mut src = BytesMut::from(wire);
        fn show<const N: usize>(r: anyhow::Result<Option<(BytesMut, Address, Session<N>)>>) -> String {
            match r {
                Ok(Some((data, a, s))) => format!("ok csid={} pid={} user={} {} data={}", s.client_session_id, s.packet_id, s.user.as_ref().map(|u| u.name.as_str()).unwrap_or("-"), show_addr(&a), hex(&data)),
                Ok(None) => "none".into(),
                Err(_) => "err".into(),
            }
        }
        match self {
            SsuServer::S16(c, _) => show(c.decode(&mut src)),
            SsuServer::S32(c, _) => show(c.decode(&mut src)),
        }
    }

    pub fn encode(&self, csid: u64, ssid: u64, pid: u64, user: Option<&str>, addr: Address, payload: &[u8]) -> Result<Vec<u8>> {
        let mut dst = crate::util::dst_dgram();
        fn find<const N: usize>(um: &ServerUserManager<N>, name: Option<&str>) -> Option<Arc<ServerUser<N>>> {
            let name = name?;
            let h = um.users_iter().find(|u| u.name == name)?.identity_hash();
            um.clone_user_by_hash(&h)
        }
        match self {
            SsuServer::S16(c, um) => c.encode((BytesMut::from(payload), addr, Session::new(csid, ssid, pid, find(um, user))), &mut dst)?,
            SsuServer::S32(c, um) => c.encode((BytesMut::from(payload), addr, Session::new(csid, ssid, pid, find(um, user))), &mut dst)?,
        }
        Ok(dst.to_vec())
    }
}

/// `threads` udp sessions at once through one shared server codec (and the process-wide cipher cache):
/// every packet must come out exactly as it does when its session runs alone
pub fn par(rt: &tokio::runtime::Runtime, cipher: &str, password: &str, threads: usize, packets: usize, seed: u64) -> String {
    let Ok(srv) = server(cipher, password, &[]) else { return "err".into() };
    let mut clients = vec![];
    for _ in 0..threads {
        let Ok(c) = client(rt, cipher, password) else { return "err".into() };
        clients.push(c);
    }
    let ok = std::sync::atomic::AtomicUsize::new(0);
    let bad = std::sync::atomic::AtomicUsize::new(0);
    let barrier = std::sync::Barrier::new(threads);
    let is2022 = cipher.starts_with("2022");
    std::thread::scope(|s| {
        for (ti, mut c) in clients.into_iter().enumerate() {
            let (srv, ok, bad, barrier) = (&srv, &ok, &bad, &barrier);
            s.spawn(move || {
                let mut rng = Rng::new(seed ^ (ti as u64).wrapping_mul(0x9e3779b97f4a7c15));
                barrier.wait();
                for i in 0..packets {
                    let n = rng.below(600) as usize;
                    let payload = rng.bytes(n);
                    let addr = Address::Domain(format!("h{}-{}.example", ti, i), 1000 + i as u16);
                    let r = std::panic::catch_unwind(std::panic::AssertUnwindSafe(|| {
                        let w = c.encode(addr.clone(), &payload).ok()?;
                        let d = srv.decode(&w);
                        let want = format!("{} data={}", show_addr(&addr), hex(&payload));
                        if !(d.starts_with("ok ") && d.ends_with(&want)) {
                            return None;
                        }
                        // the answer of this session comes back to this session
                        let csid = d.split(' ').find_map(|x| x.strip_prefix("csid=")).and_then(|x| x.parse::<u64>().ok())?;
                        let back = srv.encode(csid, 7000 + ti as u64, i as u64, None, addr.clone(), &payload).ok()?;
                        let e = c.decode(&back);
                        if is2022 || i == 0 || !e.is_empty() { Some(e == format!("ok {} data={}", show_addr(&addr), hex(&payload))) } else { Some(false) }
                    }));
                    match r {
                        Ok(Some(true)) => ok.fetch_add(1, std::sync::atomic::Ordering::SeqCst),
                        _ => bad.fetch_add(1, std::sync::atomic::Ordering::SeqCst),
                    };
                }
            });
        }
    });
    format!("ok={} bad={}", ok.into_inner(), bad.into_inner())
}
