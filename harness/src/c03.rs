//! C03: interoperability with the published wire formats — what the real encoders emit must parse
//! with the Spec-side parsers (Lean, independent of the model) field by field, and what the Spec
//! builders emit must be accepted by the real decoders with the same address and payload
use crate::c04::random_uuid;
use crate::craft::{Crafter, field};
use crate::gen_ss::*;
use crate::session::Session;
use crate::stream::now_secs;
use crate::util::*;

fn be16(n: usize) -> Vec<u8> {
    vec![(n >> 8) as u8, n as u8]
}
fn be64(n: u64) -> Vec<u8> {
    n.to_be_bytes().to_vec()
}

/// raw SOCKS5-form target bytes of an address in the harness text form
fn target_bytes(s: &mut Session, addr: &str) -> Vec<u8> {
    unhex(&s.run(&format!("addr.enc s5 {}", addr))).unwrap_or_default()
}

pub fn spec(s: &mut Session, cr: &mut Crafter, q: &str) -> String {
    let a = cr.ask(q);
    let shown = if q.len() > 300 { format!("{}…", &q[..300]) } else { q.to_owned() };
    let shown_a = if a.len() > 300 { format!("{}…", &a[..300]) } else { a.clone() };
    s.lines.push(format!("# spec: {} -> {}", shown, shown_a));
    s.count(&format!("spec:{}", q.split(' ').next().unwrap_or("")));
    a
}

/// a client whose password names a chain of identity keys (`iPSK1:iPSK2:…:uPSK`): one identity header per hop, each
/// sealed under its own hop's identity sub-key (SIP022 3.1.3); the wire is compared byte for byte with the model's
/// (which is proved equal to the Spec builder), the first hop's header is opened with the Spec side
fn ss_identity_chain(s: &mut Session, cr: &mut Crafter, rng: &mut Rng, cipher: &'static str) {
    use base64ct::{Base64, Encoding};
    s.begin_case(&format!("ss-identity-chain:{}", cipher));
    let n = key_len(cipher);
    for hops in [2usize, 3] {
        let keys: Vec<String> = (0..=hops).map(|_| Base64::encode_string(&rng.bytes(n))).collect();
        let cc = s.fresh("cc");
        if s.run(&format!("ss.cctx {} cipher={} password={}", cc, cipher, keys.join(":"))) != "ok" {
            s.oracle_fail(&format!("ss-identity-chain:{}", cipher), "a password with several identity keys is refused");
            continue;
        }
        let c = s.fresh("c");
        s.run(&format!("ss.new {} {} {}", c, cc, random_addr(rng)));
        let Some(wire) = encode_all(s, &c, &[rng.bytes(40), rng.bytes(300)]) else { return };
        // hop i finds hash(key i+1) in header i: checked with the Spec side for every hop
        let a = spec(s, cr, &format!("spec.eih.chain cipher={} password={} wire={}", cipher, keys.join(":"), hex(&wire[..(n + 16 * hops).min(wire.len())])));
        if a != "ok" {
            s.oracle_fail(&format!("ss-identity-chain:{}", cipher), &format!("with {} identity keys a hop does not find the next key's hash in its identity header: {}", hops, a));
        }
    }
    s.mark_nontrivial();
}

/// the same for datagrams: a client with a chain of identity keys writes one identity header per key, all of them in clear
/// between the separate header and the sealed body (each: AES under that hop's key of the next key's hash XOR the
/// separate header); compared with the model byte for byte and checked hop by hop with the Spec side
fn ss_udp_identity_chain(s: &mut Session, cr: &mut Crafter, rng: &mut Rng, cipher: &'static str) {
    use base64ct::{Base64, Encoding};
    s.begin_case(&format!("ss-udp-identity-chain:{}", cipher));
    let n = key_len(cipher);
    for hops in [1usize, 2, 3] {
        let keys: Vec<String> = (0..=hops).map(|_| Base64::encode_string(&rng.bytes(n))).collect();
        let uc = s.fresh("uc");
        if s.run(&format!("ssu.client {} cipher={} password={}", uc, cipher, keys.join(":"))) != "ok" {
            s.oracle_fail(&format!("ss-udp-identity-chain:{}", cipher), "a password with several identity keys is refused");
            continue;
        }
        for payload in [rng.bytes(8), vec![]] {
            let w = crate::c02::timed(s, &format!("ssu.cenc {} addr={} payload={}", uc, random_addr(rng), if payload.is_empty() { "-".to_owned() } else { hex(&payload) }));
            let Some(w) = unhex(&w) else { continue };
            let a = spec(s, cr, &format!("spec.ssu.eih.chain cipher={} password={} wire={}", cipher, keys.join(":"), hex(&w[..(16 + 16 * hops).min(w.len())])));
            if a != "ok" {
                s.oracle_fail(&format!("ss-udp-identity-chain:{}", cipher), &format!("a datagram of a client with {} identity keys: a hop does not find its identity header in clear behind the separate header: {}", hops, a));
            }
        }
    }
    s.mark_nontrivial();
}

fn ss_code_to_spec(s: &mut Session, cr: &mut Crafter, rng: &mut Rng, cipher: &'static str, want_user: bool) {
    s.begin_case(&format!("ss-emit:{}:{}", cipher, if want_user { "eih" } else { "psk" }));
    let cfg = random_cfg(rng, cipher, want_user);
    let client_pw = cfg.client_password.clone();
    let server_pw = cfg.server_password.clone();
    let with_user = cfg.with_user;
    let Some(f) = open_flow(s, rng, cfg) else { return };
    let n = key_len(cipher);
    let w1 = if rng.chance(1, 4) { vec![] } else { rng.bytes(rng.clone().range(1, 300) as usize) };
    let w2 = rng.bytes(*rng.clone().pick(&[1usize, 16383, 16384, 40000, 70000]));
    let t0 = now_secs();
    let Some(wire) = encode_all(s, &f.client, &[w1.clone(), w2.clone()]) else { return };
    let target = target_bytes(s, &f.addr);
    let key = format!("ss-emit:{}", cipher);
    if is2022(cipher) {
        let a = spec(s, cr, &format!("spec.parse.ss2022 cipher={} password={} eih={} fixedlen=11 wire={}", cipher, client_pw, if with_user { 1 } else { 0 }, hex(&wire)));
        if !a.starts_with("ok") {
            s.oracle_fail(&key, "request emitted by the client does not parse under SIP022");
            return;
        }
        let fixed = unhex(field(&a, "fixed").unwrap_or("-")).unwrap_or_default();
        let var = unhex(field(&a, "var").unwrap_or("-")).unwrap_or_default();
        let ts = u64::from_be_bytes(fixed[1..9].try_into().unwrap_or([0; 8]));
        if fixed.len() != 11 || fixed[0] != 0 || ts + 1 < t0 || ts > t0 + 1 || fixed[9..11] != be16(var.len())[..] {
            s.oracle_fail(&key, "fixed-length request header is not type(0) ‖ unix time ‖ length");
            return;
        }
        if !var.starts_with(&target) || var.len() < target.len() + 2 {
            s.oracle_fail(&key, "variable-length header does not start with the target address");
            return;
        }
        let pl = ((var[target.len()] as usize) << 8) | var[target.len() + 1] as usize;
        if pl > 900 || var.len() < target.len() + 2 + pl {
            s.oracle_fail(&key, "padding length outside 0..=900 or beyond the header");
            return;
        }
        let mut plain = var[target.len() + 2 + pl..].to_vec();
        let mut ok_limits = true;
        for c in field(&a, "chunks").unwrap_or("").split(';').filter(|c| !c.is_empty()) {
            let b = unhex(c).unwrap_or_default();
            ok_limits &= b.len() <= 0xffff && !b.is_empty();
            plain.extend(b);
        }
        if plain != [w1.clone(), w2.clone()].concat() {
            s.oracle_fail(&key, "payload recovered by the SIP022 parser differs from what was written");
            return;
        }
        if !ok_limits {
            s.oracle_fail(&format!("{}:chunk-limit", key), "a chunk exceeds the 0xFFFF sender limit of SIP022");
            return;
        }
        // response direction: the server must have seen the request first
        let pieces = vec![wire.clone()];
        let d = feed_all(s, &f.server, &pieces, false);
        if d.err || d.panic {
            s.oracle_fail(&key, "server rejected its own client's request");
            return;
        }
        let r1 = rng.bytes(50);
        let t1 = now_secs();
        let Some(resp) = encode_all(s, &f.server, &[r1.clone()]) else { return };
        let pw = if with_user { client_pw.rsplit(':').next().unwrap().to_owned() } else { server_pw.clone() };
        let a = spec(s, cr, &format!("spec.parse.ss2022 cipher={} password={} eih=0 fixedlen={} wire={}", cipher, pw, 11 + n, hex(&resp)));
        let fixed = unhex(field(&a, "fixed").unwrap_or("-")).unwrap_or_default();
        if !a.starts_with("ok") || fixed.len() != 11 + n || fixed[0] != 1 || fixed[9..9 + n] != wire[..n] {
            s.oracle_fail(&format!("ss-emit-resp:{}", cipher), "response is not type(1) ‖ time ‖ request salt ‖ length under the user's key");
            return;
        }
        let ts = u64::from_be_bytes(fixed[1..9].try_into().unwrap());
        if ts + 1 < t1 || ts > t1 + 1 || unhex(field(&a, "var").unwrap_or("-")).unwrap_or_default() != r1 {
            s.oracle_fail(&format!("ss-emit-resp:{}", cipher), "response timestamp or payload wrong");
            return;
        }
    } else {
        let a = spec(s, cr, &format!("spec.parse.sslegacy cipher={} password={} wire={}", cipher, client_pw, hex(&wire)));
        if !a.starts_with("ok") {
            s.oracle_fail(&key, "stream emitted by the client does not parse under SIP004");
            return;
        }
        let mut plain = vec![];
        let mut max = 0;
        for c in field(&a, "chunks").unwrap_or("").split(';').filter(|c| !c.is_empty()) {
            let b = unhex(c).unwrap_or_default();
            max = max.max(b.len());
            plain.extend(b);
        }
        if plain != [target.clone(), w1.clone(), w2.clone()].concat() {
            s.oracle_fail(&key, "plaintext recovered by the SIP004 parser is not target ‖ payload");
            return;
        }
        if max > 0x3fff {
            s.oracle_fail(&format!("{}:chunk-limit", key), &format!("a chunk of {} bytes exceeds the 0x3FFF sender limit of SIP004", max));
            return;
        }
    }
    let _ = n;
    s.mark_nontrivial();
}

fn ss_spec_to_code(s: &mut Session, cr: &mut Crafter, rng: &mut Rng, cipher: &'static str, want_user: bool) {
    s.begin_case(&format!("ss-accept:{}:{}", cipher, if want_user { "eih" } else { "psk" }));
    let cfg = random_cfg(rng, cipher, want_user);
    let n = key_len(cipher);
    let addr = random_addr(rng);
    let target = target_bytes(s, &addr);
    let salt = rng.bytes(n);
    let payload = rng.bytes(rng.clone().range(0, 200) as usize);
    let limit = if is2022(cipher) { 0xffff } else { 0x3fff };
    let chunks: Vec<Vec<u8>> = [1usize, limit, 100].iter().map(|l| rng.bytes(*l)).collect();
    let (sc, sv) = (s.fresh("sc"), s.fresh("s"));
    s.run(&format!("ss.sctx {} cipher={} password={} users={}", sc, cipher, cfg.server_password, cfg.users));
    s.run(&format!("ss.new {} {} -", sv, sc));
    let wire = if is2022(cipher) {
        let padding = rng.bytes(if payload.is_empty() { 33 } else { *rng.clone().pick(&[0usize, 7, 900]) });
        let var = [target.clone(), be16(padding.len()), padding, payload.clone()].concat();
        let fixed = [vec![0u8], be64(now_secs()), be16(var.len())].concat();
        let cs: Vec<String> = chunks.iter().map(|c| hex(c)).collect();
        spec(s, cr, &format!("craft.ss2022 cipher={} password={} salt={} fixed={} var={} chunks={} eih={}", cipher, cfg.client_password, hex(&salt), hex(&fixed), hex(&var), cs.join(";"), if cfg.with_user { 1 } else { 0 }))
    } else {
        let first = [target.clone(), payload.clone()].concat();
        let mut cs = vec![hex(&first)];
        cs.extend(chunks.iter().map(|c| hex(c)));
        spec(s, cr, &format!("craft.sslegacy cipher={} password={} salt={} chunks={}", cipher, cfg.client_password, hex(&salt), cs.join(";")))
    };
    let Some(wire) = unhex(&wire) else {
        s.oracle_fail("craft", "spec builder unavailable");
        return;
    };
    let style = rng.below(5);
    let pieces = cut(rng, &wire, first_min(cipher, true, cfg.with_user), if style == 1 { 2 } else { style });
    let d = feed_all(s, &sv, &pieces, false);
    let want: Vec<u8> = [payload, chunks.concat()].concat();
    if d.err || d.panic || d.connect.as_deref() != Some(addr.as_str()) || d.data != want {
        s.oracle_fail(&format!("ss-accept:{}", cipher), &format!("spec-built stream not accepted with the same result (err={} addr={:?} {} of {} bytes)", d.err, d.connect, d.data.len(), want.len()));
        return;
    }
    s.mark_nontrivial();
}

/// a Shadowsocks 2022 request whose first flight carries no payload at all (target, padding, nothing else: legal, and what
/// a client sends for an application that waits for the server to speak first): the server must produce the connect as
/// soon as the header is complete - it may not wait for a chunk that may never come - and the chunk that follows later
/// is relayed as data
pub fn ss2022_empty_first_payload(s: &mut Session, cr: &mut Crafter, rng: &mut Rng, cipher: &'static str, want_user: bool) {
    s.begin_case(&format!("ss-accept-empty-first-payload:{}:{}", cipher, if want_user { "eih" } else { "psk" }));
    let cfg = random_cfg(rng, cipher, want_user);
    let n = key_len(cipher);
    let addr = random_addr(rng);
    let target = target_bytes(s, &addr);
    let salt = rng.bytes(n);
    let (sc, sv) = (s.fresh("sc"), s.fresh("s"));
    s.run(&format!("ss.sctx {} cipher={} password={} users={}", sc, cipher, cfg.server_password, cfg.users));
    s.run(&format!("ss.new {} {} -", sv, sc));
    let padding = rng.bytes(*rng.clone().pick(&[1usize, 33, 900]));
    let var = [target.clone(), be16(padding.len()), padding].concat();
    let fixed = [vec![0u8], be64(now_secs()), be16(var.len())].concat();
    let later = rng.bytes(40);
    let wire = spec(s, cr, &format!("craft.ss2022 cipher={} password={} salt={} fixed={} var={} chunks={} eih={}", cipher, cfg.client_password, hex(&salt), hex(&fixed), hex(&var), hex(&later), if cfg.with_user { 1 } else { 0 }));
    let Some(wire) = unhex(&wire) else {
        s.oracle_fail("craft", "spec builder unavailable");
        return;
    };
    // the header by itself, then the later chunk
    let head = wire.len() - (2 + 16 + later.len() + 16);
    let d = feed_all(s, &sv, &[wire[..head].to_vec()], false);
    let key = format!("ss-accept-empty-first-payload:{}", cipher);
    if d.err || d.panic || d.connect.as_deref() != Some(addr.as_str()) || !d.data.is_empty() {
        s.oracle_fail(&key, &format!("a complete request without payload does not yield the connect by itself (err={} target={:?} {} bytes)", d.err, d.connect, d.data.len()));
        return;
    }
    let d = feed_all(s, &sv, &[wire[head..].to_vec()], false);
    if d.err || d.panic || d.connect.is_some() || d.data != later {
        s.oracle_fail(&key, &format!("the chunk after a request without payload is not relayed as data (err={} target={:?} {} bytes)", d.err, d.connect, d.data.len()));
        return;
    }
    s.mark_nontrivial();
}

fn vm_both(s: &mut Session, cr: &mut Crafter, rng: &mut Rng, cipher: &'static str) {
    // code -> spec
    s.begin_case(&format!("vmess-emit:{}", cipher));
    let uuid = random_uuid(rng);
    let addr = random_addr(rng);
    let c = s.fresh("c");
    s.run(&format!("vm.client {} uuid={} cipher={} cmd=tcp addr={}", c, uuid, cipher, addr));
    let w1 = rng.bytes(rng.clone().range(1, 3000) as usize);
    let w2 = rng.bytes(5000);
    let t0 = now_secs();
    let Some(wire) = encode_all(s, &c, &[w1.clone(), w2.clone()]) else { return };
    let a = spec(s, cr, &format!("spec.parse.vm uuid={} cipher={} wire={}", uuid, cipher, hex(&wire)));
    let key = format!("vmess-emit:{}", cipher);
    if !a.starts_with("ok") {
        s.oracle_fail(&key, "sealed request header does not open under the VMess AEAD key schedule");
        return;
    }
    let aid = unhex(field(&a, "authid").unwrap_or("-")).unwrap_or_default();
    let instr = unhex(field(&a, "instr").unwrap_or("-")).unwrap_or_default();
    let t = i64::from_be_bytes(aid[0..8].try_into().unwrap_or([0; 8]));
    if (t - t0 as i64).abs() > 31 {
        s.oracle_fail(&key, "auth id timestamp not within 30 s of the clock");
        return;
    }
    let vm_target = unhex(s.run(&format!("addr.enc vm {}", addr)).strip_prefix("ok ").unwrap_or("-")).unwrap_or_default();
    let sec = if cipher == "chacha20-poly1305" { 4 } else { 3 };
    if instr.len() < 41 || instr[0] != 1 || instr[34] != 0x1d || instr[35] & 0xf != sec || instr[36] != 0 || instr[37] != 1 || !instr[38..].starts_with(&vm_target) {
        s.oracle_fail(&key, "instruction is not Ver(1) IV Key V Opt(0x1d) P|Sec 0 Cmd(1) Port T Addr …");
        return;
    }
    let chunks = field(&a, "chunks").unwrap_or("reject");
    if chunks == "reject" {
        s.oracle_fail(&key, "body chunks do not parse (masking/padding/authenticated length)");
        return;
    }
    let plain: Vec<u8> = chunks.split(';').filter(|c| !c.is_empty()).flat_map(|c| unhex(c).unwrap_or_default()).collect();
    if plain != [w1, w2].concat() {
        s.oracle_fail(&key, "payload recovered by the spec parser differs");
        return;
    }
    s.mark_nontrivial();
    // spec -> code (AuthenticatedLength only, AES-128-GCM body)
    s.begin_case("vmess-accept");
    let sv = s.fresh("s");
    s.run(&format!("vm.server {} users=u:{}", sv, uuid));
    let (iv, key16) = (rng.bytes(16), rng.bytes(16));
    let padding = rng.bytes(rng.clone().below(16) as usize);
    let instr = spec(s, cr, &format!("craft.vm.instr iv={} key={} v={} opt={} padsec={} cmd=1 pta={} padding={}", hex(&iv), hex(&key16), rng.clone().below(256), 0x11, padding.len() * 16 + 3, hex(&vm_target), hex(&padding)));
    let time = now_secs() as i64 + rng.range(0, 58) as i64 - 29;
    let head = spec(s, cr, &format!("craft.vm.req uuid={} time={} rand={} nonce={} header={}", uuid, time, hex(&rng.bytes(4)), hex(&rng.bytes(8)), instr));
    let p1 = rng.bytes(300);
    let p2 = rng.bytes(2000);
    let c1 = spec(s, cr, &format!("craft.vm.chunk datakey={} dataiv={} lenkey={} leniv={} count=0 payload={}", hex(&key16), hex(&iv), hex(&key16), hex(&iv), hex(&p1)));
    let c2 = spec(s, cr, &format!("craft.vm.chunk datakey={} dataiv={} lenkey={} leniv={} count=1 payload={}", hex(&key16), hex(&iv), hex(&key16), hex(&iv), hex(&p2)));
    let (Some(head), Some(c1), Some(c2)) = (unhex(&head), unhex(&c1), unhex(&c2)) else {
        s.oracle_fail("craft", "spec builder unavailable");
        return;
    };
    let wire = [head, c1, c2].concat();
    let style = rng.below(5);
    let pieces = cut(rng, &wire, 1, if style == 1 { 2 } else { style });
    let d = feed_all(s, &sv, &pieces, false);
    if d.err || d.panic || d.connect.as_deref() != Some(addr.as_str()) || d.data != [p1, p2].concat() {
        s.oracle_fail("vmess-accept", &format!("spec-built request not accepted with the same result (err={} addr={:?} {} bytes)", d.err, d.connect, d.data.len()));
        return;
    }
    s.mark_nontrivial();
}

/// a Spec-built VMess request for any option mask and cipher: sealed header (chosen body key / IV) followed by
/// reference body chunks (`payloads`: hex chunks joined by `;`, `-` = the empty end-of-transmission chunk, `none`
/// = no chunk), optionally followed by a chunk header whose size field is forged to `forge`
pub fn vm_crafted_request(s: &mut Session, cr: &mut Crafter, rng: &mut Rng, uuid: &str, vm_target: &[u8], mask: u32, sec: u32, payloads: &str, forge: Option<usize>) -> Option<Vec<u8>> {
    let (iv, key16) = (rng.bytes(16), rng.bytes(16));
    let padding = rng.bytes(rng.clone().below(16) as usize);
    let instr = spec(s, cr, &format!("craft.vm.instr iv={} key={} v={} opt={} padsec={} cmd=1 pta={} padding={}", hex(&iv), hex(&key16), rng.clone().below(256), mask, padding.len() as u32 * 16 + sec, hex(vm_target), hex(&padding)));
    let time = now_secs() as i64 + rng.range(0, 40) as i64 - 20;
    let head = spec(s, cr, &format!("craft.vm.req uuid={} time={} rand={} nonce={} header={}", uuid, time, hex(&rng.bytes(4)), hex(&rng.bytes(8)), instr));
    let body = spec(s, cr, &format!("craft.vm.body mask={} sec={} key={} iv={} payloads={}{}", mask, sec, hex(&key16), hex(&iv), payloads, forge.map(|n| format!(" forge={}", n)).unwrap_or_default()));
    Some([unhex(&head)?, unhex(&body)?].concat())
}

/// every option combination a third-party client may choose (this repository's own client always sends 0x1d), both
/// ciphers, with the reference implementations' empty end-of-transmission chunk at the end: same target, same payload
fn vm_masks(s: &mut Session, cr: &mut Crafter, rng: &mut Rng) {
    for sec in [3u32, 4] {
        for mask in [0x01u32, 0x05, 0x09, 0x0d, 0x11, 0x15, 0x19, 0x1d] {
            s.begin_case(&format!("vmess-accept:mask{:02x}:sec{}", mask, sec));
            let uuid = random_uuid(rng);
            let addr = random_addr(rng);
            let vm_target = unhex(s.run(&format!("addr.enc vm {}", addr)).strip_prefix("ok ").unwrap_or("-")).unwrap_or_default();
            let sv = s.fresh("s");
            s.run(&format!("vm.server {} users=u:{}", sv, uuid));
            let (p1, p2) = (rng.bytes(1 + rng.clone().below(400) as usize), rng.bytes(1 + rng.clone().below(1900) as usize));
            let Some(wire) = vm_crafted_request(s, cr, rng, &uuid, &vm_target, mask, sec, &format!("{};{};-", hex(&p1), hex(&p2)), None) else {
                s.oracle_fail("craft", "spec builder unavailable");
                return;
            };
            let style = rng.below(5);
            let pieces = cut(rng, &wire, 1, if style == 1 { 2 } else { style });
            let d = feed_all(s, &sv, &pieces, false);
            if d.err || d.panic || d.connect.as_deref() != Some(addr.as_str()) || d.data != [p1, p2].concat() {
                s.oracle_fail("vmess-accept", &format!("reference-built request with options {:#04x}, security {} (and the empty end chunk) not accepted with the same result (err={} addr={:?} {} bytes)", mask, sec, d.err, d.connect, d.data.len()));
            }
            s.mark_nontrivial();
        }
    }
}

fn tj_both(s: &mut Session, cr: &mut Crafter, rng: &mut Rng) {
    s.begin_case("trojan");
    let len = rng.range(1, 30) as usize;
    let pw: String = (0..len).map(|_| *rng.pick(b"abcdefghijklmnopqrstuvwxyz0123456789") as char).collect();
    let addr = random_addr(rng);
    let target = target_bytes(s, &addr);
    let payload = rng.bytes(40);
    let (c, sv) = (s.fresh("c"), s.fresh("s"));
    s.run(&format!("tj.client {} password={} cmd=tcp addr={}", c, pw, addr));
    s.run(&format!("tj.server {} password={}", sv, pw));
    let Some(wire) = encode_all(s, &c, &[payload.clone()]) else { return };
    let want = spec(s, cr, &format!("craft.tj.req password={} cmd=1 target={} payload={}", pw, hex(&target), hex(&payload)));
    if Some(wire.clone()) != unhex(&want) {
        s.oracle_fail("trojan-emit", "client request is not hex(SHA224(password)) CRLF CMD target CRLF payload");
        return;
    }
    let pieces = cut(rng, &wire, 1, 3);
    let d = feed_all(s, &sv, &pieces, false);
    if d.err || d.connect.as_deref() != Some(addr.as_str()) || d.data != payload {
        s.oracle_fail("trojan-accept", "spec-built request not accepted with the same result");
        return;
    }
    s.mark_nontrivial();
}

/// SIP004 lets a sender cut its stream into chunks anywhere — also inside the leading target address (this repository's
/// own client never does, third-party senders do).  A Spec-built legacy stream whose address is spread over two or three
/// chunks (every cut; also with a last address piece of exactly one byte, and with an empty payload), delivered in one
/// read, one read per chunk, and byte by byte: same target, same payload, and the target is reported as soon as the
/// chunk that completes it has arrived.
pub fn ss_legacy_split_address(s: &mut Session, cr: &mut Crafter, rng: &mut Rng, thorough: bool) {
    let ciphers = ["aes-128-gcm", "aes-256-gcm", "chacha20-poly1305"];
    let addrs = ["4:c0000207:8080".to_owned(), "6:20010db8000000000000000000000009:443".to_owned(), format!("d:{}:80", hex(b"split.example"))];
    for (ai, addr) in addrs.iter().enumerate() {
        for (ci, cipher) in ciphers.iter().enumerate() {
            if !thorough && (ai + ci) % 3 != 0 {
                continue;
            }
            s.begin_case(&format!("ss-accept-split-address:{}:{}", cipher, ai));
            let cfg = random_cfg(rng, cipher, false);
            let n = key_len(cipher);
            let target = target_bytes(s, addr);
            let payload = rng.bytes(37);
            // (chunks, index of the chunk that completes the address)
            let mut layouts: Vec<(Vec<Vec<u8>>, usize)> = vec![];
            for k in 1..target.len() {
                layouts.push((vec![target[..k].to_vec(), [&target[k..], &payload[..]].concat()], 1));
                layouts.push((vec![target[..k].to_vec(), target[k..].to_vec(), payload.clone()], 1));
            }
            for k in 1..target.len() - 1 {
                // the last address piece is exactly one byte
                layouts.push((vec![target[..k].to_vec(), target[k..target.len() - 1].to_vec(), target[target.len() - 1..].to_vec(), payload.clone()], 2));
            }
            for (li, (chunks, done_at)) in layouts.iter().enumerate() {
                let salt = rng.bytes(n);
                let cs: Vec<String> = chunks.iter().map(|c| hex(c)).collect();
                let wire = spec(s, cr, &format!("craft.sslegacy cipher={} password={} salt={} chunks={}", cipher, cfg.client_password, hex(&salt), cs.join(";")));
                let Some(wire) = unhex(&wire) else {
                    s.oracle_fail("craft", "spec builder unavailable");
                    return;
                };
                // wire boundaries of the chunks: salt, then 2 + tag + len + tag per chunk
                let mut bounds = vec![n];
                for c in chunks {
                    bounds.push(bounds.last().unwrap() + 2 + 16 + c.len() + 16);
                }
                let per_chunk: Vec<Vec<u8>> = std::iter::once(wire[..n].to_vec()).chain(bounds.windows(2).map(|w| wire[w[0]..w[1]].to_vec())).collect();
                let styles: Vec<Vec<Vec<u8>>> = match li % 3 {
                    0 => vec![per_chunk.clone(), vec![wire.clone()]],
                    1 => vec![per_chunk.clone(), wire.iter().map(|b| vec![*b]).collect()],
                    _ => vec![per_chunk.clone(), cut(rng, &wire, 1, 4)],
                };
                for (si, pieces) in styles.iter().enumerate() {
                    let (sc, sv) = (s.fresh("sc"), s.fresh("s"));
                    s.run(&format!("ss.sctx {} cipher={} password={} users=-", sc, cipher, cfg.server_password));
                    s.run(&format!("ss.new {} {} -", sv, sc));
                    if si == 0 {
                        // one read per chunk: the target must be known right after the read that completes it
                        let d = feed_all(s, &sv, &pieces[..done_at + 2], false);
                        if d.err || d.panic || d.connect.as_deref() != Some(addr.as_str()) {
                            s.oracle_fail(&format!("ss-accept-split-address:{}", cipher), &format!("address cut {:?}: after the chunk that completes the address no target (or a wrong one) is reported: err={} target={:?}", chunks.iter().map(|c| c.len()).collect::<Vec<_>>(), d.err, d.connect));
                            continue;
                        }
                        let d2 = feed_all(s, &sv, &pieces[done_at + 2..], false);
                        if d2.err || d2.panic || [d.data, d2.data].concat() != payload {
                            s.oracle_fail(&format!("ss-accept-split-address:{}", cipher), &format!("address cut {:?}: payload not delivered intact", chunks.iter().map(|c| c.len()).collect::<Vec<_>>()));
                        }
                    } else {
                        let d = feed_all(s, &sv, pieces, false);
                        if d.err || d.panic || d.connect.as_deref() != Some(addr.as_str()) || d.data != payload {
                            s.oracle_fail(&format!("ss-accept-split-address:{}", cipher), &format!("address cut {:?}, {} reads: not accepted with the same result (err={} target={:?} {} bytes)", chunks.iter().map(|c| c.len()).collect::<Vec<_>>(), pieces.len(), d.err, d.connect, d.data.len()));
                        }
                    }
                }
            }
            s.mark_nontrivial();
        }
    }
}

pub fn generate(s: &mut Session, tier: &str, rng: &mut Rng) {
    let Some(mut cr) = Crafter::new() else {
        s.begin_case("no-driver");
        s.oracle_fail("craft", "the Lean driver could not be started for Spec-side building/parsing");
        return;
    };
    let reps = if tier == "thorough" { 10 } else { 1 };
    for _ in 0..reps {
        for cipher in CIPHERS {
            for want_user in [false, true] {
                if want_user && !eih(cipher) {
                    continue;
                }
                ss_code_to_spec(s, &mut cr, rng, cipher, want_user);
                ss_spec_to_code(s, &mut cr, rng, cipher, want_user);
                if is2022(cipher) {
                    ss2022_empty_first_payload(s, &mut cr, rng, cipher, want_user);
                }
            }
            if eih(cipher) {
                ss_identity_chain(s, &mut cr, rng, cipher);
                ss_udp_identity_chain(s, &mut cr, rng, cipher);
            }
        }
        for cipher in ["aes-128-gcm", "chacha20-poly1305"] {
            vm_both(s, &mut cr, rng, cipher);
        }
        tj_both(s, &mut cr, rng);
        vm_masks(s, &mut cr, rng);
        ss_legacy_split_address(s, &mut cr, rng, tier == "thorough");
        // datagram layouts: byte-exact against the model (Octo.SsUdp.encode = the layouts of c03_ss_udp_layout), sizes from 0
        for cipher in CIPHERS {
            crate::c02::ss_udp_case(s, rng, cipher, false, false);
            if eih(cipher) {
                crate::c02::ss_udp_case(s, rng, cipher, true, false);
            }
        }
    }
    // the nonce sequences of the specifications, far beyond the lengths the stream cases reach
    crate::c12::nonce_generator_cases(s, tier, rng);
}
