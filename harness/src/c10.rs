//! C10: stale, replayed, mis-typed or unbound handshakes are rejected — Spec-built handshakes with
//! every field on both sides of its boundary, fed to the real decoders
use crate::c04::random_uuid;
use crate::craft::{Crafter, field};
use crate::gen_ss::*;
use crate::session::Session;
use crate::stream::now_secs;
use crate::util::*;

fn be16(n: usize) -> Vec<u8> {
    vec![(n >> 8) as u8, n as u8]
}

fn spec(s: &mut Session, cr: &mut Crafter, q: &str) -> String {
    let a = cr.ask(q);
    s.lines.push(format!("# spec: {} -> {}", &q[..q.len().min(240)], &a[..a.len().min(160)]));
    s.count(&format!("spec:{}", q.split(' ').next().unwrap_or("")));
    a
}

struct SsSetup {
    cipher: &'static str,
    cfg: SsCfg,
    addr: String,
    target: Vec<u8>,
}

fn ss_request(s: &mut Session, cr: &mut Crafter, rng: &mut Rng, su: &SsSetup, salt: &[u8], ts: u64, ty: u8, payload: &[u8]) -> Option<Vec<u8>> {
    let padding = rng.bytes(if payload.is_empty() { 9 } else { 0 });
    let var = [su.target.clone(), be16(padding.len()), padding, payload.to_vec()].concat();
    let fixed = [vec![ty], ts.to_be_bytes().to_vec(), be16(var.len())].concat();
    unhex(&spec(s, cr, &format!("craft.ss2022 cipher={} password={} salt={} fixed={} var={} chunks=- eih={}", su.cipher, su.cfg.client_password, hex(salt), hex(&fixed), hex(&var), if su.cfg.with_user { 1 } else { 0 })))
}

/// feed one whole request to a fresh server codec of context `sc`; returns whether it was accepted.
/// Retries (with a new context by the caller) are avoided: the clock second is sampled around the call.
fn present(s: &mut Session, sc: &str, wire: &[u8], ws: bool) -> (bool, bool) {
    let sv = s.fresh("s");
    s.run(&format!("ss.new {} {} -{}", sv, sc, if ws { " adapter=ws" } else { "" }));
    let t0 = now_secs();
    let d = feed_all(s, &sv, &[wire.to_vec()], false);
    (d.connect.is_some(), now_secs() == t0)
}

fn ss_server_cases(s: &mut Session, cr: &mut Crafter, rng: &mut Rng, cipher: &'static str, want_user: bool) {
    let cfg = random_cfg(rng, cipher, want_user);
    let addr = random_addr(rng);
    s.begin_case(&format!("ss2022-server:{}:{}", cipher, if cfg.with_user { "eih" } else { "psk" }));
    let target = unhex(&s.run(&format!("addr.enc s5 {}", addr))).unwrap_or_default();
    let su = SsSetup { cipher, cfg, addr, target };
    let n = key_len(cipher);
    let key = format!("ss2022-server:{}", cipher);
    // timestamps on both sides of the boundary, each on a fresh context
    for delta in [-31i64, -30, -29, -1, 0, 1, 29, 30, 31, -100000, 100000] {
        for _attempt in 0..3 {
            let sc = s.fresh("sc");
            s.run(&format!("ss.sctx {} cipher={} password={} users={}", sc, cipher, su.cfg.server_password, su.cfg.users));
            let now = now_secs();
            let ts = (now as i64 + delta) as u64;
            let Some(w) = ss_request(s, cr, rng, &su, &rng.clone().bytes(n), ts, 0, b"hello") else { return };
            let (acc, stable) = present(s, &sc, &w, false);
            if !stable || now_secs() != now {
                s.lines.push("# clock tick: boundary probe repeated".into());
                continue;
            }
            let want = delta.abs() <= 30;
            if acc != want {
                s.oracle_fail(&format!("{}:window", key), &format!("request with timestamp now{:+} was {}", delta, if acc { "accepted" } else { "rejected" }));
            }
            break;
        }
    }
    // type byte
    for ty in [1u8, 2, 255, 0] {
        let sc = s.fresh("sc");
        s.run(&format!("ss.sctx {} cipher={} password={} users={}", sc, cipher, su.cfg.server_password, su.cfg.users));
        let Some(w) = ss_request(s, cr, rng, &su, &rng.clone().bytes(n), now_secs(), ty, b"x") else { return };
        let (acc, _) = present(s, &sc, &w, false);
        if acc != (ty == 0) {
            s.oracle_fail(&format!("{}:type", key), &format!("request with type byte {} was {}", ty, if acc { "accepted" } else { "rejected" }));
        }
    }
    // replay: the same bytes again on the same context (other traffic in between), in another
    // segmentation, through the other adapter; accepted once on a different server
    let sc = s.fresh("sc");
    s.run(&format!("ss.sctx {} cipher={} password={} users={}", sc, cipher, su.cfg.server_password, su.cfg.users));
    let salt = rng.bytes(n);
    let Some(w) = ss_request(s, cr, rng, &su, &salt, now_secs(), 0, b"replay me") else { return };
    let (first, _) = present(s, &sc, &w, false);
    for _ in 0..3 {
        let Some(other) = ss_request(s, cr, rng, &su, &rng.clone().bytes(n), now_secs(), 0, b"other") else { return };
        present(s, &sc, &other, false);
    }
    let (second, _) = present(s, &sc, &w, false);
    let sv = s.fresh("s");
    s.run(&format!("ss.new {} {} -", sv, sc));
    let pieces = cut(rng, &w, first_min(cipher, true, su.cfg.with_user), 3);
    let third = feed_all(s, &sv, &pieces, false).connect.is_some();
    let (fourth, _) = present(s, &sc, &w, true);
    if !first || second || third || fourth {
        s.oracle_fail(&format!("{}:replay", key), &format!("presentations of one request were accepted {} {} {} {} (want only the first)", first, second, third, fourth));
    }
    // an incomplete first presentation must not burn the salt: the complete one is then accepted once
    let sc2 = s.fresh("sc");
    s.run(&format!("ss.sctx {} cipher={} password={} users={}", sc2, cipher, su.cfg.server_password, su.cfg.users));
    let Some(w2) = ss_request(s, cr, rng, &su, &rng.clone().bytes(n), now_secs(), 0, b"split request") else { return };
    let sv = s.fresh("s");
    s.run(&format!("ss.new {} {} -", sv, sc2));
    let fm = first_min(cipher, true, su.cfg.with_user);
    let d = feed_all(s, &sv, &[w2[..fm + 3].to_vec(), w2[fm + 3..].to_vec()], false);
    let (again, _) = present(s, &sc2, &w2, false);
    if d.connect.is_none() || again {
        s.oracle_fail(&format!("{}:replay-split", key), "split request not accepted exactly once");
    }
    let _ = su.addr;
    s.mark_nontrivial();
}

fn ss_client_cases(s: &mut Session, cr: &mut Crafter, rng: &mut Rng, cipher: &'static str) {
    s.begin_case(&format!("ss2022-client:{}", cipher));
    let n = key_len(cipher);
    let key = format!("ss2022-client:{}", cipher);
    let cfg = random_cfg(rng, cipher, false);
    let cc = s.fresh("cc");
    s.run(&format!("ss.cctx {} cipher={} password={}", cc, cipher, cfg.client_password));
    let addr = random_addr(rng);
    // each probe: a fresh client that has sent a request; a Spec-built response
    let mut probe = |s: &mut Session, rng: &mut Rng, what: &str, delta: i64, ty: u8, echo: u8, want: bool| {
        for _attempt in 0..3 {
            let c = s.fresh("c");
            s.run(&format!("ss.new {} {} {}", c, cc, addr));
            let Some(req) = encode_all(s, &c, &[b"ping".to_vec()]) else { return };
            let mut echoed = req[..n].to_vec();
            match echo {
                1 => echoed[n - 1] ^= 1,
                2 => echoed = rng.bytes(n),
                // salts that differ from the client's own but agree with it in every aggregate a lazy comparison might
                // use: two bytes exchanged, the same bit flipped in two bytes (same xor, same sum mod 256 for 0x80),
                // reversed, rotated, first byte only, last byte only
                3 => echoed.swap(0, n - 1),
                4 => {
                    echoed[1] ^= 0x80;
                    echoed[n - 2] ^= 0x80;
                }
                5 => echoed.reverse(),
                6 => echoed.rotate_left(1),
                7 => echoed[0] ^= 0x01,
                8 => {
                    echoed[3] = echoed[3].wrapping_add(1);
                    echoed[4] = echoed[4].wrapping_sub(1);
                }
                _ => {}
            }
            if echo != 0 && echoed == req[..n] {
                // (the variant happens to be the client's own salt: that would be the honest echo; another client, another salt)
                s.lines.push("# the salt variant equals the salt: probe repeated".into());
                continue;
            }
            let payload = rng.bytes(20);
            let now = now_secs();
            let fixed = [vec![ty], ((now as i64 + delta) as u64).to_be_bytes().to_vec(), echoed, be16(payload.len())].concat();
            let Some(w) = unhex(&spec(s, cr, &format!("craft.ss2022 cipher={} password={} salt={} fixed={} var={} chunks=- eih=0", cipher, cfg.client_password, hex(&rng.bytes(n)), hex(&fixed), hex(&payload)))) else { return };
            let d = feed_all(s, &c, &[w], false);
            if now_secs() != now {
                s.lines.push("# clock tick: probe repeated".into());
                continue;
            }
            let acc = d.data == payload && !d.err;
            if acc != want {
                s.oracle_fail(&format!("{}:{}", key, what), &format!("response ({} {:+}s type {} echo-variant {}) was {}", what, delta, ty, echo, if acc { "accepted" } else { "rejected" }));
            }
            break;
        }
    };
    for delta in [-31i64, -30, 0, 30, 31] {
        probe(s, rng, "window", delta, 1, 0, delta.abs() <= 30);
    }
    for ty in [0u8, 2, 255] {
        probe(s, rng, "type", 0, ty, 0, false);
    }
    probe(s, rng, "request-salt", 0, 1, 1, false);
    probe(s, rng, "request-salt", 0, 1, 2, false);
    for variant in 3..=8u8 {
        // (a variant that happens to equal the own salt - a palindrome, equal end bytes - is the honest echo: skipped by
        // giving every probe a salt of its own, drawn by the client; the chance is negligible and would only repeat)
        probe(s, rng, "request-salt", 0, 1, variant, false);
    }
    probe(s, rng, "request-salt", 0, 1, 0, true);
    s.mark_nontrivial();
}

pub fn vm_cases(s: &mut Session, cr: &mut Crafter, rng: &mut Rng) {
    s.begin_case("vmess-server:window");
    let uuid = random_uuid(rng);
    let addr = random_addr(rng);
    let vm_target = unhex(s.run(&format!("addr.enc vm {}", addr)).strip_prefix("ok ").unwrap_or("-")).unwrap_or_default();
    for delta in [-121i64, -120, -119, 0, 119, 120, 121, -100000, 100000] {
        for _attempt in 0..3 {
            let sv = s.fresh("s");
            s.run(&format!("vm.server {} users=u:{}", sv, uuid));
            let (iv, key16) = (rng.bytes(16), rng.bytes(16));
            let instr = spec(s, cr, &format!("craft.vm.instr iv={} key={} v=7 opt=17 padsec=3 cmd=1 pta={} padding=-", hex(&iv), hex(&key16), hex(&vm_target)));
            let now = now_secs();
            let head = spec(s, cr, &format!("craft.vm.req uuid={} time={} rand={} nonce={} header={}", uuid, now as i64 + delta, hex(&rng.bytes(4)), hex(&rng.bytes(8)), instr));
            let Some(head) = unhex(&head) else { return };
            let d = feed_all(s, &sv, &[head], false);
            if now_secs() != now {
                s.lines.push("# clock tick: probe repeated".into());
                continue;
            }
            let acc = d.connect.is_some();
            if acc != (delta.abs() <= 120) {
                s.oracle_fail("vmess-server:window", &format!("auth id with time now{:+} was {}", delta, if acc { "honoured" } else { "refused" }));
            }
            break;
        }
    }
    s.mark_nontrivial();
    // a header that arrives in two reads: the token is still good when its first bytes arrive and too old when the
    // rest does — it is the moment of acceptance that counts
    s.begin_case("vmess-server:window-slow-header");
    {
        let sv = s.fresh("s");
        s.run(&format!("vm.server {} users=u:{}", sv, uuid));
        let (iv, key16) = (rng.bytes(16), rng.bytes(16));
        let instr = spec(s, cr, &format!("craft.vm.instr iv={} key={} v=7 opt=17 padsec=3 cmd=1 pta={} padding=-", hex(&iv), hex(&key16), hex(&vm_target)));
        let t0 = now_secs();
        let head = spec(s, cr, &format!("craft.vm.req uuid={} time={} rand={} nonce={} header={}", uuid, t0 as i64 - 118, hex(&rng.bytes(4)), hex(&rng.bytes(8)), instr));
        let Some(head) = unhex(&head) else { return };
        let d1 = feed_all(s, &sv, &[head[..20].to_vec()], false);
        while now_secs() < t0 + 4 {
            std::thread::sleep(std::time::Duration::from_millis(100));
        }
        let d2 = feed_all(s, &sv, &[head[20..].to_vec()], false);
        if d1.connect.is_some() || d2.connect.is_some() {
            s.oracle_fail("vmess-server:window", "a request whose token was 118 s old when its first bytes arrived and more than 120 s old when its header was complete was honoured");
        }
    }
    s.mark_nontrivial();
    s.begin_case("vmess-client:binding");
    for variant in 0..8 {
        let c = s.fresh("c");
        s.run(&format!("vm.client {} uuid={} cipher=aes-128-gcm cmd=tcp addr={}", c, uuid, addr));
        let Some(req) = encode_all(s, &c, &[b"ping".to_vec()]) else { return };
        let a = spec(s, cr, &format!("spec.parse.vm uuid={} cipher=aes-128-gcm wire={}", uuid, hex(&req)));
        let instr = unhex(field(&a, "instr").unwrap_or("-")).unwrap_or_default();
        if instr.len() < 41 {
            return;
        }
        let (mut iv, mut key16, mut v) = (instr[1..17].to_vec(), instr[17..33].to_vec(), instr[33]);
        match variant {
            1 => v = v.wrapping_add(1),     // wrong response byte
            2 => key16[0] ^= 1,             // header sealed under keys of another request
            3 => iv[5] ^= 0x80,
            _ => {}
        }
        // 4..: headers of other lengths sealed under the right keys — one without any byte to compare carries no
        // authentication byte and must be refused; longer ones are judged by their first byte
        let header: Vec<u8> = match variant {
            4 => vec![],
            5 => vec![v],
            6 => vec![v.wrapping_add(7)],
            7 => vec![v, 0x1d, 0, 0, 9, 9],
            _ => vec![v, 0x1d, 0, 0],
        };
        let resp = spec(s, cr, &format!("craft.vm.resp reqkey={} reqiv={} header={}", hex(&key16), hex(&iv), if header.is_empty() { "-".to_owned() } else { hex(&header) }));
        let Some(resp) = unhex(&resp) else { return };
        let d = feed_all(s, &c, &[resp], false);
        let want_err = !matches!(variant, 0 | 5 | 7);
        if d.panic {
            s.oracle_fail("vmess-client:binding", &format!("response header variant {} made the client panic", variant));
        } else if d.err != want_err {
            s.oracle_fail("vmess-client:binding", &format!("response header variant {} was {}", variant, if d.err { "rejected" } else { "accepted" }));
        }
    }
    s.mark_nontrivial();
}

/// Shadowsocks-2022 datagrams obey the same type and 30-second rules, at the server and at the client: datagrams
/// sealed under the right key by the Spec-side crafter, with the type byte / timestamp varied around the limits
pub fn udp_rules(s: &mut Session, cr: &mut Crafter, rng: &mut Rng) {
    use crate::c02::timed;
    for cipher in CIPHERS {
        if !is2022(cipher) {
            continue;
        }
        s.begin_case(&format!("udp-rules:{}", cipher));
        let cfg = random_cfg(rng, cipher, false);
        let (uc, us) = (s.fresh("uc"), s.fresh("us"));
        s.run(&format!("ssu.client {} cipher={} password={}", uc, cipher, cfg.client_password));
        s.run(&format!("ssu.server {} cipher={} password={} users=-", us, cipher, cfg.server_password));
        let csid = 1 + rng.below(1 << 50);
        s.run(&format!("ssu.setid {} csid={}", uc, csid));
        let addr = [1u8, 127, 0, 0, 1, 0, 53];
        let mut pid = 0u64;
        let mut craft = |s: &mut Session, rng: &mut Rng, cr: &mut Crafter, body: Vec<u8>, sid: u64| -> String {
            pid += 1;
            let w = cr.ask(&format!("craft.ssu cipher={} password={} sid={} pid={} rnd={} body={}", cipher, cfg.server_password, sid, pid, hex(&rng.bytes(24)), hex(&body)));
            s.count("craft:ssu");
            w
        };
        for (dt, ty, want) in [(0i64, 0u8, true), (-29, 0, true), (29, 0, true), (-32, 0, false), (32, 0, false), (-3600, 0, false), (0, 1, false), (0, 2, false), (0, 255, false)] {
            // towards the server: type ‖ timestamp ‖ padding length ‖ address ‖ payload
            let now = now_secs() as i64;
            let body = [vec![ty], ((now + dt) as u64).to_be_bytes().to_vec(), vec![0, 0], addr.to_vec(), b"dns?".to_vec()].concat();
            let sid = 77 + rng.below(1 << 30);
            let w = craft(s, rng, cr, body, sid);
            let r = timed(s, &format!("ssu.sdec {} {}", us, w));
            if r.starts_with("ok") != want {
                s.oracle_fail(&format!("udp-rules:{}:server", cipher), &format!("a client datagram typed {} with a timestamp {} s off the clock was {}", ty, dt, if want { "refused" } else { "accepted" }));
            }
            // towards the client: type ‖ timestamp ‖ client session id ‖ padding length ‖ address ‖ payload
            let now = now_secs() as i64;
            let body = [vec![1 - ty.min(1) + if ty > 1 { ty } else { 0 }], ((now + dt) as u64).to_be_bytes().to_vec(), csid.to_be_bytes().to_vec(), vec![0, 0], addr.to_vec(), b"dns!".to_vec()].concat();
            let sid = 99 + rng.below(1 << 30);
            let w = craft(s, rng, cr, body, sid);
            let r = timed(s, &format!("ssu.cdec {} {}", uc, w));
            if r.starts_with("ok") != want {
                s.oracle_fail(&format!("udp-rules:{}:client", cipher), &format!("a server datagram (type rule {}, timestamp {} s off the clock) was {}", if ty == 0 { "met" } else { "broken" }, dt, if want { "refused" } else { "accepted" }));
            }
        }
        // reflection: what the server itself sealed, shaped so that it parses under the client layout, sent back to the server
        let reflect_csid: u64 = 0x0000_017f_0000_0100;
        let w = timed(s, &format!("ssu.senc {} csid={} ssid={} pid=1 addr=4:7f000001:53 payload={}", us, reflect_csid, rng.below(1 << 40), hex(b"reflected")));
        let r = timed(s, &format!("ssu.sdec {} {}", us, w));
        if r.starts_with("ok") {
            s.oracle_fail(&format!("udp-rules:{}:reflected-to-server", cipher), "the server took its own datagram for a client's");
        }
        let w = timed(s, &format!("ssu.cenc {} addr=4:7f000001:53 payload={}", uc, hex(b"reflected")));
        let r = timed(s, &format!("ssu.cdec {} {}", uc, w));
        if r.starts_with("ok") {
            s.oracle_fail(&format!("udp-rules:{}:reflected-to-client", cipher), "the client took its own datagram for the server's");
        }
        s.mark_nontrivial();
    }
}

/// the salt cache in real time: a request stamped 29 s ahead of the server clock stays acceptable for 59 s; its salt
/// must still be remembered 32 s later.  Run in the thorough tier, and in the quick tier whenever the lifetime read
/// from the source is not the documented 2*30+1 s (or could not be read).
fn salt_lifetime_realtime(s: &mut Session, cr: &mut Crafter, rng: &mut Rng) {
    let cipher = "2022-blake3-aes-128-gcm";
    let cfg = random_cfg(rng, cipher, false);
    let addr = random_addr(rng);
    s.begin_case("ss2022-server:salt-lifetime-realtime");
    let target = unhex(&s.run(&format!("addr.enc s5 {}", addr))).unwrap_or_default();
    let su = SsSetup { cipher, cfg, addr, target };
    let sc = s.fresh("sc");
    s.run(&format!("ss.sctx {} cipher={} password={} users=-", sc, cipher, su.cfg.server_password));
    let salt = rng.bytes(16);
    let Some(w) = ss_request(s, cr, rng, &su, &salt, now_secs() + 28, 0, b"early bird") else { return };
    let (first, _) = present(s, &sc, &w, false);
    std::thread::sleep(std::time::Duration::from_millis(32_500));
    let (again, _) = present(s, &sc, &w, false);
    if !first || again {
        s.oracle_fail("ss2022-server:salt-lifetime", &format!("a request stamped 28 s ahead: accepted at first = {}, accepted again 32.5 s later (its timestamp still within 30 s of the clock) = {}", first, again));
    }
    s.mark_nontrivial();
}

pub fn generate(s: &mut Session, tier: &str, rng: &mut Rng) {
    let Some(mut cr) = Crafter::new() else {
        s.begin_case("no-driver");
        s.oracle_fail("craft", "the Lean driver could not be started for Spec-side building");
        return;
    };
    let reps = if tier == "thorough" { 4 } else { 1 };
    for _ in 0..reps {
        for cipher in CIPHERS.iter().copied().filter(|c| is2022(c)) {
            ss_server_cases(s, &mut cr, rng, cipher, false);
            if eih(cipher) {
                ss_server_cases(s, &mut cr, rng, cipher, true);
            }
            ss_client_cases(s, &mut cr, rng, cipher);
        }
        vm_cases(s, &mut cr, rng);
    }
    // "... also when copies arrive concurrently": the same handshake presented by several threads at once
    crate::c09::race_cases(s, tier, rng);
    udp_rules(s, &mut cr, rng);
    let ttl = std::env::var("VERIF_SALT_TTL").unwrap_or_else(|_| "61".into());
    if tier == "thorough" || ttl != "61" {
        s.count(&format!("salt-ttl-probe:{}", ttl));
        salt_lifetime_realtime(s, &mut cr, rng);
    }
}
