//! channel to the Lean driver for Spec-built ("crafted") messages and Spec-side parsing
use std::io::{BufRead, BufReader, Write};
use std::process::{Child, ChildStdin, ChildStdout, Command, Stdio};

pub struct Crafter {
    _child: Child,
    tx: ChildStdin,
    rx: BufReader<ChildStdout>,
    pub queries: u64,
}

impl Crafter {
    pub fn new() -> Option<Self> {
        let path = std::env::var("OCTO_DRIVER").unwrap_or_else(|_| "/verif/lean/.lake/build/bin/octo-driver".into());
        let mut child = Command::new(path).stdin(Stdio::piped()).stdout(Stdio::piped()).stderr(Stdio::null()).spawn().ok()?;
        let tx = child.stdin.take()?;
        let rx = BufReader::new(child.stdout.take()?);
        Some(Crafter { _child: child, tx, rx, queries: 0 })
    }

    pub fn ask(&mut self, line: &str) -> String {
        self.queries += 1;
        if writeln!(self.tx, "{}", line).is_err() || self.tx.flush().is_err() {
            return "craft-failed".into();
        }
        let mut out = String::new();
        match self.rx.read_line(&mut out) {
            Ok(n) if n > 0 => out.trim().to_owned(),
            _ => "craft-failed".into(),
        }
    }
}

/// `key=value` lookup in a Spec-side answer
pub fn field<'a>(ans: &'a str, key: &str) -> Option<&'a str> {
    ans.split(' ').find_map(|t| t.strip_prefix(key).and_then(|r| r.strip_prefix('=')))
}
