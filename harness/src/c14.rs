//! C14: address codecs — all kinds, all domain lengths 0..=1024, byte classes, ports, tails
use crate::session::Session;
use crate::util::*;

fn name_bytes(rng: &mut Rng, len: usize, class: u64) -> Vec<u8> {
    (0..len)
        .map(|i| match class {
            0 => b'a' + (i % 26) as u8,
            1 => *rng.pick(b"abcdefghijklmnopqrstuvwxyz0123456789-.") ,
            2 => rng.range(0x20, 0x7e) as u8,
            3 => rng.next() as u8,
            _ => [0u8, 0xff, 0x80, b':', b'/', b'\r', b'\n'][(rng.below(7)) as usize],
        })
        .collect()
}

fn one(s: &mut Session, rng: &mut Rng, kind: &str, addr: String, tail: &[u8], representable: bool) {
    s.begin_case(kind);
    // the client's own admission decision (local handshake)
    let accepted = s.run(&format!("addr.accept {}", addr)) == "1";
    if accepted && !representable {
        s.oracle_fail("admission", &format!("unrepresentable address {} admitted by the local handshake", &addr[..addr.len().min(60)]));
    }
    if !accepted && representable {
        s.oracle_fail("admission-refuses-valid", &format!("representable address {} refused", &addr[..addr.len().min(60)]));
    }
    // socks5 form
    let enc = s.run(&format!("addr.enc s5 {}", addr));
    s.run(&format!("addr.len s5 {}", addr));
    if let Some(mut w) = unhex(&enc) {
        w.extend_from_slice(tail);
        let dec = s.run(&format!("addr.dec s5 {}", hex(&w)));
        let want = format!("ok {} rest={}", addr, hex(tail));
        if accepted && dec != want {
            s.oracle_fail("socks5-roundtrip", &format!("accepted address {} decoded as `{}`", addr, dec));
        }
        let n = rng.below(4) as usize;
        let pre = rng.bytes(n);
        let mut at = pre.clone();
        at.extend_from_slice(&w);
        s.run(&format!("addr.trylen {} {}", hex(&at), pre.len()));
    }
    // vmess form
    let enc = s.run(&format!("addr.enc vm {}", addr));
    if let Some(h) = enc.strip_prefix("ok ") {
        let mut w = unhex(h).unwrap();
        w.extend_from_slice(tail);
        let dec = s.run(&format!("addr.dec vm {}", hex(&w)));
        let want = format!("ok {} rest={}", addr, hex(tail));
        let utf8 = parse_addr(&addr).map(|a| match a {
            octo_squirrel::protocol::address::Address::Domain(h, _) => std::str::from_utf8(h.as_bytes()).is_ok(),
            _ => true,
        }).unwrap_or(false);
        if accepted && utf8 && dec != want {
            s.oracle_fail("vmess-roundtrip", &format!("accepted address {} decoded as `{}`", addr, dec));
        }
    } else if accepted {
        s.oracle_fail("vmess-write", &format!("accepted address {} not written: {}", addr, enc));
    }
    if accepted {
        s.mark_nontrivial();
    }
}

pub fn generate(s: &mut Session, tier: &str, rng: &mut Rng) {
    // the address a datagram is sent to is the one it arrives at: for vmess the target travels in the stream's request
    // header, one stream per (sender, target) - several targets from one application, through the real client and server
    crate::c02::e2e_cases_for(s, "quick", rng, Some(("vmess", "tcp")));
    let ports = [0u16, 1, 79, 80, 443, 255, 256, 0x1234, 65534, 65535];
    let thorough = tier == "thorough";
    // every domain length 0..=1024
    for len in 0..=1024usize {
        let reps = if thorough { 5 } else if len <= 260 || len % 16 == 0 { 1 } else { 0 };
        for r in 0..reps {
            let class = if thorough { r as u64 } else { (len as u64) % 5 };
            let name = name_bytes(rng, len, class);
            let port = *rng.pick(&ports);
            let tl = *rng.pick(&[0usize, 1, 2, 5, 300]);
            let tail = rng.bytes(tl);
            let accepted = (1..=255).contains(&len);
            one(s, rng, "domain", format!("d:{}:{}", hex(&name), port), &tail, accepted);
        }
    }
    // names that spell an address literal (what an HTTP CONNECT to an IP produces: the target arrives as a name): they
    // stay names, byte for byte, in both wire forms
    for lit in ["10.0.0.1", "127.0.0.1", "255.255.255.255", "0.0.0.0", "1.2.3.4", "::1", "::", "2001:db8::1", "::ffff:1.2.3.4", "[::1]", "fe80::1%1", "0x7f.1", "1.2.3", "localhost"] {
        let port = *rng.pick(&ports);
        let tail = rng.bytes(3);
        one(s, rng, "domain-spelling-an-address", format!("d:{}:{}", hex(lit.as_bytes()), port), &tail, true);
    }
    let n = if thorough { 3000 } else { 300 };
    for i in 0..n {
        let port = if i < ports.len() { ports[i] } else { rng.next() as u16 };
        let tl = *rng.pick(&[0usize, 1, 7, 64]);
        let tail = rng.bytes(tl);
        let ip4 = match i % 4 { 0 => vec![0, 0, 0, 0], 1 => vec![255, 255, 255, 255], 2 => vec![127, 0, 0, 1], _ => rng.bytes(4) };
        one(s, rng, "ipv4", format!("4:{}:{}", hex(&ip4), port), &tail, true);
        // (structured literals too: unspecified, loopback, IPv4-mapped ::ffff:a.b.c.d, IPv4-compatible ::a.b.c.d, 6to4 2002:…, NAT64 64:ff9b::…)
        let ip6 = match i % 8 {
            0 => vec![0; 16],
            1 => vec![255; 16],
            2 => { let mut v = vec![0; 16]; v[15] = 1; v }
            3 => { let mut v = vec![0; 16]; v[10] = 0xff; v[11] = 0xff; v[12..].copy_from_slice(&rng.bytes(4)); v }
            4 => { let mut v = vec![0; 16]; v[12..].copy_from_slice(&rng.bytes(4)); v }
            5 => { let mut v = vec![0; 16]; v[0] = 0x20; v[1] = 0x02; v[2..6].copy_from_slice(&rng.bytes(4)); v }
            6 => { let mut v = vec![0; 16]; v[1] = 0x64; v[2] = 0xff; v[3] = 0x9b; v[12..].copy_from_slice(&rng.bytes(4)); v }
            _ => rng.bytes(16),
        };
        one(s, rng, "ipv6", format!("6:{}:{}", hex(&ip6), port), &tail, true);
    }
    // malformed / truncated inputs to the decoders
    let m = if thorough { 5000 } else { 600 };
    for i in 0..m {
        s.begin_case("malformed");
        let valid = {
            let nl = rng.range(1, 40) as usize;
            let name = name_bytes(rng, nl, 1);
            let a = format!("d:{}:{}", hex(&name), 80);
            unhex(&s.run(&format!("addr.enc s5 {}", a))).unwrap_or_default()
        };
        let bytes = match i % 4 {
            0 => valid[..rng.below(valid.len() as u64) as usize].to_vec(),
            1 => { let n = rng.below(24) as usize; rng.bytes(n) }
            2 => { let mut v = valid.clone(); v[0] = rng.next() as u8; v }
            _ => { let mut v = vec![*rng.pick(&[1u8, 3, 4])]; let n = rng.below(20) as usize; v.extend(rng.bytes(n)); v }
        };
        s.run(&format!("addr.dec s5 {}", hex(&bytes)));
        s.run(&format!("addr.dec vm {}", hex(&bytes)));
        s.run(&format!("addr.trylen {} {}", hex(&bytes), rng.below(bytes.len() as u64 + 2)));
    }
    // where addresses enter and travel: the local handshakes refuse what cannot be represented (empty / over-long names)
    // before anything is sent, and a datagram carried inside a Trojan stream keeps its own address, not the binding's
    crate::c13::handshake_refused(s);
    for style in [0u64, 3] {
        crate::c02::stream_udp_case(s, rng, "trojan", style, false);
    }
}
