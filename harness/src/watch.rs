//! watchdog: an op that does not return (a task of the code under test spins or blocks the runtime) must
//! not hang the check — after `LIMIT` the run is written out with an oracle failure naming the op, and the
//! process exits.  The ops of the current case are kept so that the failure replays.
use std::sync::{Mutex, OnceLock};
use std::time::{Duration, Instant};

pub struct State {
    pub case_ops: Vec<String>,
    pub current: Option<(String, Instant)>,
    pub out: Option<(String, String)>,
}

static STATE: OnceLock<Mutex<State>> = OnceLock::new();

fn state() -> &'static Mutex<State> {
    STATE.get_or_init(|| Mutex::new(State { case_ops: vec![], current: None, out: None }))
}

pub fn begin_case(header: &str) {
    let mut g = state().lock().unwrap();
    g.case_ops.clear();
    g.case_ops.push(header.to_owned());
}

pub fn op_started(op: &str) {
    let mut g = state().lock().unwrap();
    g.case_ops.push(op.to_owned());
    g.current = Some((op.to_owned(), Instant::now()));
}

pub fn op_finished() {
    state().lock().unwrap().current = None;
}

/// start the watchdog thread for a generation run writing to (`ops`, `stats`)
pub fn start(ops: &str, stats: &str) {
    state().lock().unwrap().out = Some((ops.to_owned(), stats.to_owned()));
    let limit = Duration::from_secs(std::env::var("VERIF_OP_TIMEOUT").ok().and_then(|x| x.parse().ok()).unwrap_or(90));
    std::thread::spawn(move || {
        loop {
            std::thread::sleep(Duration::from_millis(500));
            let g = state().lock().unwrap();
            let Some((op, t0)) = &g.current else { continue };
            if t0.elapsed() < limit {
                continue;
            }
            let kind = op.split(' ').next().unwrap_or("op").to_owned();
            let what = format!("`{}` did not return within {} s: a task of the code under test spins or blocks (the service is no longer serving)", &op[..op.len().min(120)], limit.as_secs());
            if let Some((ops_path, stats_path)) = &g.out {
                let _ = std::fs::write(ops_path, g.case_ops.join("\n") + "\n");
                let stats = serde_json::json!({
                    "cases": 1, "ops": g.case_ops.len(), "distinct_nontrivial": 0, "counters": {format!("hang:{}", kind): 1}, "samples": [],
                    "oracle_failures": [{"key": format!("hang:{}", kind), "what": what, "case": 1, "ops": g.case_ops}],
                    "extra": {"aborted": "watchdog"},
                });
                let _ = std::fs::write(stats_path, serde_json::to_string_pretty(&stats).unwrap());
            }
            eprintln!("watchdog: {}", what);
            std::process::exit(0);
        }
    });
}
