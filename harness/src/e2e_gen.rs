//! shared by the system-level generators (C01, C08, C09, C15): the configurations the README lists
//! and the traffic scripts
use base64ct::{Base64, Encoding};

use crate::session::Session;
use crate::util::*;

#[derive(Clone, Debug)]
pub struct Cfg {
    pub protocol: &'static str,
    pub cipher: &'static str,
    pub spw: String,
    pub cpw: String,
    pub users: String,
    /// "tcp" | "ws" | "tls" | "wss" | "quic"
    pub transport: &'static str,
    pub udp: bool,
}

pub const SS_CIPHERS: [(&str, usize); 8] = [
    ("aes-128-gcm", 0),
    ("aes-256-gcm", 0),
    ("chacha20-poly1305", 0),
    ("chacha20-ietf-poly1305", 0),
    ("2022-blake3-aes-128-gcm", 16),
    ("2022-blake3-aes-256-gcm", 32),
    ("2022-blake3-chacha8-poly1305", 32),
    ("2022-blake3-chacha20-poly1305", 32),
];

pub fn uuid(rng: &mut Rng) -> String {
    let b = rng.bytes(16);
    let h = hex(&b);
    format!("{}-{}-{}-{}-{}", &h[0..8], &h[8..12], &h[12..16], &h[16..20], &h[20..32])
}

/// every (protocol, cipher) of the README, with fresh credentials; `multi`: a 2022 configuration with users
pub fn protocol_ciphers(rng: &mut Rng) -> Vec<Cfg> {
    let mut out = vec![];
    for (c, keylen) in SS_CIPHERS {
        let pw = if keylen == 0 { format!("pw{}", rng.below(1 << 30)) } else { Base64::encode_string(&rng.bytes(keylen)) };
        out.push(Cfg { protocol: "shadowsocks", cipher: c, spw: pw.clone(), cpw: pw, users: "-".into(), transport: "tcp", udp: true });
    }
    // shadowsocks 2022 with identity headers: the client names one of the server's users
    for (c, keylen) in [("2022-blake3-aes-128-gcm", 16), ("2022-blake3-aes-256-gcm", 32)] {
        let sk = Base64::encode_string(&rng.bytes(keylen));
        let (a, b) = (Base64::encode_string(&rng.bytes(keylen)), Base64::encode_string(&rng.bytes(keylen)));
        out.push(Cfg { protocol: "shadowsocks", cipher: c, spw: sk.clone(), cpw: format!("{}:{}", sk, b), users: format!("alice:{};bob:{}", a, b), transport: "tcp", udp: true });
    }
    for c in ["aes-128-gcm", "chacha20-poly1305"] {
        let (u1, u2) = (uuid(rng), uuid(rng));
        out.push(Cfg { protocol: "vmess", cipher: c, spw: u1.clone(), cpw: u2.clone(), users: format!("carol:{};dave:{}", u1, u2), transport: "tcp", udp: false });
    }
    let pw = format!("tj{}", rng.below(1 << 30));
    out.push(Cfg { protocol: "trojan", cipher: "aes-128-gcm", spw: pw.clone(), cpw: pw, users: "-".into(), transport: "tcp", udp: false });
    out
}

pub fn tls_available() -> bool {
    let d = std::env::var("VERIF_TLS_DIR").unwrap_or_else(|_| "/verif/work/tls".to_owned());
    std::path::Path::new(&format!("{}/cert.pem", d)).exists() && std::path::Path::new(&format!("{}/key.pem", d)).exists()
}

impl Cfg {
    pub fn with(&self, transport: &'static str) -> Cfg {
        let mut c = self.clone();
        c.transport = transport;
        // shadowsocks datagrams travel over udp next to plain tcp; vmess / trojan datagrams travel inside the transport
        c.udp = self.udp && (transport == "tcp" || self.protocol != "shadowsocks");
        c
    }

    pub fn label(&self) -> String {
        format!("{}/{}/{}{}", self.protocol, self.cipher, self.transport, if self.users != "-" { "/users" } else { "" })
    }

    /// start a world; returns its name
    pub fn start(&self, s: &mut Session, link: bool, threads: usize) -> Option<String> {
        let w = s.fresh("w");
        let inside = self.protocol != "shadowsocks";
        let mode = match (self.transport, self.udp && !inside) {
            ("quic", _) => "tcp_and_quic",
            (_, true) => "tcp_and_udp",
            _ => "tcp",
        };
        let mut op = format!("e2e.start {} protocol={} cipher={} spw={} cpw={} users={} mode={} link={} threads={}", w, self.protocol, self.cipher, self.spw, self.cpw, self.users, mode, link as u8, threads);
        if self.udp && inside {
            // only the client needs a udp socket
            op.push_str(" cmode=tcp_and_udp");
        }
        match self.transport {
            "ws" => op.push_str(" ws=1"),
            "tls" => op.push_str(" tls=ssl"),
            "wss" => op.push_str(" ws=1 tls=ssl"),
            "quic" => op.push_str(" tls=quic"),
            _ => (),
        }
        if s.run(&op) == "ok" { Some(w) } else { None }
    }
}

/// write sizes of one direction: from nothing to `max` bytes in total, in pieces of very different sizes
pub fn sizes(rng: &mut Rng, max_total: usize) -> String {
    let shape = rng.below(6);
    let mut v: Vec<usize> = vec![];
    match shape {
        0 => v.push(1 + rng.below(64) as usize),
        1 => {
            for _ in 0..1 + rng.below(8) {
                v.push(1 + rng.below(2000) as usize);
            }
        }
        2 => v.push((max_total / 2 + rng.below(max_total as u64 / 2 + 1) as usize).max(1)),
        3 => {
            // around the chunk limits of the codecs
            for b in [16383usize, 16384, 65535, 65536] {
                if rng.below(2) == 0 {
                    v.push((b + rng.below(3) as usize).saturating_sub(1).min(max_total.max(1)));
                }
            }
            if v.is_empty() {
                v.push(16384.min(max_total.max(1)));
            }
        }
        4 => {
            for _ in 0..20 + rng.below(40) {
                v.push(1 + rng.below(8) as usize);
            }
        }
        _ => {
            let mut left = max_total;
            while left > 0 && v.len() < 12 {
                let n = (1 + rng.below(left as u64) as usize).min(left);
                v.push(n);
                left -= n;
            }
        }
    }
    v.iter().map(|x| x.to_string()).collect::<Vec<_>>().join(",")
}

pub const KINDS: [&str; 3] = ["socks5", "connect", "http"];

/// fields of a canonical tcp observation
pub fn field<'a>(r: &'a str, key: &str) -> &'a str {
    r.split(' ').find_map(|x| x.strip_prefix(key).and_then(|x| x.strip_prefix('='))).unwrap_or("")
}
