//! C16: configuration names select exactly the documented behaviour — every documented name and many
//! undocumented strings through the real serde deserialisers and mode predicates; key paths through
//! the real context constructors of the TCP and UDP paths, client and server
use base64ct::{Base64, Encoding};

use crate::gen_ss::*;
use crate::session::Session;
use crate::util::*;

/// the README, transcribed: name -> (2022?, identity headers?)
const README_CIPHERS: [(&str, bool, bool); 8] = [
    ("aes-128-gcm", false, false),
    ("aes-256-gcm", false, false),
    ("chacha20-poly1305", false, false),
    ("chacha20-ietf-poly1305", false, false),
    ("2022-blake3-aes-128-gcm", true, true),
    ("2022-blake3-aes-256-gcm", true, true),
    ("2022-blake3-chacha8-poly1305", true, false),
    ("2022-blake3-chacha20-poly1305", true, false),
];
/// mode -> (tcp, udp, quic)
const README_MODES: [(&str, u8, u8, u8); 5] = [("tcp", 1, 0, 0), ("udp", 0, 1, 0), ("tcp_and_udp", 1, 1, 0), ("quic", 0, 0, 1), ("tcp_and_quic", 1, 0, 1)];
const README_PROTOCOLS: [&str; 3] = ["shadowsocks", "vmess", "trojan"];

fn mutations(rng: &mut Rng, names: &[&str]) -> Vec<String> {
    let mut out = vec!["".to_owned(), " ".into(), "none".into(), "null".into(), "aes-192-gcm".into(), "rc4-md5".into(), "tcp_and_udp_and_quic".into(), "socks".into()];
    for n in names {
        out.push(n.to_uppercase());
        out.push(format!(" {}", n));
        out.push(format!("{} ", n));
        out.push(n.replace('-', "_"));
        out.push(n.replace('_', "-"));
        out.push(n[..n.len() - 1].to_owned());
        out.push(format!("{}x", n));
        let mut b = n.as_bytes().to_vec();
        let i = rng.below(b.len() as u64) as usize;
        b[i] = *rng.pick(b"abcdefghijklmnopqrstuvwxyz0123456789-_");
        out.push(String::from_utf8(b).unwrap());
    }
    out
}

pub fn generate(s: &mut Session, tier: &str, rng: &mut Rng) {
    bad_user_keys(s, rng);
    missing_cipher(s);
    // ---- names
    s.begin_case("cipher-names");
    for (n, is22, eih) in README_CIPHERS {
        let r = s.run(&format!("cfg.cipher {}", hex(n.as_bytes())));
        if !r.starts_with("ok") || !r.contains(&format!("2022={}", is22 as u8)) || !r.contains(&format!("eih={}", eih as u8)) {
            s.oracle_fail(&format!("cipher-name:{}", n), &format!("documented cipher name gives `{}`", r));
        }
    }
    let names: Vec<&str> = README_CIPHERS.iter().map(|x| x.0).collect();
    for m in mutations(rng, &names) {
        let r = s.run(&format!("cfg.cipher {}", hex(m.as_bytes())));
        if r.starts_with("ok") && !names.contains(&m.as_str()) {
            s.oracle_fail("cipher-name:undocumented", &format!("undocumented cipher name `{}` accepted", m));
        }
    }
    s.mark_nontrivial();
    s.begin_case("mode-names");
    for (n, t, u, q) in README_MODES {
        let r = s.run(&format!("cfg.mode {}", hex(n.as_bytes())));
        if r != format!("ok tcp={} udp={} quic={}", t, u, q) {
            s.oracle_fail(&format!("mode:{}", n), &format!("mode `{}` gives `{}`", n, r));
        }
    }
    let names: Vec<&str> = README_MODES.iter().map(|x| x.0).collect();
    for m in mutations(rng, &names) {
        let r = s.run(&format!("cfg.mode {}", hex(m.as_bytes())));
        if r.starts_with("ok") && !names.contains(&m.as_str()) {
            s.oracle_fail("mode:undocumented", &format!("undocumented mode `{}` accepted", m));
        }
    }
    s.mark_nontrivial();
    s.begin_case("protocol-names");
    for n in README_PROTOCOLS {
        if !s.run(&format!("cfg.protocol {}", hex(n.as_bytes()))).starts_with("ok") {
            s.oracle_fail(&format!("protocol:{}", n), "documented protocol name rejected");
        }
    }
    for m in mutations(rng, &README_PROTOCOLS) {
        let r = s.run(&format!("cfg.protocol {}", hex(m.as_bytes())));
        if r.starts_with("ok") && !README_PROTOCOLS.contains(&m.as_str()) {
            s.oracle_fail("protocol:undocumented", &format!("undocumented protocol `{}` accepted", m));
        }
    }
    s.mark_nontrivial();
    // ---- key paths: the four constructors must agree on what is a valid credential
    let reps = if tier == "thorough" { 20 } else { 2 };
    for cipher in CIPHERS {
        s.begin_case(&format!("keys:{}", cipher));
        let n = key_len(cipher);
        let mut passwords: Vec<(String, bool)> = vec![];
        if is2022(cipher) {
            for _ in 0..reps {
                passwords.push((Base64::encode_string(&rng.bytes(n)), true));
            }
            for wrong in [n - 1, n + 1, 1, 0, if n == 16 { 32 } else { 16 }, 2 * n] {
                passwords.push((Base64::encode_string(&rng.bytes(wrong)), false));
            }
            let good = Base64::encode_string(&rng.bytes(n));
            passwords.push((good.trim_end_matches('=').to_owned(), good.trim_end_matches('=') == good));
            passwords.push(("not-base64!".into(), false));
            passwords.push((format!("{}:{}", good, Base64::encode_string(&rng.bytes(n - 1))), false));
            passwords.push((format!("{}:", good), false));
        } else {
            for pw in ["a", "hello", "correct-horse", "with:colon", "päßwörd", "AAAAAAAAAAAAAAAAAAAAAA==", "x=y&z"] {
                passwords.push((pw.into(), true));
            }
            for _ in 0..reps {
                let l = rng.range(1, 60) as usize;
                let pw: String = (0..l).map(|_| *rng.pick(b"abcdefghijklmnopqrstuvwxyzABCDEFGHIJKLMNOPQRSTUVWXYZ0123456789+/=:-_.!") as char).collect();
                passwords.push((pw, true));
            }
        }
        for (pw, valid) in passwords {
            let (a, b, c, d) = (s.fresh("k"), s.fresh("k"), s.fresh("k"), s.fresh("k"));
            let r1 = s.run(&format!("ss.cctx {} cipher={} password={}", a, cipher, pw));
            let r2 = s.run(&format!("ss.sctx {} cipher={} password={} users=-", b, cipher, pw));
            let r3 = s.run(&format!("ssu.client {} cipher={} password={}", c, cipher, pw));
            let r4 = s.run(&format!("ssu.server {} cipher={} password={} users=-", d, cipher, pw));
            let all = [&r1, &r2, &r3, &r4];
            if all.iter().any(|r| r.as_str() == "panic") {
                s.oracle_fail(&format!("keys:{}:panic", cipher), "a credential made a constructor panic");
            } else if valid && all.iter().any(|r| r.as_str() != "ok") {
                s.oracle_fail(&format!("keys:{}:valid-refused", cipher), &format!("a valid credential was refused on some path: tcp-client={} tcp-server={} udp-client={} udp-server={}", r1, r2, r3, r4));
            } else if !valid && all.iter().any(|r| r.as_str() == "ok") {
                s.oracle_fail(&format!("keys:{}:invalid-accepted", cipher), &format!("a key of the wrong length/form was accepted on some path: tcp-client={} tcp-server={} udp-client={} udp-server={}", r1, r2, r3, r4));
            }
            if valid && all.iter().all(|r| r.as_str() == "ok") {
                // the same credential means the same key on TCP and on UDP: a UDP datagram of the client decodes at the server
                let addr = random_addr(rng);
                let w = s.run(&format!("ssu.cenc {} addr={} payload=68656c6c6f now={}", c, addr, crate::stream::now_secs()));
                let r = s.run(&format!("ssu.sdec {} {} now={}", d, w, crate::stream::now_secs()));
                if !r.starts_with("ok") {
                    s.oracle_fail(&format!("keys:{}:udp-path", cipher), "client and server derive different udp keys from one credential");
                }
            }
        }
        // users: keys of the wrong length are refused
        if eih(cipher) {
            let psk = Base64::encode_string(&rng.bytes(n));
            for (ukey, valid) in [(Base64::encode_string(&rng.bytes(n)), true), (Base64::encode_string(&rng.bytes(n - 3)), false), ("%%%".to_owned(), false)] {
                let (a, b) = (s.fresh("k"), s.fresh("k"));
                let r1 = s.run(&format!("ss.sctx {} cipher={} password={} users=u:{}", a, cipher, psk, ukey));
                let r2 = s.run(&format!("ssu.server {} cipher={} password={} users=u:{}", b, cipher, psk, ukey));
                if (r1 == "ok") != valid || (r2 == "ok") != valid {
                    s.oracle_fail(&format!("keys:{}:user", cipher), &format!("user key validity {} but tcp={} udp={}", valid, r1, r2));
                }
            }
        }
        s.mark_nontrivial();
    }
}

/// a shadowsocks entry that names no cipher at all (the field is optional for the deserialiser): the service must not
/// come up with some cipher of its own choosing — start-up ends with the error, on the tcp and on the udp side alike;
/// trojan, which has no cipher, serves
pub fn missing_cipher(s: &mut Session) {
    s.begin_case("startup-missing-cipher");
    for mode in ["tcp", "tcp_and_udp"] {
        let w = s.fresh("w");
        let r = s.run(&format!("e2e.start {} protocol=shadowsocks cipher=(none) spw=secret cpw=secret users=- mode={} link=0 threads=2", w, mode));
        if r == "ok" {
            let alive = s.run(&format!("e2e.alive {}", w));
            if alive == "alive" {
                s.oracle_fail("startup-missing-cipher", &format!("a shadowsocks entry without a cipher (mode {}) went into service instead of stopping start-up", mode));
            }
            s.run(&format!("e2e.stop {}", w));
        }
    }
    let w = s.fresh("w");
    if s.run(&format!("e2e.start {} protocol=trojan cipher=(none) spw=secret cpw=secret users=- mode=tcp link=0 threads=2", w)) == "ok" {
        if s.run(&format!("e2e.alive {}", w)) != "alive" {
            s.oracle_fail("startup-missing-cipher", "a trojan entry (which has no cipher) did not start without one");
        }
        s.run(&format!("e2e.stop {}", w));
    }
    s.mark_nontrivial();
}

/// the real server start-up (`startup`) with a malformed *user* key: the service must not come up (no silent
/// single-user fallback, no silently dropped user) — its task ends with the error at once
pub fn bad_user_keys(s: &mut Session, rng: &mut Rng) {
    use base64ct::{Base64, Encoding};
    for (cipher, n) in [("2022-blake3-aes-128-gcm", 16usize), ("2022-blake3-aes-256-gcm", 32)] {
        s.begin_case(&format!("startup-user-keys:{}", cipher));
        let psk = Base64::encode_string(&rng.bytes(n));
        let good = Base64::encode_string(&rng.bytes(n));
        for (what, bad) in [("one byte short", Base64::encode_string(&rng.bytes(n - 1))), ("one byte long", Base64::encode_string(&rng.bytes(n + 1))), ("not base64", "not-base64!".to_owned()), ("the other cipher's length", Base64::encode_string(&rng.bytes(48 - n)))] {
            for users in [format!("alice:{}", bad), format!("alice:{};bob:{}", good, bad)] {
                let w = s.fresh("w");
                let r = s.run(&format!("e2e.start {} protocol=shadowsocks cipher={} spw={} cpw={}:{} users={} mode=tcp link=0 threads=2", w, cipher, psk, psk, good, users));
                if r == "ok" {
                    let alive = s.run(&format!("e2e.alive {}", w));
                    if alive == "alive" {
                        s.oracle_fail(&format!("startup-user-keys:{}", cipher), &format!("a user key that is {} did not stop the server's start-up: it serves with users `{}`", what, users.split(';').map(|u| u.split(':').next().unwrap_or("")).collect::<Vec<_>>().join(",")));
                    }
                    s.run(&format!("e2e.stop {}", w));
                }
            }
        }
        s.mark_nontrivial();
    }
}
