//! the client's local handshake over a real loopback TCP connection with scripted segmentation
use std::time::Duration;

use octo_squirrel_client::client::verif::handshake as hs;
use tokio::io::{AsyncReadExt, AsyncWriteExt};
use tokio::net::{TcpListener, TcpStream};

use crate::util::*;

/// `segments` are written one by one with a pause in between (Nagle off); for SOCKS5 the segments
/// before `split` are the greeting (the peer then waits for the 2-byte method reply, lock-step),
/// the rest the request.  After the handshake the peer sends `marker`; whatever the proxy side can
/// still read from the stream is returned as `rest` (exact-consumption check).
/// `fin`: the peer writes everything at once and half-closes before the proxy has looked at the connection (`nc -N`,
/// HTTP/1.0 clients): a complete request must still be served.
pub fn run(rt: &tokio::runtime::Runtime, segments: &[Vec<u8>], split: Option<usize>, marker: &[u8], fin: bool) -> String {
    rt.block_on(async {
        let Ok(listener) = TcpListener::bind("127.0.0.1:0").await else { return "no-loopback".to_owned() };
        let addr = listener.local_addr().unwrap();
        let segs = segments.to_vec();
        let marker_v = marker.to_vec();
        let early = std::sync::Arc::new(std::sync::atomic::AtomicBool::new(false));
        let early_seen = early.clone();
        let peer = tokio::spawn(async move {
            let mut c = TcpStream::connect(addr).await.ok()?;
            c.set_nodelay(true).ok()?;
            let mut reply = vec![];
            if fin {
                let _ = c.write_all(&segs.concat()).await;
                let _ = c.shutdown().await;
                let mut buf = [0u8; 4096];
                loop {
                    match tokio::time::timeout(Duration::from_millis(400), c.read(&mut buf)).await {
                        Ok(Ok(n)) if n > 0 => reply.extend_from_slice(&buf[..n]),
                        _ => break,
                    }
                }
                return Some(reply);
            }
            for (i, sgm) in segs.iter().enumerate() {
                if Some(i) == split && !early.load(std::sync::atomic::Ordering::SeqCst) {
                    // lock-step: wait for the method selection reply
                    let mut b = [0u8; 2];
                    if tokio::time::timeout(Duration::from_secs(3), c.read_exact(&mut b)).await.is_err() {
                        return Some(reply);
                    }
                    reply.extend_from_slice(&b);
                }
                if c.write_all(sgm).await.is_err() {
                    return Some(reply);
                }
                tokio::time::sleep(Duration::from_millis(12)).await;
                // SOCKS5: nothing may be answered while the greeting is still incomplete (RFC 1928: the server selects
                // a method from the *complete* list; an application that saw the selection would go on to its request)
                if let Some(sp) = split {
                    if i + 1 < sp {
                        let mut b = [0u8; 2];
                        if let Ok(Ok(n)) = tokio::time::timeout(Duration::from_millis(25), c.read(&mut b)).await {
                            if n > 0 {
                                early.store(true, std::sync::atomic::Ordering::SeqCst);
                                reply.extend_from_slice(&b[..n]);
                            }
                        }
                    }
                }
            }
            // collect what the proxy answers within a short while, then send the marker and half-close
            let mut buf = [0u8; 4096];
            loop {
                match tokio::time::timeout(Duration::from_millis(120), c.read(&mut buf)).await {
                    Ok(Ok(n)) if n > 0 => reply.extend_from_slice(&buf[..n]),
                    _ => break,
                }
            }
            let _ = c.write_all(&marker_v).await;
            let _ = c.shutdown().await;
            Some(reply)
        });
        let Ok((mut inbound, _)) = listener.accept().await else { return "accept-failed".to_owned() };
        let local = inbound.local_addr().unwrap();
        if fin {
            tokio::time::sleep(Duration::from_millis(60)).await;
        }
        let res = tokio::time::timeout(Duration::from_secs(4), hs::get_request_addr(&mut inbound)).await;
        let mut rest = vec![];
        let outcome = match res {
            Ok(Ok(a)) => {
                // what is left in the stream belongs to the tunnel
                let _ = tokio::time::timeout(Duration::from_secs(2), inbound.read_to_end(&mut rest)).await;
                format!("ok {}", show_addr(&a))
            }
            Ok(Err(_)) => "refused".to_owned(),
            Err(_) => "wait".to_owned(),
        };
        drop(inbound);
        let mut reply = peer.await.ok().flatten().unwrap_or_default();
        // canonical form: the bound address of a SOCKS5 success reply is this listener's own address, which
        // the model cannot know — check it here and blank it
        if reply.len() == 12 && reply[..6] == [5, 0, 5, 0, 0, 1] {
            let std::net::SocketAddr::V4(v4) = local else { return "bound-not-v4".to_owned() };
            if reply[6..10] != v4.ip().octets() || reply[10..12] != v4.port().to_be_bytes() {
                return format!("wrong-bound-address reply={}", hex(&reply));
            }
            for b in &mut reply[6..12] {
                *b = 0;
            }
        }
        if early_seen.load(std::sync::atomic::Ordering::SeqCst) {
            return format!("early-answer reply={} rest=-", hex(&reply));
        }
        if outcome == "wait" {
            return "wait reply=- rest=-".to_owned();
        }
        if outcome == "refused" {
            return format!("refused reply={} rest=-", hex(&reply));
        }
        format!("{} reply={} rest={}", outcome, hex(&reply), hex(&rest))
    })
}
