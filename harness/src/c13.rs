//! C13: local SOCKS5 and HTTP handshakes yield exactly the requested target — grammar-generated
//! targets through the real `recognize_http`, and whole handshakes over real loopback TCP with
//! scripted segmentation through the real `get_request_addr`
use crate::gen_ss::cut;
use crate::session::Session;
use crate::util::*;

struct Target {
    scheme: String,
    host: String,   // as it appears in the authority (brackets included for IPv6)
    port: Option<u16>,
    path: String,
    query: Option<String>,
}

impl Target {
    fn render(&self) -> String {
        format!("{}://{}{}{}{}", self.scheme, self.host, self.port.map(|p| format!(":{}", p)).unwrap_or_default(), self.path, self.query.as_ref().map(|q| format!("?{}", q)).unwrap_or_default())
    }
}

fn gen_host(rng: &mut Rng) -> String {
    match rng.below(6) {
        0 => format!("{}.{}.{}.{}", rng.below(256), rng.below(256), rng.below(256), rng.below(256)),
        1 => format!("[{}]", ["::1", "2001:db8::1", "fe80::1:2:3", "0:0:0:0:0:0:0:1", "::ffff:1.2.3.4"][rng.below(5) as usize]),
        _ => {
            let labels = rng.range(1, 4);
            (0..labels).map(|_| { let l = rng.range(1, 12) as usize; (0..l).map(|_| *rng.pick(b"abcdefghijklmnopqrstuvwxyz0123456789-") as char).collect::<String>() }).collect::<Vec<_>>().join(".")
        }
    }
}

fn gen_path(rng: &mut Rng) -> String {
    match rng.below(8) {
        0 => String::new(),
        1 => "/".into(),
        2 => "/a/b/c".into(),
        3 => "/a/b/".into(),
        4 => "/x:y/z:1".into(),
        5 => "/redirect/http://other.example/path".into(),
        6 => "//double//".into(),
        _ => { let l = rng.range(1, 30) as usize; format!("/{}", (0..l).map(|_| *rng.pick(b"abcdefghijklmnopqrstuvwxyz0123456789-._~:/@!$&'()*+,;=%") as char).collect::<String>()) }
    }
}

fn gen_query(rng: &mut Rng) -> Option<String> {
    match rng.below(8) {
        0 | 1 => None,
        2 => Some(String::new()),
        3 => Some("a=b&c=d".into()),
        4 => Some("a?b".into()),
        5 => Some("url=http://evil.example:81/x?y".into()),
        6 => Some("x=1/".into()),
        _ => { let l = rng.range(1, 30) as usize; Some((0..l).map(|_| *rng.pick(b"abcdefghijklmnopqrstuvwxyz0123456789-._~:/?@!$&'()*+,;=%") as char).collect()) }
    }
}

fn expect_http(s: &mut Session, method: &str, target: &str, want: Option<(&str, u16)>, key: &str) {
    let r = s.run(&format!("hs.http {} {}", hex(method.as_bytes()), hex(target.as_bytes())));
    let got = r.strip_prefix("ok http ").or_else(|| r.strip_prefix("ok https ")).and_then(|x| x.split_once(' ')).and_then(|(h, p)| Some((String::from_utf8(unhex(h)?).ok()?, p.parse::<u16>().ok()?)));
    let ok = match (&got, want) {
        (Some((h, p)), Some((wh, wp))) => h == wh && *p == wp,
        (None, None) => true,
        _ => false,
    };
    if !ok {
        s.oracle_fail(key, &format!("`{} {}` gives {:?}, expected {:?}", method, target, got, want));
    }
}

/// the application closes in the middle of its handshake: every prefix of a SOCKS5 greeting + request (each address
/// kind), of a plain HTTP request and of a CONNECT request, followed by end of stream.  The handshake must end (no
/// panic, no waiting for bytes that cannot come), and may open a tunnel only where the bytes received already decide it.
/// unsupported / malformed whole handshakes (origin-form, CONNECT without port, over-long and empty names, BIND, UDP
/// ASSOCIATE, wrong version, unknown address type): no tunnel
pub fn handshake_refused(s: &mut Session) {
    s.begin_case("handshake-refused");
    let bad: Vec<(&str, Vec<Vec<u8>>, Option<usize>)> = vec![
        ("http", vec![b"GET /index.html HTTP/1.1\r\nHost: example.com\r\n\r\n".to_vec()], None),
        ("http", vec![b"CONNECT example.com HTTP/1.1\r\n\r\n".to_vec()], None),
        ("http", vec![format!("GET http://{}/ HTTP/1.1\r\n\r\n", "h".repeat(300)).into_bytes()], None),
        ("http", vec![b"\x16\x03\x01\x02\x00\x01\x00\x01\xfc\x03\x03 junk that is not a proxy request\r\n\r\n".to_vec()], None),
        ("socks5", vec![vec![5, 1, 0], vec![5, 2, 0, 1, 1, 2, 3, 4, 0, 80]], Some(1)),
        ("socks5", vec![vec![5, 1, 0], vec![5, 3, 0, 1, 0, 0, 0, 0, 0, 0]], Some(1)),
        ("socks5", vec![vec![5, 1, 0], vec![5, 1, 0, 3, 0, 0, 80]], Some(1)),
        ("socks5", vec![vec![5, 1, 0], vec![4, 1, 0, 1, 1, 2, 3, 4, 0, 80]], Some(1)),
        ("socks5", vec![vec![5, 1, 0], vec![5, 1, 0, 9, 1, 2, 3, 4, 0, 80]], Some(1)),
    ];
    for (kind, segs, split) in bad {
        let r = s.run(&format!("hs.run {} {}{} marker=4d", kind, segs.iter().map(|p| hex(p)).collect::<Vec<_>>().join(";"), split.map(|x| format!(" split={}", x)).unwrap_or_default()));
        if r.starts_with("ok") {
            s.oracle_fail("handshake-refused", &format!("a malformed or unsupported {} handshake opened a tunnel: {}", kind, &r[..r.len().min(80)]));
        }
    }
    s.mark_nontrivial();

}

/// the application writes its whole request and half-closes at once (the FIN is there before the proxy looks): a
/// complete plain request / CONNECT is served exactly like one from a client that keeps its sending side open
pub fn handshake_half_closed(s: &mut Session) {
    s.begin_case("handshake-half-closed");
    let get = b"GET http://half.example:8081/x?y=1 HTTP/1.0\r\nHost: half.example\r\n\r\n".to_vec();
    let r = s.run(&format!("hs.run http {} marker=- fin=1", hex(&get)));
    if r != format!("ok d:{}:8081 reply=- rest={}", hex(b"half.example"), hex(&get)) {
        s.oracle_fail("handshake-half-closed", &format!("a complete plain HTTP request from an application that had already half-closed: {}", &r[..r.len().min(90)]));
    }
    let con = b"CONNECT half.example:443 HTTP/1.1\r\nHost: half.example:443\r\n\r\n".to_vec();
    let r = s.run(&format!("hs.run connect {} marker=- fin=1", hex(&con)));
    if r != format!("ok d:{}:443 reply={} rest=-", hex(b"half.example"), hex(b"HTTP/1.1 200 Connection established\r\n\r\n")) {
        s.oracle_fail("handshake-half-closed", &format!("a complete CONNECT from an application that had already half-closed: {}", &r[..r.len().min(90)]));
    }
    let r = s.run(&format!("hs.run http {} marker=- fin=1", hex(&get[..20])));
    if r.starts_with("ok") || r.starts_with("wait") || r.starts_with("panic") {
        s.oracle_fail("handshake-half-closed", &format!("an incomplete request from an application that had half-closed: {}", &r[..r.len().min(90)]));
    }
    s.mark_nontrivial();
}

/// request targets that are not ASCII: httparse lets raw UTF-8 through, and the target is then cut and searched as a
/// `str` — a multi-byte character at every offset of the first 40 bytes, absolute-form and CONNECT
pub fn http_non_ascii(s: &mut Session) {
    s.begin_case("http-non-ascii-target");
    for ch in ["\u{fc}", "\u{20ac}", "\u{1f600}"] {
        for k in 0..40usize {
            let pad = "a".repeat(k);
            for (m, t) in [("GET", format!("http://{}{}.example/x", pad, ch)), ("GET", format!("http://{}{}.example:81/x?{}", pad, ch, ch)), ("GET", format!("{}{}://a.example/", pad, ch)), ("CONNECT", format!("{}{}.example:443", pad, ch)), ("GET", format!("http://a.example/{}{}", pad, ch))] {
                let r = s.run(&format!("hs.http {} {}", hex(m.as_bytes()), hex(t.as_bytes())));
                if r.starts_with("panic") {
                    s.oracle_fail("panic:http-non-ascii-target", &format!("recognising the request target `{}` panicked", t));
                }
            }
        }
    }
    s.mark_nontrivial();
}

pub fn handshake_early_close(s: &mut Session, thorough: bool) {
    let kinds: Vec<String> = vec!["d:6578616d706c652e6f7267:443".into(), "4:7f000001:8080".into(), "6:20010db8000000000000000000000001:53".into()];
    for (ki, addr) in kinds.iter().enumerate() {
        if ki > 0 && !thorough {
            continue;
        }
        s.begin_case(&format!("handshake-socks5-early-close:{}", ki));
        let enc = unhex(&s.run(&format!("addr.enc s5 {}", addr))).unwrap_or_default();
        let request = [vec![5u8, 1, 0], enc].concat();
        let greeting = vec![5u8, 2, 0, 2];
        let mut runs: Vec<String> = (1..greeting.len()).map(|k| format!("hs.run socks5 {} split=1 marker=-", hex(&greeting[..k]))).collect();
        runs.push(format!("hs.run socks5 {} split=1 marker=-", hex(&greeting)));
        for k in 1..request.len() {
            runs.push(format!("hs.run socks5 {};{} split=1 marker=-", hex(&greeting), hex(&request[..k])));
        }
        for op in runs {
            let r = s.run(&op);
            if r.starts_with("panic") {
                s.oracle_fail("panic:handshake-early-close", "the local handshake panicked when the application closed inside its SOCKS5 handshake");
            } else if r.starts_with("wait") || r.starts_with("ok") {
                s.oracle_fail("handshake-early-close", &format!("a SOCKS5 handshake cut short by the application's close did not end as refused: {}", &r[..r.len().min(60)]));
            }
        }
        s.mark_nontrivial();
    }
    for (ki, req) in ["GET http://a.bc:81/x HTTP/1.1\r\nHost: a.bc\r\n\r\n", "CONNECT a.bc:443 HTTP/1.1\r\n\r\n"].iter().enumerate() {
        s.begin_case(&format!("handshake-http-early-close:{}", ki));
        let b = req.as_bytes();
        let step = if thorough { 1 } else { 2 };
        for k in (1..b.len()).step_by(step).chain([b.len() - 1]) {
            let r = s.run(&format!("hs.run http {} marker=-", hex(&b[..k])));
            if r.starts_with("panic") {
                s.oracle_fail("panic:handshake-early-close", "the local handshake panicked when the application closed inside its HTTP request");
            } else if r.starts_with("wait") {
                s.oracle_fail("handshake-early-close", "an HTTP handshake cut short by the application's close kept waiting");
            }
        }
        s.mark_nontrivial();
    }
}

/// the pure target parser on grammar-generated absolute-form, CONNECT and malformed targets (also run by C01: the host
/// and port the server is asked to dial are the ones of the request target)
pub fn target_cases(s: &mut Session, n: usize, rng: &mut Rng) {
    let thorough = n > 5000;
    s.begin_case("http-targets");
    for _ in 0..n {
        let t = Target { scheme: rng.pick(&["http", "http", "https", "ftp", "ws"]).to_string(), host: gen_host(rng), port: if rng.chance(1, 2) { Some(*rng.pick(&[1u16, 80, 81, 443, 8080, 65535])) } else { None }, path: gen_path(rng), query: gen_query(rng) };
        let method = *rng.pick(&["GET", "POST", "PUT", "HEAD", "OPTIONS", "DELETE", "PATCH"]);
        expect_http(s, method, &t.render(), Some((&t.host, t.port.unwrap_or(80))), "http-authority");
    }
    s.mark_nontrivial();
    s.begin_case("connect-targets");
    for _ in 0..if thorough { 3000 } else { 300 } {
        let host = gen_host(rng);
        let port = *rng.pick(&[1u16, 80, 443, 8443, 65535]);
        expect_http(s, "CONNECT", &format!("{}:{}", host, port), Some((&host, port)), "connect-authority");
    }
    s.mark_nontrivial();
    s.begin_case("malformed-targets");
    for (m, t) in [("GET", "/index.html"), ("GET", "/"), ("POST", "/a?b=http://x/"), ("GET", "*"), ("CONNECT", "example.com"), ("CONNECT", "example.com:"), ("CONNECT", "example.com:https"), ("CONNECT", "example.com:65536"), ("CONNECT", "example.com:-1"), ("GET", "http://h:99999/"), ("GET", "http://h:port/"), ("GET", "http://h:/x"), ("GET", "index.html"), ("GET", ""), ("GET", "/x://evil.example/"), ("GET", "://evil.example/"), ("POST", "/a/b://c:81/d")] {
        expect_http(s, m, t, None, "malformed-refused");
    }
    // empty or over-long host names are refused by the admission check, never tunnelled
    for host in ["".to_owned(), "a".repeat(256), "a".repeat(300)] {
        let r = s.run(&format!("hs.http {} {}", hex(b"GET"), hex(format!("http://{}/", host).as_bytes())));
        if let Some(rest) = r.strip_prefix("ok http ") {
            let h = rest.split(' ').next().unwrap_or("-");
            let acc = s.run(&format!("addr.accept d:{}:80", h));
            if acc != "0" {
                s.oracle_fail("malformed-refused", "an empty or over-long host would be tunnelled");
            }
        }
    }
    s.mark_nontrivial();
}

pub fn generate(s: &mut Session, tier: &str, rng: &mut Rng) {
    let thorough = tier == "thorough";
    target_cases(s, if thorough { 20000 } else { 1500 }, rng);
    // ---- whole handshakes over loopback, every kind, several segmentations
    let marker = b"\x16\x03\x01MARK";
    let runs = if thorough { 60 } else { 8 };
    for i in 0..runs {
        s.begin_case("handshake-http");
        let t = Target { scheme: "http".into(), host: gen_host(rng), port: if rng.chance(1, 2) { Some(8080) } else { None }, path: gen_path(rng), query: gen_query(rng) };
        let req = format!("GET {} HTTP/1.1\r\nHost: {}\r\nUser-Agent: x\r\n\r\n", t.render(), t.host);
        let pieces = cut(rng, req.as_bytes(), 1, [0u64, 2, 3, 4][i % 4]);
        let r = s.run(&format!("hs.run http {} marker={}", pieces.iter().map(|p| hex(p)).collect::<Vec<_>>().join(";"), hex(marker)));
        let want = format!("ok d:{}:{} reply=- rest={}", hex(t.host.as_bytes()), t.port.unwrap_or(80), hex(&[req.as_bytes(), marker].concat()));
        if r != want {
            s.oracle_fail("handshake-http", &format!("plain HTTP request not tunnelled to its authority untouched: {}", &r[..r.len().min(80)]));
        }
        s.mark_nontrivial();
        s.begin_case("handshake-connect");
        let host = gen_host(rng);
        let extra = "X-Pad: ".to_owned() + &"p".repeat(*rng.pick(&[0usize, 10, 900, 3000]));
        let req = format!("CONNECT {}:443 HTTP/1.1\r\nHost: {}:443\r\n{}\r\n\r\n", host, host, extra);
        let pieces = cut(rng, req.as_bytes(), 1, [0u64, 2, 3, 4][i % 4]);
        let r = s.run(&format!("hs.run connect {} marker={}", pieces.iter().map(|p| hex(p)).collect::<Vec<_>>().join(";"), hex(marker)));
        let want = format!("ok d:{}:443 reply={} rest={}", hex(host.as_bytes()), hex(b"HTTP/1.1 200 Connection established\r\n\r\n"), hex(marker));
        if r != want {
            s.oracle_fail("handshake-connect", &format!("CONNECT not answered/consumed exactly: {}", &r[..r.len().min(100)]));
        }
        s.mark_nontrivial();
        s.begin_case("handshake-socks5");
        let addr = crate::gen_ss::random_addr(rng);
        let enc = unhex(&s.run(&format!("addr.enc s5 {}", addr))).unwrap_or_default();
        let greeting: Vec<u8> = match i % 3 { 0 => vec![5, 1, 0], 1 => vec![5, 2, 0, 2], _ => vec![5, 3, 0, 1, 2] };
        let request = [vec![5u8, 1, 0], enc].concat();
        let g = cut(rng, &greeting, 1, [0u64, 1, 3][i % 3]);
        let q = cut(rng, &request, 1, [0u64, 2, 3, 4][i % 4]);
        let all: Vec<String> = g.iter().chain(q.iter()).map(|p| hex(p)).collect();
        let r = s.run(&format!("hs.run socks5 {} split={} marker={}", all.join(";"), g.len(), hex(marker)));
        let want = format!("ok {} reply=050005000001000000000000 rest={}", addr, hex(marker));
        if r != want {
            s.oracle_fail("handshake-socks5", &format!("SOCKS5 CONNECT not completed exactly: {}", &r[..r.len().min(100)]));
        }
        s.mark_nontrivial();
    }
    // ---- SOCKS5: every two-piece segmentation of the request, and byte by byte, for each address kind
    let kinds: Vec<String> = vec!["d:6578616d706c652e6f7267:443".into(), "4:7f000001:8080".into(), "6:20010db8000000000000000000000001:53".into()];
    for (ki, addr) in kinds.iter().enumerate() {
        if ki == 2 && !thorough {
            continue;
        }
        s.begin_case(&format!("handshake-socks5-every-cut:{}", ki));
        let enc = unhex(&s.run(&format!("addr.enc s5 {}", addr))).unwrap_or_default();
        let request = [vec![5u8, 1, 0], enc].concat();
        let mut segs: Vec<Vec<Vec<u8>>> = (1..request.len()).map(|k| vec![request[..k].to_vec(), request[k..].to_vec()]).collect();
        segs.push(request.iter().map(|b| vec![*b]).collect());
        for q in segs {
            let all: Vec<String> = std::iter::once(hex(&[5u8, 1, 0])).chain(q.iter().map(|p| hex(p))).collect();
            let r = s.run(&format!("hs.run socks5 {} split=1 marker={}", all.join(";"), hex(marker)));
            let want = format!("ok {} reply=050005000001000000000000 rest={}", addr, hex(marker));
            if r != want {
                s.oracle_fail("handshake-socks5", &format!("SOCKS5 CONNECT cut after {} byte(s) not completed exactly: {}", q[0].len(), &r[..r.len().min(100)]));
            }
        }
        // the greeting cut at every byte as well (nothing may be answered before it is complete)
        for greeting in [vec![5u8, 1, 0], vec![5, 2, 0, 2]] {
            for k in 1..greeting.len() {
                let all = [hex(&greeting[..k]), hex(&greeting[k..]), hex(&request)];
                let r = s.run(&format!("hs.run socks5 {} split=2 marker={}", all.join(";"), hex(marker)));
                let want = format!("ok {} reply=050005000001000000000000 rest={}", addr, hex(marker));
                if r != want {
                    s.oracle_fail("handshake-socks5", &format!("SOCKS5 greeting cut after {} byte(s): handshake not completed exactly: {}", k, &r[..r.len().min(100)]));
                }
            }
        }
        s.mark_nontrivial();
    }
    handshake_refused(s);
    handshake_early_close(s, thorough);
    http_non_ascii(s);
    handshake_half_closed(s);
}
