//! C02: UDP relay preserves each datagram, its addresses and its owner — datagram codecs of all
//! three protocols in both directions, sizes 0..max, duplicates / reordering / foreign sessions,
//! datagram boundaries inside byte streams under any segmentation
use crate::c04::random_uuid;
use crate::gen_ss::*;
use crate::session::Session;
use crate::stream::now_secs;
use crate::util::*;

fn parse_sdec(r: &str) -> Option<(u64, u64, String, String, Vec<u8>)> {
    // ok csid=.. pid=.. user=.. <addr> data=<hex>
    let t: Vec<&str> = r.split(' ').collect();
    if t.len() != 6 || t[0] != "ok" {
        return None;
    }
    Some((t[1].strip_prefix("csid=")?.parse().ok()?, t[2].strip_prefix("pid=")?.parse().ok()?, t[3].strip_prefix("user=")?.to_owned(), t[4].to_owned(), unhex(t[5].strip_prefix("data=")?)?))
}

fn parse_cdec(r: &str) -> Option<(String, Vec<u8>)> {
    let t: Vec<&str> = r.split(' ').collect();
    if t.len() != 3 || t[0] != "ok" {
        return None;
    }
    Some((t[1].to_owned(), unhex(t[2].strip_prefix("data=")?)?))
}

pub fn timed(s: &mut Session, op: &str) -> String {
    let t0 = now_secs();
    let r = s.interp.exec(&format!("{} now={}", op, t0));
    let t = if now_secs() == t0 { t0 } else { now_secs() };
    s.ops += 1;
    s.count(&format!("op:{}:{}", op.split(' ').next().unwrap_or(""), r.split(' ').next().unwrap_or("").chars().take(4).collect::<String>()));
    s.lines.push(format!("{} now={} => {}", op, t, r));
    r
}

pub fn ss_udp_case(s: &mut Session, rng: &mut Rng, cipher: &'static str, want_user: bool, big: bool) {
    let cfg = random_cfg(rng, cipher, want_user);
    s.begin_case(&format!("ss-udp:{}:{}", cipher, if cfg.with_user { "eih" } else { "psk" }));
    let key = format!("ss-udp:{}", cipher);
    let (c, sv) = (s.fresh("uc"), s.fresh("us"));
    if s.run(&format!("ssu.client {} cipher={} password={}", c, cipher, cfg.client_password)) != "ok" || s.run(&format!("ssu.server {} cipher={} password={} users={}", sv, cipher, cfg.server_password, cfg.users)) != "ok" {
        s.oracle_fail(&format!("{}:setup", key), "udp codec could not be created from a documented configuration (password form)");
        return;
    }
    let sizes: Vec<usize> = if big { vec![0, 1, 2, 100, 1400, 9000, 65000] } else { vec![0, 1, 100, 1400] };
    let mut csid = None;
    let mut last_pid = 0u64;
    let mut user_seen = String::new();
    for (i, size) in sizes.iter().enumerate() {
        let addr = random_addr(rng);
        let payload = rng.bytes(*size);
        let w = timed(s, &format!("ssu.cenc {} addr={} payload={}", c, addr, hex(&payload)));
        let Some(wb) = unhex(&w) else {
            s.oracle_fail(&format!("{}:c2s", key), "client refused to encode a datagram");
            return;
        };
        let r = timed(s, &format!("ssu.sdec {} {}", sv, hex(&wb)));
        let Some((cs, pid, user, a, data)) = parse_sdec(&r) else {
            s.oracle_fail(&format!("{}:c2s", key), &format!("server did not decode the client's datagram of {} bytes: {}", size, &r[..r.len().min(40)]));
            return;
        };
        if a != addr || data != payload {
            s.oracle_fail(&format!("{}:c2s", key), "target or payload changed on the way to the server");
            return;
        }
        if is2022(cipher) {
            if i > 0 && (Some(cs) != csid || pid != last_pid + 1) {
                s.oracle_fail(&format!("{}:ids", key), "client session id changed or packet id did not advance by one");
                return;
            }
            csid = Some(cs);
            last_pid = pid;
            user_seen = user;
            if cfg.with_user != (user_seen != "-") {
                s.oracle_fail(&format!("{}:owner", key), "datagram not attributed to the user whose identity it carries");
                return;
            }
        }
        // a tampered copy yields nothing
        let mut m = wb.clone();
        let pos = rng.below(m.len() as u64) as usize;
        m[pos] ^= 1 << rng.below(8);
        let r = timed(s, &format!("ssu.sdec {} {}", sv, hex(&m)));
        if r.starts_with("ok") {
            s.oracle_fail(&format!("{}:tamper", key), "a datagram with one flipped bit was delivered");
            return;
        }
    }
    // replies: in order, duplicated, reordered, stale, for another session
    let cs = csid.unwrap_or(0);
    let ssid = rng.next();
    let user_arg = if user_seen.is_empty() || user_seen == "-" { String::new() } else { format!(" user={}", user_seen) };
    let mut reply = |s: &mut Session, rng: &mut Rng, csid: u64, pid: u64, size: usize| -> (Vec<u8>, String, Vec<u8>) {
        let from = random_addr(rng);
        let payload = rng.bytes(size);
        let w = timed(s, &format!("ssu.senc {} csid={} ssid={} pid={}{} addr={} payload={}", sv, csid, ssid, pid, user_arg, from, hex(&payload)));
        (unhex(&w).unwrap_or_default(), from, payload)
    };
    let mut deliver = |s: &mut Session, w: &[u8]| -> Option<(String, Vec<u8>)> { parse_cdec(&timed(s, &format!("ssu.cdec {} {}", c, hex(w)))) };
    let expect = |s: &mut Session, what: &str, got: Option<(String, Vec<u8>)>, want: Option<(&String, &Vec<u8>)>| {
        let ok = match (&got, want) {
            (Some((a, d)), Some((wa, wd))) => a == wa && d == wd,
            (None, None) => true,
            _ => false,
        };
        if !ok {
            s.oracle_fail(&format!("{}:{}", key, what), &format!("reply handling wrong: {} (delivered={})", what, got.is_some()));
        }
    };
    let (w1, a1, p1) = reply(s, rng, cs, 1, 10);
    let (w2, a2, p2) = reply(s, rng, cs, 2, 0);
    let (w5, a5, p5) = reply(s, rng, cs, 5, 1400);
    let (w3, a3, p3) = reply(s, rng, cs, 3, 7);
    let (wfar, afar, pfar) = reply(s, rng, cs, 20000, 3);
    let (wstale, _, _) = reply(s, rng, cs, 4, 3);
    let (wother, _, _) = reply(s, rng, cs ^ 0x55, 6, 3);
    let (wnext, anext, pnext) = reply(s, rng, cs, 20001, 9);
    let r = deliver(s, &w1);
    expect(s, "reply-first", r, Some((&a1, &p1)));
    let r = deliver(s, &w2);
    expect(s, "reply-second", r, Some((&a2, &p2)));
    let r = deliver(s, &w5);
    expect(s, "reply-gap", r, Some((&a5, &p5)));
    let r = deliver(s, &w3);
    expect(s, "reply-reordered", r, Some((&a3, &p3)));
    if is2022(cipher) {
        let r = deliver(s, &w3);
        expect(s, "reply-duplicate-dropped", r, None);
        let r = deliver(s, &wfar);
        expect(s, "reply-jump", r, Some((&afar, &pfar)));
        let r = deliver(s, &wstale);
        expect(s, "reply-stale-dropped", r, None);
        let r = deliver(s, &wother);
        expect(s, "reply-foreign-session-dropped", r, None);
        // the session survived the refusals
        let r = deliver(s, &wnext);
        expect(s, "reply-after-refusals", r, Some((&anext, &pnext)));
        // a dropped packet of another session consumed nothing: the own session's packet with the same id is
        // still fresh, and a far-away foreign id does not move this session's window
        let (wother2, _, _) = reply(s, rng, cs ^ 0x55, 20010, 3);
        let r = deliver(s, &wother2);
        expect(s, "reply-foreign-session-dropped", r, None);
        let (wown, aown, pown) = reply(s, rng, cs, 20010, 4);
        let r = deliver(s, &wown);
        expect(s, "reply-own-id-after-foreign-same-id", r, Some((&aown, &pown)));
        let (wfarother, _, _) = reply(s, rng, cs ^ 0x55, 1 << 40, 3);
        let r = deliver(s, &wfarother);
        expect(s, "reply-foreign-session-dropped", r, None);
        let (wafter, aafter, pafter) = reply(s, rng, cs, 20011, 5);
        let r = deliver(s, &wafter);
        expect(s, "reply-after-far-foreign-id", r, Some((&aafter, &pafter)));
    } else {
        // legacy packets carry no ids: every reply is delivered, also a repeated one
        let r = deliver(s, &wfar);
        expect(s, "legacy-reply", r, Some((&afar, &pfar)));
        let r = deliver(s, &wnext);
        expect(s, "legacy-reply", r, Some((&anext, &pnext)));
    }
    s.mark_nontrivial();
}

/// datagrams inside a byte stream (Trojan frames, VMess chunks): any number, any segmentation
pub fn stream_udp_case(s: &mut Session, rng: &mut Rng, proto: &str, style: u64, ws: bool) {
    s.begin_case(&format!("{}-udp{}:cut{}", proto, if ws { "-ws" } else { "" }, style));
    let adapter = if ws { " adapter=ws" } else { "" };
    let (c, sv) = (s.fresh("c"), s.fresh("s"));
    let addr = random_addr(rng);
    if proto == "trojan" {
        s.run(&format!("tj.client {} password=pw cmd=udp addr={}", c, addr));
        s.run(&format!("tj.server {} password=pw{}", sv, adapter));
    } else {
        let uuid = random_uuid(rng);
        s.run(&format!("vm.client {} uuid={} cipher={} cmd=udp addr={}", c, uuid, if proto == "vmess-chacha" { "chacha20-poly1305" } else { "aes-128-gcm" }, addr));
        s.run(&format!("vm.server {} users=a:{}{}", sv, uuid, adapter));
    }
    // behind the WebSocket adapter one message may carry many frames: at least four datagrams
    let n = if ws { rng.range(4, 8) as usize } else { rng.range(1, 5) as usize };
    let mut wire = vec![];
    let mut sent: Vec<(String, Vec<u8>)> = vec![];
    for _ in 0..n {
        let size = *rng.pick(&[0usize, 1, 50, 1200, 1900]);
        let payload = rng.bytes(size);
        let to = if proto == "trojan" { random_addr(rng) } else { addr.clone() };
        let r = timed(s, &format!("st.enc {} {} to={}", c, hex(&payload), to));
        let Some(w) = unhex(&r) else {
            s.oracle_fail(&format!("{}-udp:encode", proto), "a datagram within the documented size was refused");
            return;
        };
        wire.extend(w);
        sent.push((to.replace(':', "/"), payload));
    }
    // an over-long datagram is refused as a whole, not truncated (VMess: one chunk per datagram)
    if proto != "trojan" {
        let r = timed(s, &format!("st.enc {} {} to={}", c, hex(&rng.bytes(2100)), addr));
        if r != "err" {
            s.oracle_fail(&format!("{}-udp:oversize", proto), "a datagram larger than one chunk was not refused");
            return;
        }
    }
    let pieces = cut(rng, &wire, 1, style);
    let mut got: Vec<(String, Vec<u8>)> = vec![];
    for p in &pieces {
        let r = timed(s, &format!("st.feed {} {}", sv, hex(p)));
        for tok in r.split(' ') {
            if let Some(rest) = tok.strip_prefix("u:") {
                let (a, h) = rest.rsplit_once(':').unwrap_or((rest, "-"));
                got.push((a.to_owned(), unhex(h).unwrap_or_default()));
            } else if tok == "err" || tok == "panic" {
                s.oracle_fail(&format!("{}-udp:stream", proto), "datagram stream decoder failed on a valid stream");
                return;
            }
        }
    }
    if got != sent {
        s.oracle_fail(&format!("{}-udp:boundaries", proto), &format!("{} datagrams sent, {} delivered or contents/addresses differ", sent.len(), got.len()));
        return;
    }
    if ws {
        // the adapter object of the harness only reads
        s.mark_nontrivial();
        return;
    }
    // and back: server frames towards the client
    let mut wire = vec![];
    let mut sent2: Vec<Vec<u8>> = vec![];
    for _ in 0..n {
        let payload = rng.bytes(*rng.clone().pick(&[0usize, 3, 700]));
        let from = format!("4:{}:{}", hex(&rng.bytes(4)), rng.range(1, 65535));
        let r = timed(s, &format!("st.enc {} {} to={}", sv, hex(&payload), from));
        let Some(w) = unhex(&r) else { return };
        wire.extend(w);
        sent2.push(payload);
    }
    let pieces = cut(rng, &wire, 1, style);
    let mut got2: Vec<Vec<u8>> = vec![];
    for p in &pieces {
        let r = timed(s, &format!("st.feed {} {}", c, hex(p)));
        for tok in r.split(' ') {
            if let Some(rest) = tok.strip_prefix("u:") {
                got2.push(unhex(rest.rsplit_once(':').map(|x| x.1).unwrap_or("-")).unwrap_or_default());
            }
        }
    }
    if got2 != sent2 {
        s.oracle_fail(&format!("{}-udp:boundaries-back", proto), "reply datagrams merged, split, lost or altered");
        return;
    }
    s.mark_nontrivial();
}

/// VMess datagrams around the one-chunk limit: each is refused as a whole or arrives whole — whatever padding is drawn
fn vmess_limit_case(s: &mut Session, rng: &mut Rng, cipher: &str, thorough: bool) {
    s.begin_case(&format!("vmess-udp-limit:{}", cipher));
    let (c, sv) = (s.fresh("c"), s.fresh("s"));
    let addr = random_addr(rng);
    let uuid = random_uuid(rng);
    s.run(&format!("vm.client {} uuid={} cipher={} cmd=udp addr={}", c, uuid, cipher, addr));
    s.run(&format!("vm.server {} users=a:{}", sv, uuid));
    let mut sent = 0;
    for size in (1930..=1990usize).chain([2000, 2013, 2014, 2015, 2030, 2048, 2049]) {
        for _ in 0..if thorough { 6 } else { 2 } {
            let payload = rng.bytes(size);
            let r = timed(s, &format!("st.enc {} {} to={}", c, hex(&payload), addr));
            let Some(w) = unhex(&r) else { continue };
            sent += 1;
            let r = timed(s, &format!("st.feed {} {}", sv, hex(&w)));
            let got: Vec<Vec<u8>> = r.split(' ').filter_map(|tok| tok.strip_prefix("u:")).map(|rest| unhex(rest.rsplit_once(':').map(|x| x.1).unwrap_or("-")).unwrap_or_default()).collect();
            if got.len() != 1 || got[0] != payload {
                s.oracle_fail("vmess-udp:limit", &format!("a datagram of {} bytes was accepted by the sender but arrived as {} datagram(s) of {:?} bytes", size, got.len(), got.iter().map(|g| g.len()).collect::<Vec<_>>()));
                return;
            }
        }
    }
    s.count(&format!("limit-sent:{}", sent.min(1)));
    s.mark_nontrivial();
}

/// the whole relay: real client (`transfer_udp`) and real server, several local applications and several
/// targets at once — every datagram reaches the target it is addressed to, exactly once and whole; every answer
/// returns to the application that asked, labelled with the answering target; nobody gets anything else
fn e2e_cases(s: &mut Session, tier: &str, rng: &mut Rng) {
    e2e_cases_for(s, tier, rng, None)
}

/// `only`: one (protocol, transport) pair instead of all of them
pub fn e2e_cases_for(s: &mut Session, tier: &str, rng: &mut Rng, only: Option<(&str, &str)>) {
    use crate::e2e_gen::*;
    let thorough = tier == "thorough";
    for mut base in protocol_ciphers(rng) {
        base.udp = true;
        // the README's transport table: shadowsocks udp-udp; vmess udp over tcp / tls / ws / wss / quic; trojan udp over tls / wss / quic
        let all: Vec<&'static str> = match base.protocol {
            "shadowsocks" => vec!["tcp"],
            "vmess" => if tls_available() { vec!["tcp", "ws", "tls", "wss", "quic"] } else { vec!["tcp", "ws"] },
            _ => if tls_available() { vec!["tls", "wss", "quic"] } else { vec![] },
        };
        // (each (protocol, transport) pair has its own arm in the client's `transfer_udp`: all of them, in both tiers)
        let transports = all;
        for t in transports {
            if only.is_some_and(|(p, tr)| p != base.protocol || tr != t) {
                continue;
            }
            let cfg = base.with(t);
            s.begin_case(&format!("e2e-udp:{}", cfg.label()));
            let Some(w) = cfg.start(s, false, 4) else {
                s.oracle_fail(&format!("start:{}", cfg.label()), "a README-supported configuration does not start");
                continue;
            };
            for (apps, targets, per) in if thorough { vec![(1, 1, 3), (2, 2, 2), (3, 4, 2)] } else { vec![(2, 2, 2)] } {
                let r = s.run(&format!("e2e.udpm {} apps={} targets={} per={} seed={}", w, apps, targets, per, rng.below(1 << 40)));
                if r != "up=ok down=ok stray=0" {
                    s.oracle_fail(&format!("e2e-udp:{}", cfg.label()), &format!("{} applications x {} targets: datagrams lost, altered, misdelivered or mislabelled: `{}`", apps, targets, r));
                }
            }
            // one application, targets named in three ways (two addresses, a name) whose orders by address and by port
            // disagree: the binding table keeps every one of them apart and finds every one again
            for (apps, targets, per) in if thorough { vec![(1, 6, 3), (2, 9, 2)] } else { vec![(1, 6, 2)] } {
                let r = s.run(&format!("e2e.udpm {} apps={} targets={} per={} seed={} mix=1", w, apps, targets, per, rng.below(1 << 40)));
                if r != "up=ok down=ok stray=0" {
                    s.oracle_fail(&format!("e2e-udp-mixed-targets:{}", cfg.label()), &format!("{} applications x {} targets named by address and by name: datagrams lost, altered or misdelivered: `{}`", apps, targets, r));
                }
                let r = s.run(&format!("e2e.alive {}", w));
                if r != "alive" {
                    s.oracle_fail(&format!("e2e-udp-mixed-targets:{}", cfg.label()), &format!("after datagrams to targets named by address and by name a service task had ended: `{}`", r));
                }
            }
            // a datagram that cannot be relayed (too large once the protocol's own bytes are added — towards the server, or an
            // answer on its way back) is lost by itself: the other applications' datagrams before and after it are not
            for f in ["server-udp-oversized-reply", "local-udp-oversized"] {
                s.run(&format!("e2e.fault {} {} -", w, f));
                let r = s.run(&format!("e2e.udpm {} apps=2 targets=2 per=1 seed={}", w, rng.below(1 << 40)));
                if r != "up=ok down=ok stray=0" {
                    s.oracle_fail(&format!("e2e-udp-after-unrelayable:{}", cfg.label()), &format!("after a datagram that could not be relayed ({}), other applications' datagrams were lost or misdelivered: `{}`", f, r));
                }
            }
            s.run(&format!("e2e.stop {}", w));
            s.mark_nontrivial();
        }
    }
}

pub fn generate(s: &mut Session, tier: &str, rng: &mut Rng) {
    let thorough = tier == "thorough";
    for _ in 0..if thorough { 6 } else { 1 } {
        for cipher in CIPHERS {
            ss_udp_case(s, rng, cipher, false, thorough);
            if eih(cipher) {
                ss_udp_case(s, rng, cipher, true, thorough);
            }
        }
        for proto in ["trojan", "vmess-aes", "vmess-chacha"] {
            for style in 0..5 {
                stream_udp_case(s, rng, proto, style, false);
                if style == 0 || style == 3 {
                    stream_udp_case(s, rng, proto, style, true);
                }
            }
        }
        for cipher in ["aes-128-gcm", "chacha20-poly1305"] {
            vmess_limit_case(s, rng, cipher, thorough);
        }
    }
    e2e_cases(s, tier, rng);
}
