//! in-process end-to-end tier: the real server task (`startup`) and the real client services
//! (`transfer_tcp`, `transfer_udp`) run on a multi-threaded runtime and talk over loopback sockets;
//! scripted local applications and scripted targets observe what arrives where
use std::net::SocketAddr;
use std::sync::Arc;
use std::time::Duration;

use octo_squirrel::config::ServerConfig;
use octo_squirrel_client::client::verif as cv;
use octo_squirrel_server::server::verif as sv;
use tokio::io::{AsyncReadExt, AsyncWriteExt};
use tokio::net::{TcpListener, TcpStream, UdpSocket};
use tokio::sync::Mutex;

use crate::util::*;

pub struct World {
    pub rt: tokio::runtime::Runtime,
    pub server_port: u16,
    pub client_port: u16,
    pub tasks: Vec<tokio::task::JoinHandle<()>>,
    pub udp: bool,
}

fn free_port() -> u16 {
    std::net::TcpListener::bind("127.0.0.1:0").and_then(|l| l.local_addr()).map(|a| a.port()).unwrap_or(0)
}

pub fn open_fds() -> usize {
    std::fs::read_dir("/proc/self/fd").map(|d| d.count()).unwrap_or(0)
}

impl World {
    /// `mode`: the server's mode (the client gets tcp_and_udp when udp is asked for)
    pub fn start(protocol: &str, cipher: &str, server_password: &str, client_password: &str, users: &[(String, String)], mode: &str, ws: bool) -> anyhow::Result<World> {
        let rt = tokio::runtime::Builder::new_multi_thread().worker_threads(4).enable_all().build()?;
        let server_port = free_port();
        let client_port = free_port();
        let users_json: Vec<serde_json::Value> = users.iter().map(|(n, p)| serde_json::json!({"name": n, "password": p})).collect();
        let mut sj = serde_json::json!({"host": "127.0.0.1", "port": server_port, "password": server_password, "protocol": protocol, "cipher": cipher, "mode": mode, "user": users_json});
        let mut cj = serde_json::json!({"host": "127.0.0.1", "port": server_port, "password": client_password, "protocol": protocol, "cipher": cipher, "mode": mode});
        if ws {
            sj["ws"] = serde_json::json!({"path": "/ws"});
            cj["ws"] = serde_json::json!({"path": "/ws", "header": {"Host": "127.0.0.1"}});
        }
        let scfg: ServerConfig<sv::SslConfig> = serde_json::from_value(sj)?;
        let ccfg: ServerConfig<cv::SslConfig> = serde_json::from_value(cj)?;
        let udp = mode.contains("udp");
        let mut tasks = vec![];
        tasks.push(rt.spawn(sv::startup(scfg)));
        let listen: SocketAddr = format!("127.0.0.1:{}", client_port).parse()?;
        let (listener, socket) = rt.block_on(async {
            // give the server a moment to bind
            tokio::time::sleep(Duration::from_millis(60)).await;
            let l = TcpListener::bind(listen).await?;
            let u = if udp { Some(UdpSocket::bind(listen).await?) } else { None };
            anyhow::Ok((l, u))
        })?;
        tasks.push(rt.spawn(cv::transfer_tcp(listener, ccfg.clone())));
        if let Some(socket) = socket {
            tasks.push(rt.spawn(cv::transfer_udp(socket, ccfg)));
        }
        Ok(World { rt, server_port, client_port, tasks, udp })
    }

    /// one TCP flow through client and server to a scripted target.
    /// `up`: chunks the application writes (with small pauses); `down`: bytes the target answers after it
    /// has received everything; `close`: who closes first.  Returns a canonical observation.
    pub fn tcp_flow(&self, kind: &str, host: &str, up: &[Vec<u8>], down: &[u8], target_closes_first: bool) -> String {
        let client_port = self.client_port;
        let up = up.to_vec();
        let down = down.to_vec();
        let kind = kind.to_owned();
        let host = host.to_owned();
        self.rt.block_on(async move {
            let Ok(target) = TcpListener::bind("127.0.0.1:0").await else { return "no-loopback".to_owned() };
            let tport = target.local_addr().unwrap().port();
            let total_up: usize = up.iter().map(|c| c.len()).sum();
            let seen = Arc::new(Mutex::new((Vec::new(), false)));
            let seen2 = seen.clone();
            let down2 = down.clone();
            let plain_http = kind == "http";
            let target_task = tokio::spawn(async move {
                let Ok(Ok((mut t, _))) = tokio::time::timeout(Duration::from_secs(5), target.accept()).await else { return false };
                let mut buf = vec![0u8; 65536];
                let mut got = Vec::new();
                // read until the expected amount has arrived (plain http: the request itself is forwarded too)
                loop {
                    if !plain_http && got.len() >= total_up {
                        break;
                    }
                    match tokio::time::timeout(Duration::from_millis(if plain_http { 400 } else { 3000 }), t.read(&mut buf)).await {
                        Ok(Ok(0)) => break,
                        Ok(Ok(n)) => got.extend_from_slice(&buf[..n]),
                        _ => break,
                    }
                }
                let _ = t.write_all(&down2).await;
                let mut eof_from_app = false;
                if target_closes_first {
                    let _ = t.shutdown().await;
                } else {
                    // wait for the application's close to propagate
                    loop {
                        match tokio::time::timeout(Duration::from_secs(3), t.read(&mut buf)).await {
                            Ok(Ok(0)) => {
                                eof_from_app = true;
                                break;
                            }
                            Ok(Ok(n)) => got.extend_from_slice(&buf[..n]),
                            _ => break,
                        }
                    }
                }
                *seen2.lock().await = (got, eof_from_app);
                true
            });
            let Ok(mut app) = TcpStream::connect(("127.0.0.1", client_port)).await else { return "client-refused".to_owned() };
            let _ = app.set_nodelay(true);
            // local handshake
            let mut preamble = Vec::new();
            match kind.as_str() {
                "socks5" => {
                    let _ = app.write_all(&[5, 1, 0]).await;
                    let mut b = [0u8; 2];
                    if tokio::time::timeout(Duration::from_secs(3), app.read_exact(&mut b)).await.is_err() {
                        return "handshake-timeout".to_owned();
                    }
                    let mut req = vec![5u8, 1, 0];
                    if host == "127.0.0.1" {
                        req.extend_from_slice(&[1, 127, 0, 0, 1]);
                    } else {
                        req.push(3);
                        req.push(host.len() as u8);
                        req.extend_from_slice(host.as_bytes());
                    }
                    req.extend_from_slice(&tport.to_be_bytes());
                    let _ = app.write_all(&req).await;
                    let mut b = [0u8; 10];
                    if tokio::time::timeout(Duration::from_secs(3), app.read_exact(&mut b)).await.is_err() {
                        return "handshake-timeout".to_owned();
                    }
                }
                "connect" => {
                    let _ = app.write_all(format!("CONNECT {}:{} HTTP/1.1\r\nHost: {}:{}\r\n\r\n", host, tport, host, tport).as_bytes()).await;
                    let mut b = [0u8; 39];
                    if tokio::time::timeout(Duration::from_secs(3), app.read_exact(&mut b)).await.is_err() {
                        return "handshake-timeout".to_owned();
                    }
                }
                _ => {
                    preamble = format!("POST http://{}:{}/upload HTTP/1.1\r\nHost: {}:{}\r\nContent-Length: {}\r\n\r\n", host, tport, host, tport, total_up).into_bytes();
                    let _ = app.write_all(&preamble).await;
                }
            }
            for c in &up {
                if app.write_all(c).await.is_err() {
                    break;
                }
                tokio::time::sleep(Duration::from_millis(2)).await;
            }
            let mut got_down = Vec::new();
            let mut buf = vec![0u8; 65536];
            let mut eof = false;
            if !target_closes_first {
                // read the answer, then close first
                while got_down.len() < down.len() {
                    match tokio::time::timeout(Duration::from_secs(3), app.read(&mut buf)).await {
                        Ok(Ok(0)) => {
                            eof = true;
                            break;
                        }
                        Ok(Ok(n)) => got_down.extend_from_slice(&buf[..n]),
                        _ => break,
                    }
                }
                let _ = app.shutdown().await;
            }
            if !eof {
                loop {
                    match tokio::time::timeout(Duration::from_secs(3), app.read(&mut buf)).await {
                        Ok(Ok(0)) => {
                            eof = true;
                            break;
                        }
                        Ok(Ok(n)) => got_down.extend_from_slice(&buf[..n]),
                        _ => break,
                    }
                }
            }
            let dialed = tokio::time::timeout(Duration::from_secs(6), target_task).await.ok().and_then(|r| r.ok()).unwrap_or(false);
            let (got_up, eof_at_target) = seen.lock().await.clone();
            let want_up: Vec<u8> = [preamble, up.concat()].concat();
            format!(
                "dialed={} up={} down={} eof={} target-eof={}",
                dialed as u8,
                if got_up == want_up { "ok".to_owned() } else { format!("diff:{}of{}", got_up.len(), want_up.len()) },
                if got_down == down { "ok".to_owned() } else { format!("diff:{}of{}", got_down.len(), down.len()) },
                eof as u8,
                if target_closes_first { "-".to_owned() } else { (eof_at_target as u8).to_string() }
            )
        })
    }

    /// datagrams from one local application to scripted udp echo targets and back
    pub fn udp_flow(&self, payloads: &[Vec<u8>]) -> String {
        let client_port = self.client_port;
        let payloads = payloads.to_vec();
        self.rt.block_on(async move {
            let Ok(target) = UdpSocket::bind("127.0.0.1:0").await else { return "no-loopback".to_owned() };
            let taddr = target.local_addr().unwrap();
            let n = payloads.len();
            let echo = tokio::spawn(async move {
                let mut buf = vec![0u8; 70000];
                let mut seen = Vec::new();
                for _ in 0..n {
                    match tokio::time::timeout(Duration::from_secs(3), target.recv_from(&mut buf)).await {
                        Ok(Ok((l, from))) => {
                            seen.push(buf[..l].to_vec());
                            let mut answer = b"re:".to_vec();
                            answer.extend_from_slice(&buf[..l]);
                            let _ = target.send_to(&answer, from).await;
                        }
                        _ => break,
                    }
                }
                seen
            });
            let Ok(app) = UdpSocket::bind("127.0.0.1:0").await else { return "no-loopback".to_owned() };
            let mut answers = Vec::new();
            let mut buf = vec![0u8; 70000];
            for p in &payloads {
                let mut d = vec![0u8, 0, 0, 1, 127, 0, 0, 1];
                d.extend_from_slice(&taddr.port().to_be_bytes());
                d.extend_from_slice(p);
                let _ = app.send_to(&d, ("127.0.0.1", client_port)).await;
                match tokio::time::timeout(Duration::from_secs(3), app.recv_from(&mut buf)).await {
                    Ok(Ok((l, _))) => answers.push(buf[..l].to_vec()),
                    _ => answers.push(vec![]),
                }
            }
            let seen = echo.await.unwrap_or_default();
            let mut ok_up = seen.len() == payloads.len();
            for (a, b) in seen.iter().zip(payloads.iter()) {
                ok_up &= a == b;
            }
            let mut ok_down = true;
            for (a, p) in answers.iter().zip(payloads.iter()) {
                let mut want = vec![0u8, 0, 0, 1, 127, 0, 0, 1];
                want.extend_from_slice(&taddr.port().to_be_bytes());
                want.extend_from_slice(b"re:");
                want.extend_from_slice(p);
                ok_down &= *a == want;
            }
            format!("up={} down={}", if ok_up { "ok".to_owned() } else { format!("diff:{}of{}", seen.len(), payloads.len()) }, if ok_down { "ok" } else { "diff" })
        })
    }

    /// one misbehaving flow from the catalogue; returns when it is over
    pub fn fault(&self, kind: &str, junk: &[u8]) -> String {
        let (sp, cp) = (self.server_port, self.client_port);
        let kind = kind.to_owned();
        let junk = junk.to_vec();
        self.rt.block_on(async move {
            match kind.as_str() {
                // towards the server's tcp port
                "server-junk" | "server-junk-reset" | "server-stall" | "server-half" => {
                    let Ok(mut c) = TcpStream::connect(("127.0.0.1", sp)).await else { return "connect-failed".to_owned() };
                    if kind != "server-stall" {
                        let _ = c.write_all(&junk).await;
                    }
                    match kind.as_str() {
                        "server-junk-reset" => {
                            let _ = c.set_linger(Some(Duration::from_secs(0)));
                            drop(c);
                        }
                        "server-stall" | "server-half" => {
                            // keep it open for a while, without completing anything, then drop
                            tokio::time::sleep(Duration::from_millis(150)).await;
                            drop(c);
                        }
                        _ => {
                            let _ = c.shutdown().await;
                        }
                    }
                    "done".to_owned()
                }
                "server-udp-junk" => {
                    let Ok(u) = UdpSocket::bind("127.0.0.1:0").await else { return "no-loopback".to_owned() };
                    let _ = u.send_to(&junk, ("127.0.0.1", sp)).await;
                    "done".to_owned()
                }
                // towards the client's local ports
                "local-junk" | "local-stall" => {
                    let Ok(mut c) = TcpStream::connect(("127.0.0.1", cp)).await else { return "connect-failed".to_owned() };
                    if kind == "local-junk" {
                        let _ = c.write_all(&junk).await;
                        let _ = c.shutdown().await;
                    } else {
                        tokio::time::sleep(Duration::from_millis(150)).await;
                    }
                    "done".to_owned()
                }
                "local-udp-junk" => {
                    let Ok(u) = UdpSocket::bind("127.0.0.1:0").await else { return "no-loopback".to_owned() };
                    let _ = u.send_to(&junk, ("127.0.0.1", cp)).await;
                    "done".to_owned()
                }
                _ => "unknown-fault".to_owned(),
            }
        })
    }

    pub fn alive(&self) -> String {
        let dead: Vec<usize> = self.tasks.iter().enumerate().filter(|(_, t)| t.is_finished()).map(|(i, _)| i).collect();
        if dead.is_empty() { "alive".to_owned() } else { format!("ended:{:?}", dead).replace(' ', "") }
    }
}

impl Drop for World {
    fn drop(&mut self) {
        for t in &self.tasks {
            t.abort();
        }
    }
}

pub fn parse_sizes(s: &str) -> Vec<usize> {
    s.split(',').filter_map(|x| x.parse().ok()).collect()
}

pub fn payload(seed: u64, sizes: &[usize]) -> Vec<Vec<u8>> {
    let mut rng = Rng::new(seed);
    sizes.iter().map(|n| rng.bytes(*n)).collect()
}
