//! in-process end-to-end tier: the real server task (`startup`) and the real client services
//! (`transfer_tcp`, `transfer_udp`) run on a multi-threaded runtime and talk over loopback sockets;
//! scripted local applications and scripted targets observe what arrives where
use std::net::SocketAddr;
use std::sync::Arc;
use std::time::Duration;

use octo_squirrel::config::ServerConfig;
use octo_squirrel::protocol::address::Address;
use octo_squirrel_client::client::verif as cv;
use octo_squirrel_server::server::verif as sv;
use tokio::io::{AsyncReadExt, AsyncWriteExt};
use tokio::net::{TcpListener, TcpStream, UdpSocket};
use tokio::sync::Mutex;

use crate::util::*;

pub struct World {
    pub rt: tokio::runtime::Runtime,
    /// where the real server listens
    pub server_port: u16,
    /// where the client connects: the server itself, or a cuttable forwarder in front of it
    pub link_port: u16,
    pub client_port: u16,
    /// 0: server, 1: client tcp, 2: client udp (when configured)
    pub tasks: Vec<tokio::task::JoinHandle<()>>,
    pub udp: bool,
    pub protocol: String,
    pub cipher: String,
    pub client_password: String,
    scfg: ServerConfig<sv::SslConfig>,
    links: Arc<std::sync::Mutex<Vec<tokio::task::AbortHandle>>>,
    /// milliseconds for which the link holds the NEXT connection it accepts before it carries anything for it (0: none)
    stall_next: Arc<std::sync::atomic::AtomicU64>,
    /// the link resets the NEXT connection it accepts (towards the client) right behind the first answer it has carried
    reset_behind_answer: Arc<std::sync::atomic::AtomicBool>,
    baseline: std::sync::Mutex<Option<(usize, usize)>>,
    /// client-server transport is quic (a connection's driver task outlives its streams until the connection has drained)
    quic: bool,
}

/// one process at a time plays the silent resolver (checks of several properties may run side by side)
pub struct ResolverTurn(std::fs::File);
impl ResolverTurn {
    pub fn take() -> Option<ResolverTurn> {
        use std::os::fd::AsRawFd;
        let f = std::fs::OpenOptions::new().create(true).write(true).truncate(false).open(std::env::temp_dir().join("octo-verif-resolver.lock")).ok()?;
        unsafe { libc::flock(f.as_raw_fd(), libc::LOCK_EX) };
        Some(ResolverTurn(f))
    }
}
impl Drop for ResolverTurn {
    fn drop(&mut self) {
        use std::os::fd::AsRawFd;
        unsafe { libc::flock(self.0.as_raw_fd(), libc::LOCK_UN) };
    }
}

/// can this process stand in for the resolver the system asks (127.0.0.1:53 named by /etc/resolv.conf, nobody there)?
pub fn resolver_available() -> bool {
    let _turn = ResolverTurn::take();
    let names_local = std::fs::read_to_string("/etc/resolv.conf").map(|s| s.lines().filter(|l| l.trim_start().starts_with("nameserver")).all(|l| l.contains("127.0.0.1"))).unwrap_or(false);
    names_local && std::net::UdpSocket::bind("127.0.0.1:53").is_ok()
}

pub struct TcpScript {
    pub kind: String,
    pub host: String,
    pub up: Vec<Vec<u8>>,
    pub down: Vec<u8>,
    pub target_closes_first: bool,
    /// "up": a scripted listener; "refused": a port nobody listens on; "unresolvable": a name that does not resolve
    pub target: String,
    /// cut the client-server link once this many upstream chunks have reached the target
    pub cut_after: Option<usize>,
    /// the application closes its sending side right after its last write, without waiting for an answer
    pub early: bool,
    /// "app" / "target": that side resets its connection (instead of closing it) once the upstream bytes have arrived;
    /// "target-answer": the target answers and closes at once while part of the upload is still unread (its kernel resets)
    pub reset: Option<String>,
    /// the target closes first and the application, having seen the end, keeps its socket open and idle: everything
    /// but that one socket has to be released by then
    pub hold: bool,
    /// the target reads slowly (16 KiB per millisecond): when the flow is dropped a good part of the upload is still in
    /// the server's socket towards it
    pub slow_target: bool,
}

/// a session id no other call of this process has used
fn fresh_id() -> u64 {
    static N: std::sync::atomic::AtomicU64 = std::sync::atomic::AtomicU64::new(1);
    let t = std::time::SystemTime::now().duration_since(std::time::UNIX_EPOCH).map(|d| d.as_nanos() as u64).unwrap_or(0);
    (t << 16) ^ (N.fetch_add(1, std::sync::atomic::Ordering::Relaxed) << 1) | 1 << 62
}

fn free_port() -> u16 {
    std::net::TcpListener::bind("127.0.0.1:0").and_then(|l| l.local_addr()).map(|a| a.port()).unwrap_or(0)
}

pub fn open_fds() -> usize {
    std::fs::read_dir("/proc/self/fd").map(|d| d.count()).unwrap_or(0)
}

impl World {
    /// `mode`: the server's mode (the client gets tcp_and_udp when udp is asked for)
    #[allow(clippy::too_many_arguments)]
    pub fn start(protocol: &str, cipher: &str, server_password: &str, client_password: &str, users: &[(String, String)], mode: &str, client_mode: Option<&str>, ws: bool, link: bool, chop: bool, threads: usize, tls: Option<&str>) -> anyhow::Result<World> {
        // as both `main`s do
        let _ = tokio_rustls::rustls::crypto::aws_lc_rs::default_provider().install_default();
        let rt = tokio::runtime::Builder::new_multi_thread().worker_threads(threads.clamp(2, 16)).enable_all().build()?;
        let server_port = free_port();
        let client_port = free_port();
        let link_port = if link { free_port() } else { server_port };
        let users_json: Vec<serde_json::Value> = users.iter().map(|(n, p)| serde_json::json!({"name": n, "password": p})).collect();
        let mut sj = serde_json::json!({"host": "127.0.0.1", "port": server_port, "password": server_password, "protocol": protocol, "cipher": cipher, "mode": mode, "user": users_json});
        let mut cj = serde_json::json!({"host": "127.0.0.1", "port": link_port, "password": client_password, "protocol": protocol, "cipher": cipher, "mode": client_mode.unwrap_or(mode)});
        if cipher == "(none)" {
            // the configuration names no cipher at all
            sj.as_object_mut().unwrap().remove("cipher");
            cj.as_object_mut().unwrap().remove("cipher");
        }
        if ws {
            sj["ws"] = serde_json::json!({"path": "/ws"});
            cj["ws"] = serde_json::json!({"path": "/ws", "header": {"Host": "127.0.0.1"}});
        }
        if let Some(kind) = tls {
            let dir = tls_dir();
            let ssl = serde_json::json!({"certificateFile": format!("{}/cert.pem", dir), "keyFile": format!("{}/key.pem", dir), "serverName": "localhost"});
            let cssl = serde_json::json!({"certificateFile": format!("{}/cert.pem", dir), "serverName": "localhost"});
            sj[kind] = ssl;
            cj[kind] = cssl;
        }
        let scfg: ServerConfig<sv::SslConfig> = serde_json::from_value(sj)?;
        let ccfg: ServerConfig<cv::SslConfig> = serde_json::from_value(cj)?;
        // (datagrams of vmess / trojan travel inside the tcp transport: only the client needs a udp socket)
        let udp = client_mode.unwrap_or(mode).contains("udp");
        let mut tasks = vec![];
        tasks.push(rt.spawn(sv::startup(scfg.clone())));
        let links: Arc<std::sync::Mutex<Vec<tokio::task::AbortHandle>>> = Arc::default();
        let stall_next: Arc<std::sync::atomic::AtomicU64> = Arc::default();
        let reset_behind_answer: Arc<std::sync::atomic::AtomicBool> = Arc::default();
        let is2022 = cipher.starts_with("2022");
        if link {
            let links = links.clone();
            let stall_next = stall_next.clone();
            let reset_behind_answer = reset_behind_answer.clone();
            let l = rt.block_on(TcpListener::bind(("127.0.0.1", link_port)))?;
            rt.spawn(async move {
                while let Ok((a, _)) = l.accept().await {
                    let hold = stall_next.swap(0, std::sync::atomic::Ordering::SeqCst);
                    let reset = reset_behind_answer.swap(false, std::sync::atomic::Ordering::SeqCst);
                    let h = tokio::spawn(async move {
                        if hold > 0 {
                            // this connection's bytes are held back for a while (its handshake stalls), the others' are not
                            tokio::time::sleep(Duration::from_millis(hold)).await;
                        }
                        if let Ok(b) = TcpStream::connect(("127.0.0.1", server_port)).await {
                            let _ = a.set_nodelay(true);
                            let _ = b.set_nodelay(true);
                            let (mut a, mut b) = (a, b);
                            if reset {
                                // the link fails right behind data: everything the server sends within a moment of its first
                                // byte is carried to the client in one piece, and the connection is reset behind it
                                let (mut br, mut bw) = b.into_split();
                                let mut all = vec![];
                                let (mut buf_a, mut buf_b) = (vec![0u8; 65536], vec![0u8; 65536]);
                                loop {
                                    tokio::select! {
                                        r = a.read(&mut buf_a) => match r {
                                            Ok(0) | Err(_) => return,
                                            Ok(k) => {
                                                if bw.write_all(&buf_a[..k]).await.is_err() {
                                                    return;
                                                }
                                            }
                                        },
                                        r = br.read(&mut buf_b) => match r {
                                            Ok(0) | Err(_) => return,
                                            Ok(k) => {
                                                all.extend_from_slice(&buf_b[..k]);
                                                break;
                                            }
                                        },
                                    }
                                }
                                while let Ok(Ok(k)) = tokio::time::timeout(Duration::from_millis(120), br.read(&mut buf_b)).await {
                                    if k == 0 {
                                        break;
                                    }
                                    all.extend_from_slice(&buf_b[..k]);
                                }
                                let _ = a.write_all(&all).await;
                                let _ = a.set_linger(Some(Duration::from_secs(0)));
                                drop(a);
                                return;
                            }
                            if chop {
                                // forward in small pieces of changing size with tiny pauses: the peer's reads end anywhere inside frames
                                async fn pump(mut r: tokio::net::tcp::OwnedReadHalf, mut w: tokio::net::tcp::OwnedWriteHalf, mut x: u64, mut first: Option<usize>) {
                                    let mut buf = vec![0u8; 4096];
                                    loop {
                                        x = x.wrapping_mul(6364136223846793005).wrapping_add(1442695040888963407);
                                        let mut n = 1 + (x >> 33) as usize % [7usize, 61, 300, 1400, 4096][(x >> 20) as usize % 5];
                                        // the first piece towards the client ends inside the response's first frames (between a
                                        // header's sealed length and its sealed body, inside a salt, …): a different place per connection
                                        if let Some(f) = first.take() {
                                            n = f;
                                        }
                                        match r.read(&mut buf[..n]).await {
                                            Ok(0) | Err(_) => break,
                                            Ok(k) => {
                                                if w.write_all(&buf[..k]).await.is_err() {
                                                    break;
                                                }
                                                tokio::time::sleep(Duration::from_micros(150)).await;
                                            }
                                        }
                                    }
                                    let _ = w.shutdown().await;
                                }
                                let (ar, aw) = a.into_split();
                                let (br, bw) = b.into_split();
                                static CONN: std::sync::atomic::AtomicUsize = std::sync::atomic::AtomicUsize::new(0);
                                let k = CONN.fetch_add(1, std::sync::atomic::Ordering::Relaxed);
                                // (Shadowsocks 2022 asks for salt + fixed header in the first read: that one boundary is exempt)
                                let firsts = if is2022 { [200usize; 10] } else { [20usize, 37, 18, 1, 30, 25, 16, 33, 2, 40] };
                                let _ = tokio::join!(pump(ar, bw, 1 + k as u64 * 2, if is2022 { Some(96) } else { None }), pump(br, aw, 2 + k as u64 * 2, Some(firsts[k % firsts.len()])));
                            } else {
                                let _ = tokio::io::copy_bidirectional(&mut a, &mut b).await;
                            }
                        }
                    });
                    links.lock().unwrap().push(h.abort_handle());
                }
            });
        }
        let listen: SocketAddr = format!("127.0.0.1:{}", client_port).parse()?;
        let (listener, socket) = rt.block_on(async {
            // wait until the server listens (however busy the machine is)
            for _ in 0..400 {
                // (a server whose start-up failed will never listen)
                if tasks[0].is_finished() || TcpStream::connect(("127.0.0.1", server_port)).await.is_ok() {
                    break;
                }
                tokio::time::sleep(Duration::from_millis(25)).await;
            }
            tokio::time::sleep(Duration::from_millis(40)).await;
            let l = TcpListener::bind(listen).await?;
            let u = if udp { Some(UdpSocket::bind(listen).await?) } else { None };
            anyhow::Ok((l, u))
        })?;
        tasks.push(rt.spawn(cv::transfer_tcp(listener, ccfg.clone())));
        if let Some(socket) = socket {
            tasks.push(rt.spawn(cv::transfer_udp(socket, ccfg)));
        }
        Ok(World {
            rt,
            server_port,
            link_port,
            client_port,
            tasks,
            udp,
            protocol: protocol.to_owned(),
            cipher: cipher.to_owned(),
            client_password: client_password.to_owned(),
            scfg,
            links,
            stall_next,
            reset_behind_answer,
            baseline: std::sync::Mutex::new(None),
            quic: tls == Some("quic"),
        })
    }

    /// cut every client-server link that is up (the forwarder drops both of its sockets)
    pub fn cut(&self) -> String {
        let mut l = self.links.lock().unwrap();
        let n = l.len();
        for h in l.drain(..) {
            h.abort();
        }
        if self.link_port == self.server_port { "no-link".to_owned() } else { format!("cut:{}", (n > 0) as u8) }
    }

    pub fn server(&mut self, what: &str) -> String {
        match what {
            "stop" => {
                self.tasks[0].abort();
                let t = &mut self.tasks[0];
                let _ = self.rt.block_on(async { tokio::time::timeout(Duration::from_secs(2), t).await });
                "ok".to_owned()
            }
            "start" => {
                self.tasks[0] = self.rt.spawn(sv::startup(self.scfg.clone()));
                let sp = self.server_port;
                self.rt.block_on(async {
                    for _ in 0..400 {
                        if TcpStream::connect(("127.0.0.1", sp)).await.is_ok() {
                            break;
                        }
                        tokio::time::sleep(Duration::from_millis(25)).await;
                    }
                    tokio::time::sleep(Duration::from_millis(40)).await;
                });
                "ok".to_owned()
            }
            _ => "bad-op".to_owned(),
        }
    }

    fn usage(&self) -> (usize, usize) {
        (open_fds(), self.rt.metrics().num_alive_tasks())
    }

    /// remember the idle descriptor and task counts
    pub fn fd_base(&self) -> String {
        self.rt.block_on(async { tokio::time::sleep(Duration::from_millis(150)).await });
        *self.baseline.lock().unwrap() = Some(self.usage());
        "ok".to_owned()
    }

    /// have descriptors and tasks returned to the idle baseline (waits up to 8 s for the last closes to land: a quic
    /// stream that is being closed waits for the peer to have read it to the end)
    pub fn fd_check(&self) -> String {
        let Some(base) = *self.baseline.lock().unwrap() else { return "bad-op".to_owned() };
        let mut now = self.usage();
        for i in 0..800 {
            if now.0 <= base.0 && now.1 <= base.1 {
                return "baseline".to_owned();
            }
            // descriptors must be back within 8 s.  Over quic the driver task of a connection whose peer went away without
            // a close handshake stays until the connection's idle timeout (30 s, quinn's default) has drained it: tasks (not
            // descriptors) get that long before they count as leaked
            if i >= 160 && !(self.quic && now.0 <= base.0) {
                break;
            }
            self.rt.block_on(async { tokio::time::sleep(Duration::from_millis(50)).await });
            now = self.usage();
        }
        format!("leak:fds+{},tasks+{}", now.0.saturating_sub(base.0), now.1.saturating_sub(base.1))
    }

    pub fn tcp_flow(&self, sc: TcpScript) -> String {
        let links = self.links.clone();
        self.rt.block_on(tcp_flow(self.client_port, sc, links))
    }

    /// `n` tcp flows and `m` udp flows at the same time, each with its own target and payload
    pub fn par(&self, scripts: Vec<TcpScript>, udp: Vec<Vec<Vec<u8>>>) -> String {
        let cp = self.client_port;
        let links = self.links.clone();
        self.rt.block_on(async move {
            let tcp: Vec<_> = scripts.into_iter().map(|sc| tokio::spawn(tcp_flow(cp, sc, links.clone()))).collect();
            let udp: Vec<_> = udp.into_iter().map(|p| tokio::spawn(udp_flow(cp, p))).collect();
            let mut out = Vec::new();
            for (label, hs) in [("tcp", tcp), ("udp", udp)] {
                let mut res: std::collections::BTreeMap<String, usize> = Default::default();
                for h in hs {
                    *res.entry(h.await.unwrap_or_else(|_| "panic".to_owned())).or_default() += 1;
                }
                for (k, v) in res {
                    out.push(format!("{}:{}x[{}]", label, v, k));
                }
            }
            if out.is_empty() { "none".to_owned() } else { out.join(" ") }
        })
    }

    /// `n` local applications, one after the other, each opening its own association (one datagram to an echoing target
    /// and its answer) and keeping its socket: how many got their answer, and how many connections the client then
    /// holds towards the server (for the protocols that carry datagrams inside the transport: one per live association —
    /// an association that the client has evicted must have given its connection back)
    /// a flow that only receives (one datagram out, then its target goes on answering) while `n` short flows come and go,
    /// more of them than the client keeps bindings: the answers keep the long flow's binding in use, so it is the short,
    /// finished ones that make room - the long flow goes on receiving
    pub fn udp_receive_only_survives(&self, n: usize) -> String {
        if !self.udp {
            return "no-udp".to_owned();
        }
        let cp = self.client_port;
        self.rt.block_on(async move {
            let (Ok(streamer), Ok(echo)) = (UdpSocket::bind("127.0.0.1:0").await, UdpSocket::bind("127.0.0.1:0").await) else { return "no-loopback".to_owned() };
            let (sport, eport) = (streamer.local_addr().unwrap().port(), echo.local_addr().unwrap().port());
            let stop = Arc::new(std::sync::atomic::AtomicBool::new(false));
            let stop2 = stop.clone();
            tokio::spawn(async move {
                let mut buf = vec![0u8; 2048];
                if let Ok(Ok((_, from))) = tokio::time::timeout(Duration::from_secs(5), streamer.recv_from(&mut buf)).await {
                    let mut i = 0u32;
                    while !stop2.load(std::sync::atomic::Ordering::SeqCst) && i < 4000 {
                        let _ = streamer.send_to(format!("tick {}", i).as_bytes(), from).await;
                        i += 1;
                        tokio::time::sleep(Duration::from_millis(10)).await;
                    }
                }
            });
            tokio::spawn(async move {
                let mut buf = vec![0u8; 2048];
                while let Ok(Ok((l, from))) = tokio::time::timeout(Duration::from_secs(5), echo.recv_from(&mut buf)).await {
                    let _ = echo.send_to(&buf[..l], from).await;
                }
            });
            let datagram = |port: u16, body: &[u8]| {
                let mut d = vec![0u8, 0, 0, 1, 127, 0, 0, 1];
                d.extend_from_slice(&port.to_be_bytes());
                d.extend_from_slice(body);
                d
            };
            let Ok(long) = UdpSocket::bind("127.0.0.1:0").await else { return "no-loopback".to_owned() };
            let _ = long.send_to(&datagram(sport, b"subscribe"), ("127.0.0.1", cp)).await;
            let mut buf = vec![0u8; 2048];
            if !matches!(tokio::time::timeout(Duration::from_secs(3), long.recv_from(&mut buf)).await, Ok(Ok(_))) {
                stop.store(true, std::sync::atomic::Ordering::SeqCst);
                return "stream=never-started".to_owned();
            }
            let mut ok = 0;
            let mut shorts = vec![];
            for i in 0..n {
                let Ok(app) = UdpSocket::bind("127.0.0.1:0").await else { break };
                let d = datagram(eport, format!("hello {}", i).as_bytes());
                let _ = app.send_to(&d, ("127.0.0.1", cp)).await;
                if let Ok(Ok((l, _))) = tokio::time::timeout(Duration::from_secs(3), app.recv_from(&mut buf)).await {
                    ok += (buf[..l] == d[..]) as usize;
                }
                shorts.push(app);
            }
            // what is still queued for the long flow is read away; then fresh ticks must go on arriving
            while let Ok(Ok(_)) = tokio::time::timeout(Duration::from_millis(5), long.recv_from(&mut buf)).await {}
            let mut fresh = 0;
            for _ in 0..3 {
                if let Ok(Ok(_)) = tokio::time::timeout(Duration::from_millis(700), long.recv_from(&mut buf)).await {
                    fresh += 1;
                }
            }
            stop.store(true, std::sync::atomic::Ordering::SeqCst);
            drop(shorts);
            format!("stream={} answered={}", if fresh == 3 { "alive" } else { "lost" }, ok)
        })
    }

    /// `n` applications send one datagram each and do not wait for anything (their bindings are opened - or fail to open -
    /// behind them)
    pub fn udp_fire(&self, n: usize) -> String {
        if !self.udp {
            return "no-udp".to_owned();
        }
        let cp = self.client_port;
        for i in 0..n {
            if let Ok(app) = std::net::UdpSocket::bind("127.0.0.1:0") {
                let mut d = vec![0u8, 0, 0, 1, 127, 0, 0, 1, 0, 9];
                d.extend_from_slice(format!("fire {}", i).as_bytes());
                let _ = app.send_to(&d, ("127.0.0.1", cp));
            }
            if i % 16 == 15 {
                std::thread::sleep(Duration::from_millis(20));
            }
        }
        std::thread::sleep(Duration::from_millis(600));
        "done".to_owned()
    }

    pub fn udp_bind_many(&self, n: usize) -> String {
        if !self.udp {
            return "no-udp".to_owned();
        }
        let cp = self.client_port;
        let port = self.link_port;
        let answered = self.rt.block_on(async move {
            let Ok(target) = UdpSocket::bind("127.0.0.1:0").await else { return (0, vec![]) };
            let taddr = target.local_addr().unwrap();
            tokio::spawn(async move {
                let mut buf = vec![0u8; 2048];
                while let Ok(Ok((l, from))) = tokio::time::timeout(Duration::from_secs(5), target.recv_from(&mut buf)).await {
                    let _ = target.send_to(&buf[..l], from).await;
                }
            });
            let mut apps = vec![];
            let mut ok = 0;
            let mut buf = vec![0u8; 2048];
            for i in 0..n {
                let Ok(app) = UdpSocket::bind("127.0.0.1:0").await else { break };
                let mut d = vec![0u8, 0, 0, 1, 127, 0, 0, 1];
                d.extend_from_slice(&taddr.port().to_be_bytes());
                d.extend_from_slice(format!("hello {}", i).as_bytes());
                let _ = app.send_to(&d, ("127.0.0.1", cp)).await;
                if let Ok(Ok((l, _))) = tokio::time::timeout(Duration::from_secs(3), app.recv_from(&mut buf)).await {
                    ok += (buf[..l] == d[..]) as usize;
                }
                apps.push(app);
            }
            tokio::time::sleep(Duration::from_millis(400)).await;
            (ok, apps)
        });
        // established connections of this process whose remote port is the server's (the client's side of each link)
        let links = std::fs::read_to_string("/proc/self/net/tcp").map(|t| t.lines().skip(1).filter(|l| {
            let f: Vec<&str> = l.split_whitespace().collect();
            f.len() > 3 && f[3] == "01" && f[2].ends_with(&format!(":{:04X}", port))
        }).count()).unwrap_or(0);
        drop(answered.1);
        format!("answered={} links={}", answered.0, links)
    }

    pub fn udp_multi(&self, apps: usize, targets: usize, per: usize, seed: u64, mix: bool) -> String {
        if !self.udp {
            return "no-udp".to_owned();
        }
        self.rt.block_on(udp_multi(self.client_port, apps, targets, per, seed, mix))
    }

    /// several fresh udp sessions of a bare client against the real server: the (server session id, packet id)
    /// pairs on the replies — `distinct` when no pair occurs twice and every session got its own server session id
    pub fn server_ids(&self, sessions: usize, per: usize) -> String {
        if self.protocol != "shadowsocks" || !self.udp {
            return "n/a".to_owned();
        }
        let sp = self.server_port;
        let Ok(c) = crate::ssudp::RawClient::new(&self.cipher, &self.client_password) else { return "n/a".to_owned() };
        let legacy = !self.cipher.starts_with("2022");
        self.rt.block_on(async move {
            let Ok(echo) = UdpSocket::bind("127.0.0.1:0").await else { return "no-loopback".to_owned() };
            let eport = echo.local_addr().unwrap().port();
            tokio::spawn(async move {
                let mut buf = vec![0u8; 4096];
                while let Ok(Ok((l, from))) = tokio::time::timeout(Duration::from_secs(4), echo.recv_from(&mut buf)).await {
                    let _ = echo.send_to(&buf[..l], from).await;
                }
            });
            let mut pairs: Vec<(u64, u64)> = vec![];
            let mut ssids: Vec<u64> = vec![];
            let mut answered = 0;
            for sidx in 0..sessions {
                let Ok(sock) = UdpSocket::bind("127.0.0.1:0").await else { return "no-loopback".to_owned() };
                let csid = fresh_id();
                let mut mine = None;
                for k in 0..per {
                    let Ok(w) = c.encode(csid, k as u64 + 1, Address::Socket(format!("127.0.0.1:{}", eport).parse().unwrap()), format!("probe-{}-{}", sidx, k).as_bytes()) else { return "encode-failed".to_owned() };
                    let _ = sock.send_to(&w, ("127.0.0.1", sp)).await;
                    let mut buf = vec![0u8; 4096];
                    if let Ok(Ok((l, _))) = tokio::time::timeout(Duration::from_secs(3), sock.recv_from(&mut buf)).await {
                        if let Some((_, ssid, pid, _)) = c.decode(&buf[..l]) {
                            answered += 1;
                            pairs.push((ssid, pid));
                            mine = Some(ssid);
                        }
                    }
                }
                if let Some(x) = mine {
                    ssids.push(x);
                }
            }
            if answered != sessions * per {
                return format!("answered:{}of{}", answered, sessions * per);
            }
            if legacy {
                return "distinct".to_owned(); // no ids on the wire
            }
            let mut p = pairs.clone();
            p.sort();
            p.dedup();
            let mut q = ssids.clone();
            q.sort();
            q.dedup();
            if p.len() == pairs.len() && q.len() == ssids.len() { "distinct".to_owned() } else { format!("reused:pairs{}of{},sessions{}of{}", p.len(), pairs.len(), q.len(), ssids.len()) }
        })
    }

    /// two registered users whose udp sessions carry the same client session id, one after the other, against the
    /// real server: each one's reply must open under that user's own key (`a=ok b=ok`)
    pub fn udp_owner(&self) -> String {
        if self.protocol != "shadowsocks" || !self.udp || self.scfg.user.len() < 2 {
            return "n/a".to_owned();
        }
        let sp = self.server_port;
        let psk = self.scfg.password.clone();
        let mk = |i: usize| crate::ssudp::RawClient::new(&self.cipher, &format!("{}:{}", psk, self.scfg.user[i].password));
        let (Ok(a), Ok(b)) = (mk(0), mk(1)) else { return "n/a".to_owned() };
        self.rt.block_on(async move {
            let Ok(echo) = UdpSocket::bind("127.0.0.1:0").await else { return "no-loopback".to_owned() };
            let eport = echo.local_addr().unwrap().port();
            tokio::spawn(async move {
                let mut buf = vec![0u8; 4096];
                while let Ok(Ok((l, from))) = tokio::time::timeout(Duration::from_secs(4), echo.recv_from(&mut buf)).await {
                    let _ = echo.send_to(&buf[..l], from).await;
                }
            });
            let csid = fresh_id();
            let target = || Address::Socket(format!("127.0.0.1:{}", eport).parse().unwrap());
            let mut out = vec![];
            // (one socket: the association answers to the address it was opened from)
            let Ok(sock) = UdpSocket::bind("127.0.0.1:0").await else { return "no-loopback".to_owned() };
            for (name, codec, other, pid) in [("a", &a, &b, 1u64), ("b", &b, &a, 2), ("a", &a, &b, 3)] {
                let Ok(w) = codec.encode(csid, pid, target(), format!("from-{}", name).as_bytes()) else { return "encode-failed".to_owned() };
                let _ = sock.send_to(&w, ("127.0.0.1", sp)).await;
                let mut buf = vec![0u8; 4096];
                let verdict = match tokio::time::timeout(Duration::from_secs(3), sock.recv_from(&mut buf)).await {
                    Ok(Ok((l, _))) => match (codec.decode(&buf[..l]), other.decode(&buf[..l])) {
                        (Some((_, _, _, d)), None) if d == format!("from-{}", name).as_bytes() => "ok",
                        (Some(_), None) => "altered",
                        (None, Some(_)) => "sealed-for-the-other-user",
                        (Some(_), Some(_)) => "opens-for-both",
                        (None, None) => "opens-for-nobody",
                    },
                    _ => "no-reply",
                };
                out.push(format!("{}={}", name, verdict));
            }
            out.join(" ")
        })
    }

    /// an established udp session, one of its datagrams replayed from elsewhere, then the session goes on: every
    /// later datagram of the session is still answered (`ok`)
    pub fn udp_replay_live(&self) -> String {
        // (the legacy ciphers carry no packet ids: a repeated datagram is a new datagram)
        if self.protocol != "shadowsocks" || !self.udp || !self.cipher.starts_with("2022") {
            return "n/a".to_owned();
        }
        let sp = self.server_port;
        let pw = if self.scfg.user.is_empty() { self.client_password.clone() } else { format!("{}:{}", self.scfg.password, self.scfg.user[0].password) };
        let Ok(c) = crate::ssudp::RawClient::new(&self.cipher, &pw) else { return "n/a".to_owned() };
        self.rt.block_on(async move {
            let Ok(echo) = UdpSocket::bind("127.0.0.1:0").await else { return "no-loopback".to_owned() };
            let eport = echo.local_addr().unwrap().port();
            let seen_at_target = Arc::new(std::sync::atomic::AtomicUsize::new(0));
            let seen2 = seen_at_target.clone();
            tokio::spawn(async move {
                let mut buf = vec![0u8; 4096];
                while let Ok(Ok((l, from))) = tokio::time::timeout(Duration::from_secs(5), echo.recv_from(&mut buf)).await {
                    seen2.fetch_add(1, std::sync::atomic::Ordering::SeqCst);
                    let _ = echo.send_to(&buf[..l], from).await;
                }
            });
            let (Ok(sock), Ok(elsewhere)) = (UdpSocket::bind("127.0.0.1:0").await, UdpSocket::bind("127.0.0.1:0").await) else { return "no-loopback".to_owned() };
            let csid = fresh_id();
            let target = || Address::Socket(format!("127.0.0.1:{}", eport).parse().unwrap());
            let mut buf = vec![0u8; 4096];
            let mut lost = vec![];
            let mut first = vec![];
            for pid in 1..=5u64 {
                let Ok(w) = c.encode(csid, pid, target(), format!("d{}", pid).as_bytes()) else { return "encode-failed".to_owned() };
                if pid == 1 {
                    first = w.clone();
                }
                let _ = sock.send_to(&w, ("127.0.0.1", sp)).await;
                match tokio::time::timeout(Duration::from_millis(1500), sock.recv_from(&mut buf)).await {
                    Ok(Ok((l, _))) if c.decode(&buf[..l]).map(|x| x.3 == format!("d{}", pid).as_bytes()).unwrap_or(false) => (),
                    _ => lost.push(pid),
                }
                if pid == 2 {
                    // the first datagram again, twice, from another address and from the own one
                    let _ = elsewhere.send_to(&first, ("127.0.0.1", sp)).await;
                    let _ = sock.send_to(&first, ("127.0.0.1", sp)).await;
                    tokio::time::sleep(Duration::from_millis(60)).await;
                    // (a replay must not be answered)
                    if let Ok(Ok(_)) = tokio::time::timeout(Duration::from_millis(120), sock.recv_from(&mut buf)).await {
                        return "replay-answered".to_owned();
                    }
                    if let Ok(Ok(_)) = tokio::time::timeout(Duration::from_millis(60), elsewhere.recv_from(&mut buf)).await {
                        return "replay-answered-elsewhere".to_owned();
                    }
                }
            }
            // each of the five datagrams reached the target exactly once: the replays did not
            let n = seen_at_target.load(std::sync::atomic::Ordering::SeqCst);
            if !lost.is_empty() {
                format!("lost:{:?}", lost).replace(' ', "")
            } else if n != 5 {
                format!("target-saw:{}of5", n)
            } else {
                "ok".to_owned()
            }
        })
    }

    pub fn udp_flow(&self, payloads: &[Vec<u8>]) -> String {
        self.rt.block_on(udp_flow(self.client_port, payloads.to_vec()))
    }

    /// one misbehaving flow from the catalogue; returns when it is over
    pub fn fault(&self, kind: &str, junk: &[u8]) -> String {
        let (sp, cp) = (self.server_port, self.client_port);
        let kind = kind.to_owned();
        let mut junk = junk.to_vec();
        if kind == "server-udp-replay" || kind == "server-udp-unresolvable" {
            // a genuine datagram of a fresh session, built by the real client codec
            if self.protocol != "shadowsocks" {
                return "n/a".to_owned();
            }
            let Ok(mut c) = crate::ssudp::client(&self.rt, &self.cipher, &self.client_password) else { return "n/a".to_owned() };
            let addr = if kind == "server-udp-replay" { Address::Domain("127.0.0.1".into(), 9) } else { Address::Domain("no-such-host.invalid".into(), 53) };
            let Ok(w) = c.encode(addr, b"again") else { return "n/a".to_owned() };
            junk = w;
        }
        if kind == "accept-emfile" {
            return self.emfile();
        }
        self.rt.block_on(async move {
            match kind.as_str() {
                "server-udp-replay" | "server-udp-unresolvable" => {
                    let Ok(u) = UdpSocket::bind("127.0.0.1:0").await else { return "no-loopback".to_owned() };
                    for _ in 0..3 {
                        let _ = u.send_to(&junk, ("127.0.0.1", sp)).await;
                        tokio::time::sleep(Duration::from_millis(20)).await;
                    }
                    "done".to_owned()
                }
                // a peer that starts a TLS handshake and never completes it: stays open while later flows run
                "tls-stall" => {
                    let Ok(mut c) = TcpStream::connect(("127.0.0.1", sp)).await else { return "connect-failed".to_owned() };
                    let _ = c.write_all(&[0x16, 0x03, 0x01, 0x02, 0x00, 0x01, 0x00]).await;
                    tokio::spawn(async move {
                        // (longer than any flow is given: a listener that waits for this handshake serves nobody meanwhile)
                        tokio::time::sleep(Duration::from_secs(14)).await;
                        drop(c);
                    });
                    "done".to_owned()
                }
                // not a TLS handshake at all
                "tls-fail" => {
                    let Ok(mut c) = TcpStream::connect(("127.0.0.1", sp)).await else { return "connect-failed".to_owned() };
                    let _ = c.write_all(&junk).await;
                    let mut b = [0u8; 64];
                    let _ = tokio::time::timeout(Duration::from_millis(200), c.read(&mut b)).await;
                    "done".to_owned()
                }
                "ws-fail" => {
                    let Ok(mut c) = TcpStream::connect(("127.0.0.1", sp)).await else { return "connect-failed".to_owned() };
                    let _ = c.write_all(b"GET /elsewhere HTTP/1.1\r\nHost: 127.0.0.1\r\n\r\n").await;
                    let mut b = [0u8; 256];
                    let _ = tokio::time::timeout(Duration::from_millis(300), c.read(&mut b)).await;
                    "done".to_owned()
                }
                "local-udp-unresolvable" => {
                    let Ok(u) = UdpSocket::bind("127.0.0.1:0").await else { return "no-loopback".to_owned() };
                    let mut d = vec![0u8, 0, 0, 3, 20];
                    d.extend_from_slice(b"no-such-host.invalid");
                    d.extend_from_slice(&[0, 53]);
                    d.extend_from_slice(b"hello");
                    let _ = u.send_to(&d, ("127.0.0.1", cp)).await;
                    tokio::time::sleep(Duration::from_millis(50)).await;
                    "done".to_owned()
                }
                // towards the server's tcp port
                "server-junk" | "server-junk-reset" | "server-stall" | "server-half" => {
                    let Ok(mut c) = TcpStream::connect(("127.0.0.1", sp)).await else { return "connect-failed".to_owned() };
                    if kind != "server-stall" {
                        let _ = c.write_all(&junk).await;
                    }
                    match kind.as_str() {
                        "server-junk-reset" => {
                            let _ = c.set_linger(Some(Duration::from_secs(0)));
                            drop(c);
                        }
                        "server-stall" | "server-half" => {
                            // keep it open, without completing anything, while later flows run
                            tokio::spawn(async move {
                                tokio::time::sleep(Duration::from_secs(2)).await;
                                drop(c);
                            });
                        }
                        _ => {
                            let _ = c.shutdown().await;
                        }
                    }
                    "done".to_owned()
                }
                "server-udp-junk" => {
                    let Ok(u) = UdpSocket::bind("127.0.0.1:0").await else { return "no-loopback".to_owned() };
                    let _ = u.send_to(&junk, ("127.0.0.1", sp)).await;
                    // and every short length (below, at and above tag / salt / fixed-header sizes)
                    for l in 0..=72usize {
                        let d: Vec<u8> = (0..l).map(|i| junk.get(i % junk.len().max(1)).copied().unwrap_or(0x5a) ^ l as u8).collect();
                        let _ = u.send_to(&d, ("127.0.0.1", sp)).await;
                    }
                    tokio::time::sleep(Duration::from_millis(30)).await;
                    "done".to_owned()
                }
                // an established local association whose next datagram cannot be sent on (larger than a datagram can be
                // once the protocol's own bytes are added), and a target whose answer cannot be relayed back for the same
                // reason: that datagram is lost, nothing else
                "local-udp-oversized" | "server-udp-oversized-reply" => {
                    let Ok(target) = UdpSocket::bind("127.0.0.1:0").await else { return "no-loopback".to_owned() };
                    let taddr = target.local_addr().unwrap();
                    let big_reply = kind == "server-udp-oversized-reply";
                    tokio::spawn(async move {
                        let mut buf = vec![0u8; 70000];
                        for i in 0..3 {
                            let Ok(Ok((l, from))) = tokio::time::timeout(Duration::from_secs(2), target.recv_from(&mut buf)).await else { break };
                            let answer = if big_reply && i == 1 { vec![0x42u8; 65500] } else { buf[..l].to_vec() };
                            let _ = target.send_to(&answer, from).await;
                        }
                    });
                    let Ok(app) = UdpSocket::bind("127.0.0.1:0").await else { return "no-loopback".to_owned() };
                    let mut head = vec![0u8, 0, 0, 1, 127, 0, 0, 1];
                    head.extend_from_slice(&taddr.port().to_be_bytes());
                    let mut buf = vec![0u8; 70000];
                    for i in 0..3 {
                        let mut d = head.clone();
                        if !big_reply && i == 1 {
                            d.resize(65507, 0x41);
                        } else {
                            d.extend_from_slice(b"ping");
                        }
                        let _ = app.send_to(&d, ("127.0.0.1", cp)).await;
                        let _ = tokio::time::timeout(Duration::from_millis(if i == 1 { 300 } else { 1500 }), app.recv_from(&mut buf)).await;
                    }
                    "done".to_owned()
                }
                // towards the client's local ports
                "local-junk" | "local-stall" => {
                    let Ok(mut c) = TcpStream::connect(("127.0.0.1", cp)).await else { return "connect-failed".to_owned() };
                    if kind == "local-junk" {
                        let _ = c.write_all(&junk).await;
                        let _ = c.shutdown().await;
                    } else {
                        tokio::spawn(async move {
                            tokio::time::sleep(Duration::from_secs(2)).await;
                            drop(c);
                        });
                    }
                    "done".to_owned()
                }
                // a quic handshake that never completes (the server's answers never reach the peer, which keeps
                // retransmitting its Initial), and junk datagrams at the quic port
                "quic-stall" => {
                    let Ok(proxy) = UdpSocket::bind("127.0.0.1:0").await else { return "no-loopback".to_owned() };
                    let paddr = proxy.local_addr().unwrap();
                    tokio::spawn(async move {
                        let mut buf = vec![0u8; 2048];
                        let Ok(out) = UdpSocket::bind("127.0.0.1:0").await else { return };
                        // one way only: towards the server
                        while let Ok(Ok((l, _))) = tokio::time::timeout(Duration::from_secs(14), proxy.recv_from(&mut buf)).await {
                            let _ = out.send_to(&buf[..l], ("127.0.0.1", sp)).await;
                        }
                    });
                    let roots = tokio_rustls::rustls::RootCertStore::empty();
                    let mut tls = tokio_rustls::rustls::ClientConfig::builder().with_root_certificates(roots).with_no_client_auth();
                    tls.alpn_protocols = vec![b"http/1.1".to_vec()];
                    let Ok(qc) = quinn::crypto::rustls::QuicClientConfig::try_from(tls) else { return "n/a".to_owned() };
                    let Ok(mut ep) = quinn::Endpoint::client("0.0.0.0:0".parse().unwrap()) else { return "n/a".to_owned() };
                    ep.set_default_client_config(quinn::ClientConfig::new(Arc::new(qc)));
                    let Ok(connecting) = ep.connect(paddr, "localhost") else { return "n/a".to_owned() };
                    tokio::spawn(async move {
                        // longer than any flow is given: a listener that waits for this handshake serves nobody meanwhile
                        let _ = tokio::time::timeout(Duration::from_secs(14), connecting).await;
                        drop(ep);
                    });
                    tokio::time::sleep(Duration::from_millis(150)).await;
                    "done".to_owned()
                }
                "quic-junk" => {
                    let Ok(u) = UdpSocket::bind("127.0.0.1:0").await else { return "no-loopback".to_owned() };
                    let _ = u.send_to(&junk, ("127.0.0.1", sp)).await;
                    let _ = u.send_to(&[0xc0, 0, 0, 0, 1, 8, 1, 2, 3, 4, 5, 6, 7, 8, 0], ("127.0.0.1", sp)).await;
                    "done".to_owned()
                }
                // requests cut off inside the 4-byte SOCKS5-UDP header (RSV RSV FRAG ATYP): 1, 2, 3 and 4 bytes
                "local-udp-short" => {
                    let Ok(u) = UdpSocket::bind("127.0.0.1:0").await else { return "no-loopback".to_owned() };
                    for d in [&[0u8][..], &[0, 0], &[0, 0, 0], &[0, 0, 0, 1]] {
                        let _ = u.send_to(d, ("127.0.0.1", cp)).await;
                        tokio::time::sleep(Duration::from_millis(15)).await;
                    }
                    "done".to_owned()
                }
                "local-udp-junk" => {
                    let Ok(u) = UdpSocket::bind("127.0.0.1:0").await else { return "no-loopback".to_owned() };
                    let _ = u.send_to(&junk, ("127.0.0.1", cp)).await;
                    for l in 0..=40usize {
                        let d: Vec<u8> = (0..l).map(|i| junk.get(i % junk.len().max(1)).copied().unwrap_or(0x5a) ^ l as u8).collect();
                        let _ = u.send_to(&d, ("127.0.0.1", cp)).await;
                    }
                    tokio::time::sleep(Duration::from_millis(30)).await;
                    "done".to_owned()
                }
                _ => "unknown-fault".to_owned(),
            }
        })
    }

    /// descriptor exhaustion for a moment: while the process cannot open anything, connections arrive at both
    /// listeners (their `accept` fails with EMFILE); then the limit is restored
    fn emfile(&self) -> String {
        let (sp, cp) = (self.server_port, self.client_port);
        // sockets first (connecting needs no new descriptor)
        let mk = || unsafe { libc::socket(libc::AF_INET, libc::SOCK_STREAM | libc::SOCK_NONBLOCK, 0) };
        let socks = [(mk(), sp), (mk(), cp)];
        let mut old = libc::rlimit { rlim_cur: 0, rlim_max: 0 };
        unsafe { libc::getrlimit(libc::RLIMIT_NOFILE, &mut old) };
        let maxfd = std::fs::read_dir("/proc/self/fd").map(|d| d.filter_map(|e| e.ok()?.file_name().to_str()?.parse::<u64>().ok()).max().unwrap_or(64)).unwrap_or(64);
        let low = libc::rlimit { rlim_cur: maxfd + 1, rlim_max: old.rlim_max };
        unsafe { libc::setrlimit(libc::RLIMIT_NOFILE, &low) };
        // fill the holes below the limit
        let mut fillers = vec![];
        loop {
            let fd = unsafe { libc::dup(0) };
            if fd < 0 {
                break;
            }
            fillers.push(fd);
        }
        for (fd, port) in socks {
            if fd >= 0 {
                let a = libc::sockaddr_in { sin_family: libc::AF_INET as u16, sin_port: port.to_be(), sin_addr: libc::in_addr { s_addr: u32::from_ne_bytes([127, 0, 0, 1]) }, sin_zero: [0; 8] };
                unsafe { libc::connect(fd, &a as *const _ as *const libc::sockaddr, std::mem::size_of::<libc::sockaddr_in>() as u32) };
            }
        }
        std::thread::sleep(Duration::from_millis(200));
        for fd in fillers {
            unsafe { libc::close(fd) };
        }
        unsafe { libc::setrlimit(libc::RLIMIT_NOFILE, &old) };
        std::thread::sleep(Duration::from_millis(120));
        for (fd, _) in socks {
            if fd >= 0 {
                unsafe { libc::close(fd) };
            }
        }
        "done".to_owned()
    }

    /// name resolution that does not answer (a resolver that is down or filtered: the common way a target is
    /// "unresolvable"): `n` applications ask for names behind a resolver that stays silent, then a well-behaved flow to
    /// an address must be served without waiting for those look-ups.  Everything on the measuring side runs on plain
    /// threads with blocking sockets and its own clock, so that it sees what a user sees whatever the runtime under
    /// test is doing.  The silent resolver is a socket on 127.0.0.1:53 (the resolver /etc/resolv.conf names here);
    /// when it cannot be had the probe reports `n/a`.  At the end every question is answered (no such name), which
    /// releases whoever was waiting.
    pub fn resolver_stall(&self, n: usize, udp: bool) -> String {
        use std::io::{Read, Write};
        let _turn = ResolverTurn::take();
        let names_local = std::fs::read_to_string("/etc/resolv.conf").map(|s| s.lines().filter(|l| l.trim_start().starts_with("nameserver")).all(|l| l.contains("127.0.0.1"))).unwrap_or(false);
        if !names_local {
            return "n/a".to_owned();
        }
        let Ok(dns) = std::net::UdpSocket::bind("127.0.0.1:53") else { return "n/a".to_owned() };
        let _ = dns.set_read_timeout(Some(Duration::from_millis(50)));
        let stop = Arc::new(std::sync::atomic::AtomicBool::new(false));
        let questions: Arc<std::sync::Mutex<Vec<(Vec<u8>, std::net::SocketAddr)>>> = Arc::default();
        let silent = {
            let (stop, questions) = (stop.clone(), questions.clone());
            let dns = dns.try_clone().unwrap();
            std::thread::spawn(move || {
                let mut buf = [0u8; 1500];
                while !stop.load(std::sync::atomic::Ordering::SeqCst) {
                    if let Ok((l, from)) = dns.recv_from(&mut buf) {
                        questions.lock().unwrap().push((buf[..l].to_vec(), from));
                    }
                }
            })
        };
        let cp = self.client_port;
        fn socks5(c: &mut std::net::TcpStream, addr: &[u8]) -> bool {
            use std::io::{Read, Write};
            let mut b = [0u8; 10];
            c.write_all(&[5, 1, 0]).is_ok() && c.read_exact(&mut b[..2]).is_ok() && c.write_all(&[&[5u8, 1, 0][..], addr].concat()).is_ok() && c.read_exact(&mut b).is_ok() && b[1] == 0
        }
        // the flows whose names meet the silent resolver, each from its own thread (none of them may hold up the
        // measurement); they stay open until the measurement is over
        let asked = Arc::new(std::sync::atomic::AtomicUsize::new(0));
        let release = Arc::new(std::sync::atomic::AtomicBool::new(false));
        let mut askers = vec![];
        for i in 0..n {
            let (asked, release) = (asked.clone(), release.clone());
            askers.push(std::thread::spawn(move || {
                let name = format!("slow-{}-{}.octo-verif.invalid", i, fresh_id());
                if udp {
                    let Ok(u) = std::net::UdpSocket::bind("127.0.0.1:0") else { return };
                    let mut d = vec![0u8, 0, 0, 3, name.len() as u8];
                    d.extend_from_slice(name.as_bytes());
                    d.extend_from_slice(&[0, 53]);
                    d.extend_from_slice(b"hello");
                    if u.send_to(&d, ("127.0.0.1", cp)).is_ok() {
                        asked.fetch_add(1, std::sync::atomic::Ordering::SeqCst);
                    }
                } else {
                    let Ok(mut c) = std::net::TcpStream::connect(("127.0.0.1", cp)) else { return };
                    let _ = c.set_read_timeout(Some(Duration::from_secs(3)));
                    let mut a = vec![3u8, name.len() as u8];
                    a.extend_from_slice(name.as_bytes());
                    a.extend_from_slice(&[0, 80]);
                    if socks5(&mut c, &a) && c.write_all(b"0123456789").is_ok() {
                        asked.fetch_add(1, std::sync::atomic::Ordering::SeqCst);
                    }
                    while !release.load(std::sync::atomic::Ordering::SeqCst) {
                        std::thread::sleep(Duration::from_millis(20));
                    }
                }
            }));
        }
        // until the questions have reached the resolver (the look-ups are under way), at most 2 s
        let t0 = std::time::Instant::now();
        while questions.lock().unwrap().is_empty() && t0.elapsed() < Duration::from_secs(2) {
            std::thread::sleep(Duration::from_millis(20));
        }
        std::thread::sleep(Duration::from_millis(150));
        let under_way = questions.lock().unwrap().len();
        // the well-behaved flow: to an address, nothing to resolve
        let verdict = (|| -> String {
            let Ok(target) = std::net::TcpListener::bind("127.0.0.1:0") else { return "no-loopback".to_owned() };
            let tp = target.local_addr().unwrap().port();
            let _ = target.set_nonblocking(true);
            let served = std::thread::spawn(move || {
                let t0 = std::time::Instant::now();
                while t0.elapsed() < Duration::from_secs(14) {
                    if let Ok((mut s, _)) = target.accept() {
                        let _ = s.set_nonblocking(false);
                        let _ = s.set_read_timeout(Some(Duration::from_secs(14)));
                        let mut b = [0u8; 4];
                        if s.read_exact(&mut b).is_ok() && &b == b"ping" {
                            let _ = s.write_all(b"pong");
                        }
                        return;
                    }
                    std::thread::sleep(Duration::from_millis(5));
                }
            });
            let t0 = std::time::Instant::now();
            let Ok(mut c) = std::net::TcpStream::connect(("127.0.0.1", cp)) else { return "connect-failed".to_owned() };
            let _ = c.set_read_timeout(Some(Duration::from_secs(14)));
            let mut a = vec![1u8, 127, 0, 0, 1];
            a.extend_from_slice(&tp.to_be_bytes());
            let mut b = [0u8; 4];
            let ok = socks5(&mut c, &a) && c.write_all(b"ping").is_ok() && c.read_exact(&mut b).is_ok() && &b == b"pong";
            let ms = t0.elapsed().as_millis();
            drop(c);
            let _ = served.join();
            if ok && ms < PROMPT.as_millis() { "served".to_owned() } else if ok { format!("waited:{}ms", ms) } else { format!("failed:{}ms", ms) }
        })();
        // answer every question (no such name) so that nobody goes on waiting, then give the port back
        std::thread::sleep(Duration::from_millis(30));
        stop.store(true, std::sync::atomic::Ordering::SeqCst);
        let _ = silent.join();
        for _ in 0..40 {
            let qs: Vec<_> = std::mem::take(&mut *questions.lock().unwrap());
            for (q, from) in &qs {
                if q.len() >= 12 {
                    let mut r = q.clone();
                    r[2] = 0x81;
                    r[3] = 0x83;
                    let _ = dns.send_to(&r, from);
                }
            }
            // retries and the second question of a pair arrive after the first answer
            let mut buf = [0u8; 1500];
            match dns.recv_from(&mut buf) {
                Ok((l, from)) => questions.lock().unwrap().push((buf[..l].to_vec(), from)),
                Err(_) => {
                    if qs.is_empty() {
                        break;
                    }
                }
            }
        }
        release.store(true, std::sync::atomic::Ordering::SeqCst);
        for a in askers {
            let _ = a.join();
        }
        drop(dns);
        std::thread::sleep(Duration::from_millis(100));
        let asked = asked.load(std::sync::atomic::Ordering::SeqCst);
        if asked == 0 || under_way == 0 { format!("n/a:asked={},questions={}", asked, under_way) } else { verdict }
    }

    /// one udp session that floods in both directions at once: its client sends datagrams as fast as it can while its
    /// target answers as fast as it can, for `millis`; afterwards the service must still relay for everybody else
    pub fn udp_flood(&self, millis: u64) -> String {
        if self.protocol != "shadowsocks" || !self.udp {
            return "n/a".to_owned();
        }
        let sessions: usize = std::env::var("VERIF_FLOOD_SESSIONS").ok().and_then(|s| s.parse().ok()).unwrap_or(40);
        let Ok(mut c) = crate::ssudp::client(&self.rt, &self.cipher, &self.client_password) else { return "n/a".to_owned() };
        let Ok(target) = std::net::UdpSocket::bind("127.0.0.1:0") else { return "no-loopback".to_owned() };
        let taddr = target.local_addr().unwrap();
        let _ = target.set_read_timeout(Some(Duration::from_millis(20)));
        let stop = Arc::new(std::sync::atomic::AtomicBool::new(false));
        let answers = Arc::new(std::sync::atomic::AtomicUsize::new(0));
        let sp = self.server_port;
        // the sessions: one socket each, one datagram each opens its association
        let Ok(w) = c.encode(Address::Socket(taddr), &[0x51u8; 300]) else { return "encode-failed".to_owned() };
        let apps: Vec<std::net::UdpSocket> = (0..sessions).filter_map(|_| std::net::UdpSocket::bind("127.0.0.1:0").ok()).collect();
        for a in &apps {
            let _ = a.set_nonblocking(true);
            let _ = a.send_to(&w, ("127.0.0.1", sp));
        }
        // the target learns the associations' addresses, then answers all of them as fast as it can
        let mut peers = vec![];
        let mut buf = [0u8; 2048];
        let t0 = std::time::Instant::now();
        while peers.len() < apps.len() && t0.elapsed() < Duration::from_secs(3) {
            if let Ok((_, from)) = target.recv_from(&mut buf) {
                if !peers.contains(&from) {
                    peers.push(from);
                }
            }
        }
        let npeers = peers.len();
        let _ = target.set_nonblocking(true);
        let mut threads = vec![];
        for k in 0..3 {
            let (stop, answers, target, peers) = (stop.clone(), answers.clone(), target.try_clone().unwrap(), peers.clone());
            threads.push(std::thread::spawn(move || {
                let mut buf = [0u8; 2048];
                let reply = [0x52u8; 600];
                let mut i = k;
                while !stop.load(std::sync::atomic::Ordering::SeqCst) {
                    for _ in 0..64 {
                        i = (i + 1) % peers.len().max(1);
                        if let Some(p) = peers.get(i) {
                            if target.send_to(&reply, p).is_ok() {
                                answers.fetch_add(1, std::sync::atomic::Ordering::Relaxed);
                            }
                        }
                    }
                    while target.recv_from(&mut buf).is_ok() {}
                }
            }));
        }
        // the first session floods the server
        let sent_ctr = Arc::new(std::sync::atomic::AtomicUsize::new(0));
        for _ in 0..3 {
            let (app, w, stop, sent_ctr) = (apps[0].try_clone().unwrap(), w.clone(), stop.clone(), sent_ctr.clone());
            threads.push(std::thread::spawn(move || {
                let mut buf = [0u8; 2048];
                while !stop.load(std::sync::atomic::Ordering::SeqCst) {
                    for _ in 0..64 {
                        if app.send_to(&w, ("127.0.0.1", sp)).is_ok() {
                            sent_ctr.fetch_add(1, std::sync::atomic::Ordering::Relaxed);
                        }
                    }
                    while app.recv_from(&mut buf).is_ok() {}
                }
            }));
        }
        let t0 = std::time::Instant::now();
        while t0.elapsed() < Duration::from_millis(millis) {
            std::thread::sleep(Duration::from_millis(20));
        }
        stop.store(true, std::sync::atomic::Ordering::SeqCst);
        for s in threads {
            let _ = s.join();
        }
        std::thread::sleep(Duration::from_millis(600));
        if std::env::var("VERIF_FLOOD_STATS").is_ok() {
            eprintln!("flood: sessions={} sent={} answers={}", npeers, sent_ctr.load(std::sync::atomic::Ordering::SeqCst), answers.load(std::sync::atomic::Ordering::SeqCst));
        }
        "done".to_owned()
    }

    /// head-of-line probe on the client's udp side: application A has a binding that works; application B's first datagram
    /// opens a new binding whose connection to the server stalls in its handshake (the link holds that one connection's
    /// bytes for `hold` ms); meanwhile A's next datagram must be answered as promptly as before.  Plain threads, blocking
    /// sockets, own clock.  Only for protocols that carry datagrams inside a connection, behind a link.
    pub fn udp_head_of_line(&self, hold: u64) -> String {
        if !self.udp || self.protocol == "shadowsocks" || self.link_port == self.server_port {
            return "n/a".to_owned();
        }
        let cp = self.client_port;
        let mk_target = || -> Option<(std::net::UdpSocket, u16)> {
            let t = std::net::UdpSocket::bind("127.0.0.1:0").ok()?;
            let p = t.local_addr().ok()?.port();
            Some((t, p))
        };
        let (Some((t1, p1)), Some((_t2, p2))) = (mk_target(), mk_target()) else { return "no-loopback".to_owned() };
        let stop = Arc::new(std::sync::atomic::AtomicBool::new(false));
        let echo = {
            let stop = stop.clone();
            let _ = t1.set_read_timeout(Some(Duration::from_millis(50)));
            std::thread::spawn(move || {
                let mut buf = [0u8; 2048];
                while !stop.load(std::sync::atomic::Ordering::SeqCst) {
                    if let Ok((l, from)) = t1.recv_from(&mut buf) {
                        let _ = t1.send_to(&buf[..l], from);
                    }
                }
            })
        };
        let datagram = |port: u16, body: &[u8]| -> Vec<u8> {
            let mut d = vec![0u8, 0, 0, 1, 127, 0, 0, 1];
            d.extend_from_slice(&port.to_be_bytes());
            d.extend_from_slice(body);
            d
        };
        let verdict = (|| -> String {
            let (Ok(a), Ok(b)) = (std::net::UdpSocket::bind("127.0.0.1:0"), std::net::UdpSocket::bind("127.0.0.1:0")) else { return "no-loopback".to_owned() };
            let _ = a.set_read_timeout(Some(Duration::from_millis(hold + 4000)));
            let mut buf = [0u8; 2048];
            // A's binding is established and answers
            let _ = a.send_to(&datagram(p1, b"first"), ("127.0.0.1", cp));
            match a.recv_from(&mut buf) {
                Ok((l, _)) if buf[..l].ends_with(b"first") => {}
                _ => return "no-first-answer".to_owned(),
            }
            // B's binding: its connection is the next one the link accepts, and it is held
            self.stall_next.store(hold, std::sync::atomic::Ordering::SeqCst);
            let _ = b.send_to(&datagram(p2, b"opens-a-binding"), ("127.0.0.1", cp));
            std::thread::sleep(Duration::from_millis(200));
            if self.stall_next.load(std::sync::atomic::Ordering::SeqCst) != 0 {
                self.stall_next.store(0, std::sync::atomic::Ordering::SeqCst);
                return "n/a:no-new-connection".to_owned();
            }
            let t0 = std::time::Instant::now();
            let _ = a.send_to(&datagram(p1, b"second"), ("127.0.0.1", cp));
            let ok = matches!(a.recv_from(&mut buf), Ok((l, _)) if buf[..l].ends_with(b"second"));
            let ms = t0.elapsed().as_millis();
            if ok && ms < PROMPT.as_millis() { "served".to_owned() } else if ok { format!("waited:{}ms", ms) } else { format!("lost:{}ms", ms) }
        })();
        stop.store(true, std::sync::atomic::Ordering::SeqCst);
        let _ = echo.join();
        // let the held connection run its course before anything else is measured
        std::thread::sleep(Duration::from_millis(300));
        verdict
    }

    /// the link between client and server fails right behind data: the target answers `size` bytes, the link carries the
    /// answer to the client in one piece and resets the connection behind it.  What the client had received is delivered
    /// to the application before its end-of-stream (plain threads, blocking sockets).
    pub fn link_reset_behind_answer(&self, size: usize) -> String {
        use std::io::{Read, Write};
        if self.link_port == self.server_port || self.quic {
            return "n/a".to_owned();
        }
        let Ok(target) = std::net::TcpListener::bind("127.0.0.1:0") else { return "no-loopback".to_owned() };
        let tp = target.local_addr().unwrap().port();
        let answer: Vec<u8> = (0..size).map(|i| (i * 31 + 7) as u8).collect();
        let answer2 = answer.clone();
        let _ = target.set_nonblocking(true);
        let served = std::thread::spawn(move || {
            let t0 = std::time::Instant::now();
            while t0.elapsed() < Duration::from_secs(10) {
                if let Ok((mut s, _)) = target.accept() {
                    let _ = s.set_nonblocking(false);
                    let _ = s.set_read_timeout(Some(Duration::from_secs(8)));
                    let mut b = [0u8; 4];
                    if s.read_exact(&mut b).is_ok() {
                        let _ = s.write_all(&answer2);
                        // stays open: the end the application sees is the link's doing
                        std::thread::sleep(Duration::from_millis(1500));
                    }
                    return;
                }
                std::thread::sleep(Duration::from_millis(5));
            }
        });
        self.reset_behind_answer.store(true, std::sync::atomic::Ordering::SeqCst);
        let verdict = (|| -> String {
            let Ok(mut c) = std::net::TcpStream::connect(("127.0.0.1", self.client_port)) else { return "connect-failed".to_owned() };
            let _ = c.set_read_timeout(Some(Duration::from_secs(8)));
            let mut b = [0u8; 10];
            let mut a = vec![5u8, 1, 0, 1, 127, 0, 0, 1];
            a.extend_from_slice(&tp.to_be_bytes());
            if !(c.write_all(&[5, 1, 0]).is_ok() && c.read_exact(&mut b[..2]).is_ok() && c.write_all(&a).is_ok() && c.read_exact(&mut b).is_ok() && b[1] == 0 && c.write_all(b"ping").is_ok()) {
                return "handshake-failed".to_owned();
            }
            let mut got = vec![];
            let mut buf = [0u8; 4096];
            loop {
                match c.read(&mut buf) {
                    Ok(0) | Err(_) => break,
                    Ok(k) => got.extend_from_slice(&buf[..k]),
                }
            }
            if got == answer { "answer=complete".to_owned() } else if answer.starts_with(&got) { format!("answer=lost:{}of{}", got.len(), answer.len()) } else { "answer=altered".to_owned() }
        })();
        self.reset_behind_answer.store(false, std::sync::atomic::Ordering::SeqCst);
        let _ = served.join();
        verdict
    }

    pub fn alive(&self) -> String {
        let dead: Vec<usize> = self.tasks.iter().enumerate().filter(|(_, t)| t.is_finished()).map(|(i, _)| i).collect();
        // (the first service task that has ended: which of the later ones have ended by now too is a matter of timing - a
        // client whose configuration is unusable ends its tasks a moment after the server has ended its own)
        if dead.is_empty() { "alive".to_owned() } else { format!("ended:[{}]", dead[0]) }
    }
}

impl Drop for World {
    fn drop(&mut self) {
        for t in &self.tasks {
            t.abort();
        }
    }
}


const PROMPT: Duration = Duration::from_millis(2500);
const PATIENCE: Duration = Duration::from_secs(8);

/// one TCP flow through client and server to a scripted target; returns a canonical observation:
/// where the server dialled, what arrived on each side, who saw end-of-stream, and whether the end
/// was seen promptly after the side that ends the flow closed
pub async fn tcp_flow(client_port: u16, sc: TcpScript, links: Arc<std::sync::Mutex<Vec<tokio::task::AbortHandle>>>) -> String {
    let TcpScript { kind, host, up, down, target_closes_first, target, cut_after, reset, early, hold, slow_target } = sc;
    let (reset_app, reset_target, reset_answer) = (reset.as_deref() == Some("app"), reset.as_deref() == Some("target"), reset.as_deref() == Some("target-answer"));
    let Ok(listener) = TcpListener::bind("127.0.0.1:0").await else { return "no-loopback".to_owned() };
    let tport = listener.local_addr().unwrap().port();
    let listener = if target == "up" {
        Some(listener)
    } else {
        drop(listener); // refused: nobody listens on the port any more
        None
    };
    let host = if target == "unresolvable" { "no-such-host.invalid".to_owned() } else { host };
    let total_up: usize = up.iter().map(|c| c.len()).sum();
    let plain_http = kind == "http";
    // plain http: the request itself is forwarded in front of the body
    let preamble: Vec<u8> = if plain_http { format!("POST http://{}:{}/upload HTTP/1.1\r\nHost: {}:{}\r\nContent-Length: {}\r\n\r\n", host, tport, host, tport, total_up).into_bytes() } else { Vec::new() };
    let total_up = total_up + preamble.len();
    #[derive(Default, Clone)]
    struct Seen {
        got: Vec<u8>,
        eof: bool,
        closed_at: Option<std::time::Instant>,
        eof_at: Option<std::time::Instant>,
    }
    let seen = Arc::new(Mutex::new(Seen::default()));
    let seen2 = seen.clone();
    let down2 = down.clone();
    // (answer-and-reset: the last bytes of the upload stay unread in the target's socket)
    let unread = if reset_answer { total_up.saturating_sub(1).min(37) } else { 0 };
    let wait_for = if cut_after.is_some() || reset_app { usize::MAX } else { total_up - unread };
    let accepted = Arc::new(std::sync::atomic::AtomicBool::new(false));
    let accepted2 = accepted.clone();
    let target_task = tokio::spawn(async move {
        let Some(listener) = listener else { return false };
        let Ok(Ok((mut t, _))) = tokio::time::timeout(PATIENCE, listener.accept()).await else { return false };
        accepted2.store(true, std::sync::atomic::Ordering::SeqCst);
        let mut buf = vec![0u8; 65536];
        loop {
            if seen2.lock().await.got.len() >= wait_for {
                break;
            }
            let room = if reset_answer { (wait_for - seen2.lock().await.got.len()).min(buf.len()) } else if slow_target { 16384 } else { buf.len() };
            if slow_target {
                tokio::time::sleep(Duration::from_millis(1)).await;
            }
            match tokio::time::timeout(Duration::from_millis(6000), t.read(&mut buf[..room])).await {
                Ok(Ok(0)) => {
                    let mut s = seen2.lock().await;
                    s.eof = true;
                    s.eof_at = Some(std::time::Instant::now());
                    return true;
                }
                Ok(Ok(n)) => seen2.lock().await.got.extend_from_slice(&buf[..n]),
                Ok(Err(_)) if reset_app => {
                    let mut s = seen2.lock().await;
                    s.eof = true;
                    s.eof_at = Some(std::time::Instant::now());
                    return true;
                }
                _ => break,
            }
        }
        if reset_target {
            #[allow(deprecated)]
            let _ = t.set_linger(Some(Duration::from_secs(0)));
            seen2.lock().await.closed_at = Some(std::time::Instant::now());
            drop(t);
            return true;
        }
        if reset_answer {
            // let the rest of the upload reach this socket unread, answer, and go away at once
            tokio::time::sleep(Duration::from_millis(150)).await;
            let _ = t.write_all(&down2).await;
            seen2.lock().await.closed_at = Some(std::time::Instant::now());
            drop(t);
            return true;
        }
        let _ = t.write_all(&down2).await;
        if target_closes_first {
            let _ = t.shutdown().await;
            seen2.lock().await.closed_at = Some(std::time::Instant::now());
            // keep the read side until the flow is over
            let _ = tokio::time::timeout(PATIENCE, t.read(&mut buf)).await;
        } else {
            loop {
                match tokio::time::timeout(PATIENCE, t.read(&mut buf)).await {
                    Ok(Ok(0)) => {
                        let mut s = seen2.lock().await;
                        s.eof = true;
                        s.eof_at = Some(std::time::Instant::now());
                        break;
                    }
                    Ok(Ok(n)) => seen2.lock().await.got.extend_from_slice(&buf[..n]),
                    // the application had closed before the answer: the flow is gone when this target writes its answer, and a
                    // large answer into the closed connection turns the end it then reads into a reset — still the end
                    Ok(Err(_)) if early => {
                        let mut s = seen2.lock().await;
                        s.eof = true;
                        s.eof_at = Some(std::time::Instant::now());
                        break;
                    }
                    _ => break,
                }
            }
        }
        true
    });
    let Ok(mut app) = TcpStream::connect(("127.0.0.1", client_port)).await else { return "client-refused".to_owned() };
    let _ = app.set_nodelay(true);
    match kind.as_str() {
        "socks5" => {
            let _ = app.write_all(&[5, 1, 0]).await;
            let mut b = [0u8; 2];
            if !matches!(tokio::time::timeout(PATIENCE, app.read_exact(&mut b)).await, Ok(Ok(_))) {
                return "handshake-failed".to_owned();
            }
            let mut req = vec![5u8, 1, 0];
            if host == "127.0.0.1" {
                req.extend_from_slice(&[1, 127, 0, 0, 1]);
            } else {
                req.push(3);
                req.push(host.len() as u8);
                req.extend_from_slice(host.as_bytes());
            }
            req.extend_from_slice(&tport.to_be_bytes());
            let _ = app.write_all(&req).await;
            let mut b = [0u8; 10];
            if !matches!(tokio::time::timeout(PATIENCE, app.read_exact(&mut b)).await, Ok(Ok(_))) {
                return "handshake-failed".to_owned();
            }
        }
        "connect" => {
            let _ = app.write_all(format!("CONNECT {}:{} HTTP/1.1\r\nHost: {}:{}\r\n\r\n", host, tport, host, tport).as_bytes()).await;
            let mut b = [0u8; 39];
            if !matches!(tokio::time::timeout(PATIENCE, app.read_exact(&mut b)).await, Ok(Ok(_))) {
                return "handshake-failed".to_owned();
            }
        }
        _ => {
            let _ = app.write_all(&preamble).await;
        }
    }
    let handshaken = std::time::Instant::now();
    let mut app_closed_at = None;
    let mut sent = 0usize;
    for (i, c) in up.iter().enumerate() {
        if cut_after == Some(i) {
            break;
        }
        if app.write_all(c).await.is_err() {
            break;
        }
        sent += c.len();
        tokio::time::sleep(Duration::from_millis(1)).await;
    }
    if cut_after.is_some() {
        // wait until what was written has crossed, then cut the link under the flow
        for _ in 0..400 {
            if seen.lock().await.got.len() >= sent + preamble.len() {
                break;
            }
            tokio::time::sleep(Duration::from_millis(5)).await;
        }
        // (the client connects to the server when the local handshake is done: wait for that link to exist)
        for _ in 0..200 {
            if !links.lock().unwrap().is_empty() {
                break;
            }
            tokio::time::sleep(Duration::from_millis(5)).await;
        }
        tokio::time::sleep(Duration::from_millis(20)).await;
        {
            let mut l = links.lock().unwrap();
            for h in l.drain(..) {
                h.abort();
            }
        }
        app_closed_at = Some(std::time::Instant::now());
    }
    if reset_app {
        for _ in 0..400 {
            if seen.lock().await.got.len() >= sent + preamble.len() {
                break;
            }
            tokio::time::sleep(Duration::from_millis(5)).await;
        }
        #[allow(deprecated)]
        let _ = app.set_linger(Some(Duration::from_secs(0)));
        let closed = std::time::Instant::now();
        drop(app);
        let dialed = tokio::time::timeout(PATIENCE + Duration::from_secs(4), target_task).await.ok().and_then(|r| r.ok()).unwrap_or(false);
        let s = seen.lock().await.clone();
        let want_up: Vec<u8> = [preamble, up.concat()].concat();
        return format!("dialed={} up={} end={} prompt={}", dialed as u8, if s.got == want_up { "ok" } else { "diff" }, s.eof as u8, s.eof_at.map(|t| (t.saturating_duration_since(closed) < PROMPT) as u8).unwrap_or(0));
    }
    let mut got_down = Vec::new();
    let mut buf = vec![0u8; 65536];
    let mut eof = false;
    let mut eof_at = None;
    if early && target == "up" {
        let _ = app.shutdown().await;
        app_closed_at = Some(std::time::Instant::now());
    } else if !target_closes_first && target == "up" && cut_after.is_none() && !reset_target {
        // read the answer, then close first
        while got_down.len() < down.len() {
            match tokio::time::timeout(PATIENCE, app.read(&mut buf)).await {
                Ok(Ok(0)) => {
                    eof = true;
                    eof_at = Some(std::time::Instant::now());
                    break;
                }
                Ok(Ok(n)) => got_down.extend_from_slice(&buf[..n]),
                _ => break,
            }
        }
        let _ = app.shutdown().await;
        app_closed_at = Some(std::time::Instant::now());
    }
    if !eof {
        loop {
            match tokio::time::timeout(PATIENCE, app.read(&mut buf)).await {
                Ok(Ok(0)) | Ok(Err(_)) => {
                    eof = true;
                    eof_at = Some(std::time::Instant::now());
                    break;
                }
                Ok(Ok(n)) => got_down.extend_from_slice(&buf[..n]),
                Err(_) => break,
            }
        }
    }
    let mut idle_held = None;
    if hold && eof {
        // the application stays, idle: once things have settled, letting go of its socket must release that socket only
        async fn settle() -> usize {
            let mut last = open_fds();
            let mut stable = 0;
            for _ in 0..150 {
                tokio::time::sleep(Duration::from_millis(20)).await;
                let now = open_fds();
                if now == last {
                    stable += 1;
                    if stable >= 10 {
                        break;
                    }
                } else {
                    stable = 0;
                    last = now;
                }
            }
            last
        }
        let before = settle().await;
        drop(app);
        let after = settle().await;
        idle_held = Some(before.saturating_sub(after).saturating_sub(1));
    }
    // the application's side is over: a target that has not even been dialled by now will not be
    if !accepted.load(std::sync::atomic::Ordering::SeqCst) {
        tokio::time::sleep(Duration::from_millis(300)).await;
        if !accepted.load(std::sync::atomic::Ordering::SeqCst) {
            target_task.abort();
        }
    }
    let dialed = tokio::time::timeout(PATIENCE + Duration::from_secs(4), target_task).await.ok().and_then(|r| r.ok()).unwrap_or(false);
    let s = seen.lock().await.clone();
    let want_up: Vec<u8> = [preamble, up.concat()].concat();
    let within = |a: Option<std::time::Instant>, b: Option<std::time::Instant>| match (a, b) {
        (Some(a), Some(b)) => (b.saturating_duration_since(a) < PROMPT) as u8,
        _ => 0,
    };
    if target != "up" {
        // nothing to dial: the application must see the end promptly and receive nothing
        return format!("dialed={} down={} eof={} prompt={}", dialed as u8, got_down.len(), eof as u8, within(Some(handshaken), eof_at));
    }
    if early {
        return format!("dialed={} up={} eof={} target-eof={} prompt={}", dialed as u8, if s.got == want_up { "ok".to_owned() } else { format!("diff:{}of{}", s.got.len(), want_up.len()) }, eof as u8, s.eof as u8, within(app_closed_at, s.eof_at) & within(app_closed_at, eof_at));
    }
    if reset_answer {
        return format!("dialed={} down={} eof={} prompt={}", dialed as u8, if got_down == down { "ok".to_owned() } else { format!("diff:{}of{}", got_down.len(), down.len()) }, eof as u8, within(s.closed_at, eof_at));
    }
    if reset_target {
        return format!("dialed={} up={} end={} prompt={}", dialed as u8, if s.got == want_up { "ok" } else { "diff" }, eof as u8, within(s.closed_at, eof_at));
    }
    if cut_after.is_some() {
        let prefix = want_up.starts_with(&s.got) && s.got.len() >= sent;
        return format!("dialed={} up-prefix={} eof={} target-eof={} prompt={}", dialed as u8, if prefix { "ok" } else { "diff" }, eof as u8, s.eof as u8, within(app_closed_at, eof_at) & (within(app_closed_at, s.eof_at) | !dialed as u8));
    }
    let held = match idle_held {
        Some(n) => format!(" idle-held={}", n),
        None if hold => " idle-held=?".to_owned(),
        None => String::new(),
    };
    format!(
        "dialed={} up={} down={} eof={} target-eof={} prompt={}{}",
        dialed as u8,
        if s.got == want_up { "ok".to_owned() } else { format!("diff:{}of{}", s.got.len(), want_up.len()) },
        if got_down == down { "ok".to_owned() } else { format!("diff:{}of{}", got_down.len(), down.len()) },
        eof as u8,
        if target_closes_first { "-".to_owned() } else { (s.eof as u8).to_string() },
        if target_closes_first { within(s.closed_at, eof_at) } else { within(app_closed_at, s.eof_at) & within(app_closed_at, eof_at) },
        held
    )
}

fn tls_dir() -> String {
    std::env::var("VERIF_TLS_DIR").unwrap_or_else(|_| "/verif/work/tls".to_owned())
}

    /// datagrams from one local application to scripted udp echo targets and back
pub async fn udp_flow(client_port: u16, payloads: Vec<Vec<u8>>) -> String {
        {
            let Ok(target) = UdpSocket::bind("127.0.0.1:0").await else { return "no-loopback".to_owned() };
            let taddr = target.local_addr().unwrap();
            let n = payloads.len();
            let echo = tokio::spawn(async move {
                let mut buf = vec![0u8; 70000];
                let mut seen = Vec::new();
                for _ in 0..n {
                    match tokio::time::timeout(Duration::from_secs(3), target.recv_from(&mut buf)).await {
                        Ok(Ok((l, from))) => {
                            seen.push(buf[..l].to_vec());
                            let mut answer = b"re:".to_vec();
                            answer.extend_from_slice(&buf[..l]);
                            let _ = target.send_to(&answer, from).await;
                        }
                        _ => break,
                    }
                }
                seen
            });
            let Ok(app) = UdpSocket::bind("127.0.0.1:0").await else { return "no-loopback".to_owned() };
            let mut answers = Vec::new();
            let mut buf = vec![0u8; 70000];
            for p in &payloads {
                let mut d = vec![0u8, 0, 0, 1, 127, 0, 0, 1];
                d.extend_from_slice(&taddr.port().to_be_bytes());
                d.extend_from_slice(p);
                let _ = app.send_to(&d, ("127.0.0.1", client_port)).await;
                match tokio::time::timeout(Duration::from_secs(3), app.recv_from(&mut buf)).await {
                    Ok(Ok((l, _))) => answers.push(buf[..l].to_vec()),
                    _ => answers.push(vec![]),
                }
            }
            let seen = echo.await.unwrap_or_default();
            let mut ok_up = seen.len() == payloads.len();
            for (a, b) in seen.iter().zip(payloads.iter()) {
                ok_up &= a == b;
            }
            let mut ok_down = true;
            for (a, p) in answers.iter().zip(payloads.iter()) {
                let mut want = vec![0u8, 0, 0, 1, 127, 0, 0, 1];
                want.extend_from_slice(&taddr.port().to_be_bytes());
                want.extend_from_slice(b"re:");
                want.extend_from_slice(p);
                ok_down &= *a == want;
            }
            format!("up={} down={}", if ok_up { "ok".to_owned() } else { format!("diff:{}of{}", seen.len(), payloads.len()) }, if ok_down { "ok" } else { "diff" })
        }
}


/// `apps` local applications, each sending `per` rounds of datagrams to each of `targets` scripted udp targets
/// (every target answers `re<k>:` + what it got): every target receives exactly what was addressed to it, every
/// application gets each answer back labelled with the answering target, and nothing else
/// `mix`: the targets are named in three ways - an address 127.0.0.1:p, an address 127.0.0.2:p', a name localhost:p'' -
/// with the ports chosen so that every 127.0.0.2 port < every name's port < every 127.0.0.1 port (the orders "by
/// address" and "by port" disagree on them)
pub async fn udp_multi(client_port: u16, apps: usize, targets: usize, per: usize, seed: u64, mix: bool) -> String {
    let mut tsocks = vec![];
    // kind of target k: 0 = 127.0.0.1 by address, 1 = 127.0.0.2 by address, 2 = localhost by name
    let kind = |k: usize| if mix { k % 3 } else { 0 };
    if mix {
        let mut c1 = vec![];
        let mut c2 = vec![];
        for _ in 0..(4 * targets + 8) {
            if let Ok(s) = UdpSocket::bind("127.0.0.1:0").await {
                c1.push(s);
            }
            if let Ok(s) = UdpSocket::bind("127.0.0.2:0").await {
                c2.push(s);
            }
        }
        c1.sort_by_key(|s| s.local_addr().unwrap().port());
        c2.sort_by_key(|s| s.local_addr().unwrap().port());
        let need = |k: usize| (0..targets).filter(|i| i % 3 == k).count();
        // lowest 127.0.0.2 ports; then names above them; then the highest 127.0.0.1 ports
        let mut low: Vec<UdpSocket> = c2.drain(..need(1).min(c2.len())).collect();
        let top = low.last().map(|s| s.local_addr().unwrap().port()).unwrap_or(0);
        c1.retain(|s| s.local_addr().unwrap().port() > top);
        if c1.len() < need(0) + need(2) || low.len() < need(1) {
            return "no-loopback".to_owned();
        }
        let mut names: Vec<UdpSocket> = c1.drain(..need(2)).collect();
        let mut high: Vec<UdpSocket> = c1.drain(c1.len() - need(0)..).collect();
        for k in 0..targets {
            let s = match k % 3 { 0 => high.pop(), 1 => low.pop(), _ => names.pop() };
            tsocks.push(Arc::new(s.unwrap()));
        }
    } else {
        for _ in 0..targets {
            let Ok(t) = UdpSocket::bind("127.0.0.1:0").await else { return "no-loopback".to_owned() };
            tsocks.push(Arc::new(t));
        }
    }
    let tports: Vec<u16> = tsocks.iter().map(|t| t.local_addr().unwrap().port()).collect();
    let seen: Arc<Mutex<Vec<Vec<Vec<u8>>>>> = Arc::new(Mutex::new(vec![vec![]; targets]));
    let mut tasks = vec![];
    for (k, t) in tsocks.iter().enumerate() {
        let (t, seen) = (t.clone(), seen.clone());
        tasks.push(tokio::spawn(async move {
            let mut buf = vec![0u8; 70000];
            while let Ok(Ok((l, from))) = tokio::time::timeout(Duration::from_millis(2500), t.recv_from(&mut buf)).await {
                seen.lock().await[k].push(buf[..l].to_vec());
                let mut answer = format!("re{}:", k).into_bytes();
                answer.extend_from_slice(&buf[..l]);
                let _ = t.send_to(&answer, from).await;
            }
        }));
    }
    let mut asocks = vec![];
    for _ in 0..apps {
        let Ok(a) = UdpSocket::bind("127.0.0.1:0").await else { return "no-loopback".to_owned() };
        asocks.push(a);
    }
    let mut rng = Rng::new(seed);
    let mut want: Vec<Vec<Vec<u8>>> = vec![vec![]; targets];
    let (mut down_bad, mut lost) = (0, 0);
    let mut buf = vec![0u8; 70000];
    for r in 0..per {
        for (ai, a) in asocks.iter().enumerate() {
            for k in 0..targets {
                let n = [1usize, 20, 300, 1200][(r + ai + k) % 4];
                let mut payload = format!("a{}t{}r{}:", ai, k, r).into_bytes();
                payload.extend(rng.bytes(n));
                let mut d = match kind(k) {
                    0 => vec![0u8, 0, 0, 1, 127, 0, 0, 1],
                    1 => vec![0u8, 0, 0, 1, 127, 0, 0, 2],
                    _ => [&[0u8, 0, 0, 3, 9][..], b"localhost"].concat(),
                };
                d.extend_from_slice(&tports[k].to_be_bytes());
                let header = d.clone();
                d.extend_from_slice(&payload);
                let _ = a.send_to(&d, ("127.0.0.1", client_port)).await;
                want[k].push(payload.clone());
                match tokio::time::timeout(Duration::from_secs(3), a.recv_from(&mut buf)).await {
                    Ok(Ok((l, _))) => {
                        // (how the answer names the target it came from is the protocol's business when the target was a
                        // name: the address it resolved to, or the name)
                        let tail = [format!("re{}:", k).into_bytes(), payload].concat();
                        let expect = [header, tail.clone()].concat();
                        if if kind(k) == 2 { !buf[..l].ends_with(&tail) } else { buf[..l] != expect[..] } {
                            down_bad += 1;
                        }
                    }
                    _ => lost += 1,
                }
            }
        }
    }
    // nothing else may arrive at any application
    let mut stray = 0;
    for a in &asocks {
        while let Ok(Ok(_)) = tokio::time::timeout(Duration::from_millis(60), a.recv_from(&mut buf)).await {
            stray += 1;
        }
    }
    for t in tasks {
        t.abort();
    }
    let seen = seen.lock().await.clone();
    let mut up_bad = 0;
    for k in 0..targets {
        if seen[k] != want[k] {
            up_bad += 1;
        }
    }
    format!("up={} down={} stray={}", if up_bad == 0 { "ok".to_owned() } else { format!("diff:{}targets", up_bad) }, if down_bad == 0 && lost == 0 { "ok".to_owned() } else { format!("diff:{}wrong,{}lost", down_bad, lost) }, stray)
}

pub fn parse_sizes(s: &str) -> Vec<usize> {
    s.split(',').filter_map(|x| x.parse().ok()).collect()
}

pub fn payload(seed: u64, sizes: &[usize]) -> Vec<Vec<u8>> {
    let mut rng = Rng::new(seed);
    sizes.iter().map(|n| rng.bytes(*n)).collect()
}
