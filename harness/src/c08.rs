//! C08: fault sequences from the catalogue against the real client and server, each followed by
//! canary flows (tcp, and udp where configured) that must succeed, and a liveness check of the
//! service tasks.  The model side carries the faults through `Octo.Listener.step`.
use crate::e2e_gen::*;
use crate::session::Session;
use crate::util::*;

fn junk(rng: &mut Rng) -> String {
    let n = match rng.below(5) {
        0 => 1 + rng.below(8),
        1 => 16 + rng.below(64),
        2 => 200 + rng.below(2000),
        3 => 70000,
        _ => 1 + rng.below(300),
    } as usize;
    let mut b = rng.bytes(n);
    let prefix: &[u8] = match rng.below(6) {
        0 => b"GET / HTTP/1.1\r\n",
        1 => &[5u8, 1, 0],
        2 => &[5u8, 255],
        3 => b"CONNECT ",
        _ => &[],
    };
    b.splice(0..0, prefix.iter().copied());
    hex(&b)
}

/// datagrams travelling inside a connection (vmess, trojan): application B's first datagram opens a binding whose
/// connection stalls in its handshake with the server; application A's established binding goes on being served
fn binding_stall_cases(s: &mut Session, thorough: bool, rng: &mut Rng) {
    for base in protocol_ciphers(rng) {
        if base.protocol == "shadowsocks" || (!thorough && base.cipher == "chacha20-poly1305") {
            continue;
        }
        let mut transports = vec![];
        if base.protocol == "vmess" {
            transports.push("ws");
        }
        if tls_available() {
            transports.push("tls");
            if thorough {
                transports.push("wss");
            }
        }
        for t in transports {
            let mut base = base.clone();
            base.udp = true;
            let cfg = base.with(t);
            s.begin_case(&format!("binding-stall:{}", cfg.label()));
            let Some(w) = cfg.start(s, true, 4) else {
                s.oracle_fail(&format!("start:{}", cfg.label()), "a README-supported configuration does not start");
                continue;
            };
            let r = s.run(&format!("e2e.udphol {} hold={}", w, 5000));
            s.count("fault:binding-handshake-stall");
            if r != "served" && !r.starts_with("n/a") {
                s.oracle_fail(&format!("binding-stall:{}", cfg.label()), &format!("while another binding's connection to the server was stalled in its handshake, an established binding's datagram was not served: `{}`", r));
            }
            let r = s.run(&format!("e2e.udp {} sizes=1,700 seed={}", w, rng.below(1 << 40)));
            if r != "up=ok down=ok" {
                s.oracle_fail(&format!("udp-canary:{}:binding-stall", cfg.label()), &format!("after a stalled binding a well-behaved udp flow failed: `{}`", r));
            }
            s.run(&format!("e2e.stop {}", w));
            s.mark_nontrivial();
        }
    }
}

/// the server is away for a while: many applications' first datagrams find no server (every one of those bindings fails
/// to open); when the server is back, new applications are served as if nothing had happened
fn failed_bindings_then_recovery(s: &mut Session, thorough: bool, rng: &mut Rng) {
    for base in protocol_ciphers(rng) {
        if !matches!((base.protocol, base.cipher), ("vmess", "aes-128-gcm") | ("shadowsocks", "aes-128-gcm")) && !thorough {
            continue;
        }
        let mut base = base;
        base.udp = true;
        if base.protocol == "trojan" {
            continue;
        }
        let cfg = base.with("tcp");
        s.begin_case(&format!("failed-bindings-then-recovery:{}", cfg.label()));
        let Some(w) = cfg.start(s, false, 4) else { continue };
        s.run(&format!("e2e.server {} stop", w));
        s.run(&format!("e2e.udpfire {} n={}", w, 80));
        s.count("fault:bindings-fail-to-open");
        s.run(&format!("e2e.server {} start", w));
        let mut last = String::new();
        let mut served = false;
        for _ in 0..2 {
            last = s.run(&format!("e2e.udp {} sizes=1,700 seed={}", w, rng.below(1 << 40)));
            if last == "up=ok down=ok" {
                served = true;
                break;
            }
        }
        if !served {
            s.oracle_fail(&format!("udp-canary:{}:failed-bindings", cfg.label()), &format!("after 80 bindings that could not be opened (server away) and the server's return, a fresh udp flow was not served: `{}`", last));
        }
        let r = s.run(&format!("e2e.alive {}", w));
        if r != "alive" {
            s.oracle_fail(&format!("service-ended:{}:failed-bindings", cfg.label()), &format!("a service task had ended: `{}`", r));
        }
        s.run(&format!("e2e.stop {}", w));
        s.mark_nontrivial();
    }
}

pub fn generate(s: &mut Session, tier: &str, rng: &mut Rng) {
    let thorough = tier == "thorough";
    binding_stall_cases(s, thorough, rng);
    failed_bindings_then_recovery(s, thorough, rng);
    let mut transports = vec!["tcp", "ws"];
    if tls_available() {
        transports.extend(["tls", "wss", "quic"]);
    } else {
        s.count("skipped:tls-wss(no certificate)");
    }
    let all = protocol_ciphers(rng);
    let picks: Vec<Cfg> = if thorough { all } else { all.into_iter().filter(|c| matches!((c.protocol, c.cipher, c.users.as_str()), ("shadowsocks", "aes-256-gcm", _) | ("shadowsocks", "2022-blake3-aes-256-gcm", "-") | ("shadowsocks", "2022-blake3-aes-128-gcm", _) | ("vmess", "chacha20-poly1305", _) | ("trojan", _, _))).collect() };
    let tcp_faults = ["server-junk", "server-junk-reset", "server-stall", "server-half", "ws-fail", "accept-emfile", "local-junk", "local-stall"];
    let tls_faults = ["tls-fail", "tls-stall"];
    let udp_faults = ["server-udp-junk", "server-udp-replay", "server-udp-unresolvable", "local-udp-junk", "local-udp-short", "local-udp-unresolvable", "local-udp-oversized", "server-udp-oversized-reply"];
    for (ci, base) in picks.into_iter().enumerate() {
        for t in &transports {
            // quick tier: plain tcp plus one other transport per configuration, rotating so that each is used
            let others = ["ws", "tls", "wss", "quic"];
            if !thorough && *t != "tcp" && *t != others[ci % others.len()] {
                continue;
            }
            // datagrams of vmess travel inside every transport, those of trojan inside tls / wss / quic (README): the udp
            // faults and the udp canaries apply to them as well
            let mut base = base.clone();
            if base.protocol == "vmess" || (base.protocol == "trojan" && matches!(*t, "tls" | "wss" | "quic")) {
                base.udp = true;
            }
            let cfg = base.with(t);
            s.begin_case(&format!("faults:{}", cfg.label()));
            let Some(w) = cfg.start(s, false, 4) else {
                s.oracle_fail(&format!("start:{}", cfg.label()), "a README-supported configuration does not start");
                continue;
            };
            let mut catalogue: Vec<&str> = tcp_faults.to_vec();
            if t.starts_with("tls") || *t == "wss" {
                catalogue.extend(tls_faults);
            }
            if *t == "quic" {
                // the tcp listener of mode tcp_and_quic gets the tcp faults; the quic endpoint its own
                catalogue.extend(["quic-stall", "quic-junk"]);
            }
            if cfg.udp {
                catalogue.extend(udp_faults);
            }
            // every fault alone, then random sequences
            let mut sequences: Vec<Vec<&str>> = catalogue.iter().map(|f| vec![*f]).collect();
            for _ in 0..if thorough { 12 } else { 3 } {
                let n = 2 + rng.below(6) as usize;
                sequences.push((0..n).map(|_| *rng.pick(&catalogue)).collect());
            }
            // faulty flows through the proxy itself: unreachable / unresolvable targets
            sequences.push(vec!["flow-refused", "flow-unresolvable"]);
            for seq in sequences {
                s.subcase(&seq.join("+"));
                for f in &seq {
                    match *f {
                        "flow-refused" | "flow-unresolvable" => {
                            s.run(&format!("e2e.tcp {} kind=socks5 host=localhost up=10 down=10 seed=1 close=app target={}", w, &f[5..]));
                        }
                        _ => {
                            let j = if rng.below(8) == 0 { "-".to_owned() } else { junk(rng) };
                            s.run(&format!("e2e.fault {} {} {}", w, f, j));
                        }
                    }
                    s.count(&format!("fault:{}", f));
                }
                let op = format!("e2e.tcp {} kind={} host=127.0.0.1 up={} down={} seed={} close=target", w, rng.pick(&KINDS), sizes(rng, 20000), sizes(rng, 20000), rng.below(1 << 40));
                let r = s.run(&op);
                if !(field(&r, "dialed") == "1" && field(&r, "up") == "ok" && field(&r, "down") == "ok" && field(&r, "eof") == "1") {
                    s.oracle_fail(&format!("tcp-canary:{}:{}", cfg.label(), seq.join("+")), &format!("after [{}] a well-behaved tcp flow failed: `{}`", seq.join(", "), r));
                }
                if cfg.udp {
                    let r = s.run(&format!("e2e.udp {} sizes={} seed={}", w, "1,700,1400", rng.below(1 << 40)));
                    if r != "up=ok down=ok" {
                        s.oracle_fail(&format!("udp-canary:{}:{}", cfg.label(), seq.join("+")), &format!("after [{}] a well-behaved udp flow failed: `{}`", seq.join(", "), r));
                    }
                }
                if cfg.udp && cfg.protocol == "shadowsocks" {
                    // an established session whose datagram is replayed goes on being served
                    let r = s.run(&format!("e2e.udpreplay {}", w));
                    if r != "ok" && r != "n/a" {
                        s.oracle_fail(&format!("udp-session-after-replay:{}:{}", cfg.label(), seq.join("+")), &format!("after a replayed datagram the session it belongs to was no longer served: `{}`", r));
                    }
                }
                let r = s.run(&format!("e2e.alive {}", w));
                if r != "alive" {
                    s.oracle_fail(&format!("service-ended:{}:{}", cfg.label(), seq.join("+")), &format!("after [{}] a service task had ended: `{}`", seq.join(", "), r));
                }
            }
            // sessions whose clients and targets both send in bursts: they may lose datagrams, nobody else does
            if cfg.udp && cfg.protocol == "shadowsocks" && !cfg.cipher.starts_with("2022") {
                s.subcase("udp-flood");
                s.run(&format!("e2e.udpflood {} ms={}", w, if thorough { 12000 } else { 5000 }));
                s.count("fault:udp-flood");
                let mut served = false;
                let mut last = String::new();
                // (what the flood left in the queues is worked off first: three tries, a second apart)
                for _ in 0..3 {
                    last = s.run(&format!("e2e.udp {} sizes={} seed={}", w, "1,700,1400", rng.below(1 << 40)));
                    if last == "up=ok down=ok" {
                        served = true;
                        break;
                    }
                }
                if !served {
                    s.oracle_fail(&format!("udp-after-flood:{}", cfg.label()), &format!("after sessions that flooded in both directions no well-behaved udp flow was served any more: `{}`", last));
                }
            }
            // names behind a resolver that does not answer: more such flows than the runtime has workers, then a flow to
            // an address - it is served at once (a look-up waits by itself, not on a worker thread)
            if crate::e2e::resolver_available() {
                let vias: &[&str] = if cfg.udp { &["tcp", "udp"] } else { &["tcp"] };
                for via in vias {
                    s.subcase(&format!("silent-resolver-{}", via));
                    let r = s.run(&format!("e2e.resolver {} n=8 via={}", w, via));
                    s.count(&format!("fault:silent-resolver-{}", via));
                    if r != "served" {
                        s.oracle_fail(&format!("silent-resolver:{}:{}", cfg.label(), via), &format!("while {} flows were waiting for a resolver that does not answer, a flow to an address was not served: `{}`", 8, r));
                    }
                    let r = s.run(&format!("e2e.alive {}", w));
                    if r != "alive" {
                        s.oracle_fail(&format!("service-ended:{}:silent-resolver", cfg.label()), &format!("after flows to unresolvable names a service task had ended: `{}`", r));
                    }
                }
            } else {
                s.count("skipped:silent-resolver(no local resolver port)");
            }
            s.run(&format!("e2e.stop {}", w));
            s.mark_nontrivial();
        }
    }
}
