//! Shadowsocks TCP flows: client codec -> wire -> server codec (and back), under the real FramedRead
use base64ct::{Base64, Encoding};

use crate::session::Session;
use crate::stream::now_secs;
use crate::util::*;

pub const CIPHERS: [&str; 7] = [
    "aes-128-gcm",
    "aes-256-gcm",
    "chacha20-poly1305",
    "2022-blake3-aes-128-gcm",
    "2022-blake3-aes-256-gcm",
    "2022-blake3-chacha8-poly1305",
    "2022-blake3-chacha20-poly1305",
];

pub fn key_len(cipher: &str) -> usize {
    if cipher == "aes-128-gcm" || cipher == "2022-blake3-aes-128-gcm" { 16 } else { 32 }
}
pub fn is2022(cipher: &str) -> bool {
    cipher.starts_with("2022")
}
pub fn eih(cipher: &str) -> bool {
    cipher == "2022-blake3-aes-128-gcm" || cipher == "2022-blake3-aes-256-gcm"
}

pub struct SsCfg {
    pub cipher: &'static str,
    pub server_password: String,
    pub client_password: String,
    pub users: String,
    pub with_user: bool,
}

pub fn random_cfg(rng: &mut Rng, cipher: &'static str, want_user: bool) -> SsCfg {
    let n = key_len(cipher);
    if is2022(cipher) {
        let psk = Base64::encode_string(&rng.bytes(n));
        if want_user && eih(cipher) {
            let u1 = Base64::encode_string(&rng.bytes(n));
            let u2 = Base64::encode_string(&rng.bytes(n));
            let users = format!("alice:{};bob:{}", u1, u2);
            let pick = if rng.chance(1, 2) { u1 } else { u2 };
            SsCfg { cipher, server_password: psk.clone(), client_password: format!("{}:{}", psk, pick), users, with_user: true }
        } else {
            SsCfg { cipher, server_password: psk.clone(), client_password: psk, users: "-".into(), with_user: false }
        }
    } else {
        let len = rng.range(1, 40) as usize;
        let pw: String = (0..len).map(|_| *rng.pick(b"abcdefghijklmnopqrstuvwxyzABCDEFGHIJKLMNOPQRSTUVWXYZ0123456789!#$%&*+-./") as char).collect();
        SsCfg { cipher, server_password: pw.clone(), client_password: pw, users: "-".into(), with_user: false }
    }
}

pub fn random_addr(rng: &mut Rng) -> String {
    match rng.below(4) {
        0 => format!("4:{}:{}", hex(&rng.bytes(4)), rng.range(1, 65535)),
        1 => format!("6:{}:{}", hex(&rng.bytes(16)), rng.range(1, 65535)),
        _ => {
            let l = *rng.pick(&[1usize, 3, 11, 40, 255]);
            let name: Vec<u8> = (0..l).map(|_| *rng.pick(b"abcdefghijklmnopqrstuvwxyz0123456789-.")).collect();
            format!("d:{}:{}", hex(&name), *rng.pick(&[80u16, 443, 1, 65535, 8080]))
        }
    }
}

pub fn random_writes(rng: &mut Rng, big: bool) -> Vec<Vec<u8>> {
    let n = rng.range(1, 4) as usize;
    (0..n)
        .map(|i| {
            let sizes: &[usize] = if big { &[0, 1, 2, 17, 100, 1000, 5000, 16383, 16384, 16385, 65501, 65502, 70000] } else { &[1, 2, 17, 100, 700] };
            let mut l = *rng.pick(sizes);
            if i > 0 && l == 0 {
                l = 1;
            }
            rng.bytes(l)
        })
        .collect()
}

/// cut `w` into non-empty consecutive pieces; the first piece has at least `first_min` bytes
pub fn cut(rng: &mut Rng, w: &[u8], first_min: usize, style: u64) -> Vec<Vec<u8>> {
    let mut out = vec![];
    let mut pos = 0;
    while pos < w.len() {
        let rem = w.len() - pos;
        let mut l = match style {
            0 => rem,                                        // all at once
            1 => 1,                                          // byte by byte
            2 => rng.range(1, 40).min(rem as u64) as usize,  // small pieces
            3 => rng.range(1, rem as u64) as usize,          // anything
            _ => *rng.pick(&[1usize, 2, 15, 16, 17, 18, 19, 33, 34, 35, 100]),
        }
        .min(rem);
        if pos == 0 && l < first_min {
            l = first_min.min(rem);
        }
        out.push(w[pos..pos + l].to_vec());
        pos += l;
    }
    out
}

pub struct Flow {
    pub cfg: SsCfg,
    pub addr: String,
    pub client: String,
    pub server: String,
    pub sctx: String,
}

/// create contexts and the two codecs of one flow
pub fn open_flow(s: &mut Session, rng: &mut Rng, cfg: SsCfg) -> Option<Flow> {
    let (cc, sc, c, sv) = (s.fresh("cc"), s.fresh("sc"), s.fresh("c"), s.fresh("s"));
    let addr = random_addr(rng);
    if s.run(&format!("ss.cctx {} cipher={} password={}", cc, cfg.cipher, cfg.client_password)) != "ok" {
        return None;
    }
    if s.run(&format!("ss.sctx {} cipher={} password={} users={}", sc, cfg.cipher, cfg.server_password, cfg.users)) != "ok" {
        return None;
    }
    s.run(&format!("ss.new {} {} {}", c, cc, addr));
    s.run(&format!("ss.new {} {} -", sv, sc));
    Some(Flow { cfg, addr, client: c, server: sv, sctx: sc })
}

/// encode a list of writes with one codec; returns the concatenated wire
pub fn encode_all(s: &mut Session, obj: &str, writes: &[Vec<u8>]) -> Option<Vec<u8>> {
    let mut wire = vec![];
    for w in writes {
        let r = loop {
            let t0 = now_secs();
            let r = s.interp.exec(&format!("st.enc {} {} now={}", obj, hex(w), t0));
            if now_secs() == t0 {
                // log only an execution during which the clock second did not change
                s.ops += 1;
                s.lines.push(format!("st.enc {} {} now={} => {}", obj, hex(w), t0, r));
                s.count(&format!("op:st.enc:{}", if r == "err" || r == "panic" { r.as_str() } else { "hex" }));
                break r;
            }
            // the encoder state advanced: the case cannot be replayed exactly, give up on it
            s.lines.push(format!("# clock tick during st.enc {}; case abandoned", obj));
            return None;
        };
        wire.extend(unhex(&r)?);
    }
    Some(wire)
}

pub fn first_min(cipher: &str, to_server: bool, with_user: bool) -> usize {
    if !is2022(cipher) {
        return 1;
    }
    let n = key_len(cipher);
    if to_server { n + if with_user { 16 } else { 0 } + 27 } else { n + 1 + 8 + n + 2 + 16 }
}

pub struct Delivered {
    pub data: Vec<u8>,
    pub connect: Option<String>,
    pub err: bool,
    pub panic: bool,
    pub end: bool,
}

/// feed pieces to a decoder object; collects what it released
pub fn feed_all(s: &mut Session, obj: &str, pieces: &[Vec<u8>], eof: bool) -> Delivered {
    let mut d = Delivered { data: vec![], connect: None, err: false, panic: false, end: false };
    let mut absorb = |r: &str, d: &mut Delivered| {
        for tok in r.split(' ') {
            if tok == "err" {
                d.err = true
            } else if tok == "panic" {
                d.panic = true
            } else if tok == "end" {
                d.end = true
            } else if let Some(rest) = tok.strip_prefix("d:") {
                d.data.extend(unhex(rest).unwrap_or_default())
            } else if let Some(rest) = tok.strip_prefix("u:") {
                // a datagram item (address, payload): its payload counts as released data
                let (_, h) = rest.rsplit_once(':').unwrap_or((rest, "-"));
                d.data.extend(unhex(h).unwrap_or_default())
            } else if let Some(rest) = tok.strip_prefix("c:") {
                let (a, h) = rest.rsplit_once(':').unwrap_or((rest, "-"));
                d.connect = Some(a.replace('/', ":"));
                d.data.extend(unhex(h).unwrap_or_default())
            }
        }
    };
    for p in pieces {
        let r = loop {
            let t0 = now_secs();
            let r = s.interp.exec(&format!("st.feed {} {} now={}", obj, hex(p), t0));
            if now_secs() == t0 || !r.contains("err") {
                s.ops += 1;
                s.lines.push(format!("st.feed {} {} now={} => {}", obj, hex(p), t0, r));
                s.count(&format!("op:st.feed:{}", if r.contains("panic") { "panic" } else if r.contains("err") { "err" } else if r == "-" { "more" } else { "items" }));
                break r;
            }
            s.lines.push(format!("# clock tick during st.feed {}; result {} kept", obj, r));
            s.ops += 1;
            s.lines.push(format!("st.feed {} {} now={} => {}", obj, hex(p), now_secs(), r));
            break r;
        };
        absorb(&r, &mut d);
        if d.panic || d.end {
            break;
        }
    }
    if eof && !d.panic && !d.end {
        let r = s.run(&format!("st.eof {}", obj));
        absorb(&r, &mut d);
    }
    d
}
