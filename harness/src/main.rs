mod c01;
mod c08;
mod c09;
mod c15;
mod e2e_gen;
mod c02;
mod c03;
mod c04;
mod c05;
mod c06;
mod c07;
mod c10;
mod c11;
mod c12;
mod c13;
mod c14;
mod c16;
mod interp;
mod craft;
mod e2e;
mod gen_ss;
mod hs;
mod session;
mod ssudp;
mod stream;
mod util;
mod watch;

use serde_json::json;

fn usage() -> ! {
    eprintln!("usage: harness gen <PROP> <quick|thorough> <seed> <out.ops> <stats.json>\n       harness replay <in.ops> <out.ops>");
    std::process::exit(2)
}

struct StderrLog;
impl log::Log for StderrLog {
    fn enabled(&self, _: &log::Metadata) -> bool {
        true
    }
    fn log(&self, r: &log::Record) {
        static T0: std::sync::OnceLock<std::time::Instant> = std::sync::OnceLock::new();
        eprintln!("[{:>8.3} {} {}] {}", T0.get_or_init(std::time::Instant::now).elapsed().as_secs_f64(), r.level(), r.target(), r.args());
    }
    fn flush(&self) {}
}
static LOGGER: StderrLog = StderrLog;

fn main() {
    interp::install_quiet_panic_hook();
    // debugging aid: VERIF_LOG=debug|info|trace prints the code's own log lines to stderr
    if let Ok(l) = std::env::var("VERIF_LOG") {
        let _ = log::set_logger(&LOGGER);
        log::set_max_level(l.parse().unwrap_or(log::LevelFilter::Info));
    }
    let args: Vec<String> = std::env::args().collect();
    if args.len() < 2 {
        usage();
    }
    match args[1].as_str() {
        "gen" => {
            if args.len() != 7 {
                usage();
            }
            let (prop, tier, seed) = (args[2].as_str(), args[3].as_str(), args[4].parse::<u64>().unwrap_or(1));
            let mut s = session::Session::new();
            watch::start(&args[5], &args[6]);
            let mut rng = util::Rng::new(seed);
            match prop {
                "C01" => c01::generate(&mut s, tier, &mut rng),
                "C08" => c08::generate(&mut s, tier, &mut rng),
                "C09" => c09::generate(&mut s, tier, &mut rng),
                "C15" => c15::generate(&mut s, tier, &mut rng),
                "C02" => c02::generate(&mut s, tier, &mut rng),
                "C03" => c03::generate(&mut s, tier, &mut rng),
                "C04" => c04::generate(&mut s, tier, &mut rng),
                "C05" => c05::generate(&mut s, tier, &mut rng),
                "C06" => c06::generate(&mut s, tier, &mut rng),
                "C07" => c07::generate(&mut s, tier, &mut rng),
                "C10" => c10::generate(&mut s, tier, &mut rng),
                "C11" => c11::generate(&mut s, tier, &mut rng),
                "C12" => c12::generate(&mut s, tier, &mut rng),
                "C13" => c13::generate(&mut s, tier, &mut rng),
                "C14" => c14::generate(&mut s, tier, &mut rng),
                "C16" => c16::generate(&mut s, tier, &mut rng),
                _ => {
                    eprintln!("unknown property {}", prop);
                    std::process::exit(2)
                }
            }
            s.write(&args[5], &args[6], json!({"seed": seed, "tier": tier})).expect("write");
        }
        "replay" => {
            if args.len() != 4 {
                usage();
            }
            let text = std::fs::read_to_string(&args[2]).expect("read ops");
            let mut s = session::Session::new();
            watch::start(&args[3], "/dev/null");
            for line in text.lines() {
                let line = line.trim();
                if line.is_empty() || line.starts_with('#') {
                    s.lines.push(line.to_owned());
                    continue;
                }
                let op = line.split(" => ").next().unwrap();
                s.run(op);
            }
            s.write(&args[3], "/dev/null", json!({})).expect("write");
        }
        _ => usage(),
    }
}
