//! helpers: deterministic PRNG, hex, canonical text forms
use std::net::{Ipv4Addr, Ipv6Addr, SocketAddr, SocketAddrV4, SocketAddrV6};

use octo_squirrel::protocol::address::Address;

#[derive(Clone)]
pub struct Rng(pub u64);

impl Rng {
    pub fn new(seed: u64) -> Self {
        Rng(seed ^ 0x9E37_79B9_7F4A_7C15)
    }
    pub fn next(&mut self) -> u64 {
        self.0 = self.0.wrapping_add(0x9E37_79B9_7F4A_7C15);
        let mut z = self.0;
        z = (z ^ (z >> 30)).wrapping_mul(0xBF58_476D_1CE4_E5B9);
        z = (z ^ (z >> 27)).wrapping_mul(0x94D0_49BB_1331_11EB);
        z ^ (z >> 31)
    }
    pub fn below(&mut self, n: u64) -> u64 {
        if n == 0 { 0 } else { self.next() % n }
    }
    pub fn range(&mut self, lo: u64, hi: u64) -> u64 {
        lo + self.below(hi - lo + 1)
    }
    pub fn chance(&mut self, num: u64, den: u64) -> bool {
        self.below(den) < num
    }
    pub fn bytes(&mut self, n: usize) -> Vec<u8> {
        (0..n).map(|_| self.next() as u8).collect()
    }
    pub fn pick<'a, T>(&mut self, xs: &'a [T]) -> &'a T {
        &xs[self.below(xs.len() as u64) as usize]
    }
    pub fn fork(&mut self) -> Rng {
        Rng(self.next())
    }
}

pub fn hex(b: &[u8]) -> String {
    if b.is_empty() {
        return "-".to_owned();
    }
    let mut s = String::with_capacity(b.len() * 2);
    for x in b {
        s.push_str(&format!("{:02x}", x));
    }
    s
}

pub fn unhex(s: &str) -> Option<Vec<u8>> {
    if s == "-" {
        return Some(vec![]);
    }
    if s.len() % 2 != 0 {
        return None;
    }
    let b = s.as_bytes();
    let mut out = Vec::with_capacity(s.len() / 2);
    for i in (0..b.len()).step_by(2) {
        let h = (b[i] as char).to_digit(16)?;
        let l = (b[i + 1] as char).to_digit(16)?;
        out.push((h * 16 + l) as u8);
    }
    Some(out)
}

/// `d:<hexname>:port` | `4:<8hex>:port` | `6:<32hex>:port`
pub fn show_addr(a: &Address) -> String {
    match a {
        Address::Domain(h, p) => format!("d:{}:{}", hex(h.as_bytes()), p),
        Address::Socket(SocketAddr::V4(v4)) => format!("4:{}:{}", hex(&v4.ip().octets()), v4.port()),
        Address::Socket(SocketAddr::V6(v6)) => format!("6:{}:{}", hex(&v6.ip().octets()), v6.port()),
    }
}

pub fn parse_addr(s: &str) -> Option<Address> {
    let mut it = s.split(':');
    let k = it.next()?;
    let h = unhex(it.next()?)?;
    let p: u16 = it.next()?.parse().ok()?;
    match k {
        // the repo itself builds domain strings with from_utf8_unchecked (socks5 address::decode)
        "d" => Some(Address::Domain(unsafe { String::from_utf8_unchecked(h) }, p)),
        "4" => {
            let a: [u8; 4] = h.try_into().ok()?;
            Some(Address::Socket(SocketAddr::V4(SocketAddrV4::new(Ipv4Addr::from(a), p))))
        }
        "6" => {
            let a: [u8; 16] = h.try_into().ok()?;
            Some(Address::Socket(SocketAddr::V6(SocketAddrV6::new(Ipv6Addr::from(a), p, 0, 0))))
        }
        _ => None,
    }
}

/// Destination buffers for the encoders under test.  `FramedWrite` hands an encoder its accumulating write buffer:
/// earlier frames still in it and whatever capacity happens to be left (8 KiB initially), so an encoder must neither
/// rely on spare capacity it has not reserved nor touch bytes already there.  Two of three calls get a buffer that
/// already holds bytes and has 0..=47 spare bytes; the result is what the encoder appended.
static DST_TURN: std::sync::atomic::AtomicUsize = std::sync::atomic::AtomicUsize::new(0);

pub fn dst_stream() -> (bytes::BytesMut, usize) {
    let t = DST_TURN.fetch_add(1, std::sync::atomic::Ordering::Relaxed);
    if t % 3 == 0 {
        return (bytes::BytesMut::new(), 0);
    }
    let spare = (t / 3) % 48;
    let mut b = bytes::BytesMut::with_capacity(8192);
    let p = b.capacity() - spare;
    b.resize(p, 0xEE);
    (b, p)
}

/// `UdpFramed` clears its write buffer before each datagram but keeps its capacity: empty, with 0..=47 bytes of capacity
pub fn dst_dgram() -> bytes::BytesMut {
    let t = DST_TURN.fetch_add(1, std::sync::atomic::Ordering::Relaxed);
    if t % 3 == 0 { bytes::BytesMut::new() } else { bytes::BytesMut::with_capacity((t / 3) % 48) }
}

pub fn dst_take(b: bytes::BytesMut, p: usize) -> anyhow::Result<Vec<u8>> {
    if b.len() < p || b[..p].iter().any(|x| *x != 0xEE) {
        anyhow::bail!("encoder touched bytes that were already in the write buffer");
    }
    Ok(b[p..].to_vec())
}
