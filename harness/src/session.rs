//! a generation / replay session: ops executed so far, case boundaries, statistics, oracle failures
use std::collections::{BTreeMap, HashSet};
use std::io::Write;

use serde_json::{Value, json};

use crate::interp::Interp;

pub struct Session {
    pub interp: Interp,
    pub lines: Vec<String>,
    pub case_start: usize,
    pub cases: u64,
    pub ops: u64,
    pub counters: BTreeMap<String, u64>,
    pub nontrivial: HashSet<u64>,
    pub samples: Vec<Value>,
    pub oracle_failures: Vec<Value>,
    uniq: u64,
}

fn fnv64(s: &[u8]) -> u64 {
    let mut h: u64 = 0xcbf29ce484222325;
    for b in s {
        h ^= *b as u64;
        h = h.wrapping_mul(0x100000001b3);
    }
    h
}

impl Session {
    pub fn new() -> Self {
        Session {
            interp: Interp::default(),
            lines: vec![],
            case_start: 0,
            cases: 0,
            ops: 0,
            counters: BTreeMap::new(),
            nontrivial: HashSet::new(),
            samples: vec![],
            oracle_failures: vec![],
            uniq: 0,
        }
    }

    /// fresh object name
    pub fn fresh(&mut self, prefix: &str) -> String {
        self.uniq += 1;
        format!("{}{}", prefix, self.uniq)
    }

    pub fn begin_case(&mut self, kind: &str) {
        self.cases += 1;
        self.case_start = self.lines.len();
        self.lines.push(format!("# case {} {}", self.cases, kind));
        crate::watch::begin_case(&format!("# case {} {}", self.cases, kind));
        self.interp.objs.clear();
        self.count(&format!("case:{}", kind));
    }

    /// a marker inside the current case (objects stay alive)
    pub fn subcase(&mut self, kind: &str) {
        self.lines.push(format!("# sub {}", kind));
        self.count(&format!("sub:{}", kind));
    }

    pub fn count(&mut self, key: &str) {
        *self.counters.entry(key.to_owned()).or_insert(0) += 1;
    }

    /// execute one op on the implementation, record `op => result`
    pub fn run(&mut self, op: &str) -> String {
        let r = self.interp.exec(op);
        self.ops += 1;
        let kind = op.split(' ').next().unwrap_or("");
        let rk = r.split(' ').next().unwrap_or("");
        let rk = if rk.chars().all(|c| c.is_ascii_hexdigit()) && rk.len() > 2 { "hex" } else { rk };
        self.count(&format!("op:{}:{}", kind, rk));
        self.lines.push(format!("{} => {}", op, r));
        r
    }

    pub fn case_ops(&self) -> Vec<String> {
        self.lines[self.case_start..].to_vec()
    }

    /// mark the current case as non-trivial (by the property's rule); distinctness = hash of its ops
    pub fn mark_nontrivial(&mut self) {
        let mut h = 0u64;
        for l in &self.lines[self.case_start + 1..] {
            h = h.wrapping_mul(31).wrapping_add(fnv64(l.as_bytes()));
        }
        self.nontrivial.insert(h);
        if self.samples.len() < 3 {
            let ops: Vec<&String> = self.lines[self.case_start..].iter().take(12).collect();
            self.samples.push(json!(ops));
        }
    }

    /// the property oracle failed on the implementation's own output
    pub fn oracle_fail(&mut self, key: &str, what: &str) {
        self.count(&format!("oracle-fail:{}", key));
        if self.oracle_failures.len() < 200 {
            self.oracle_failures.push(json!({"key": key, "what": what, "case": self.cases, "ops": self.case_ops()}));
        }
    }

    pub fn write(&self, ops_path: &str, stats_path: &str, extra: Value) -> std::io::Result<()> {
        let mut f = std::io::BufWriter::new(std::fs::File::create(ops_path)?);
        for l in &self.lines {
            writeln!(f, "{}", l)?;
        }
        f.flush()?;
        let stats = json!({
            "cases": self.cases,
            "ops": self.ops,
            "distinct_nontrivial": self.nontrivial.len(),
            "counters": self.counters,
            "samples": self.samples,
            "oracle_failures": self.oracle_failures,
            "extra": extra,
        });
        std::fs::write(stats_path, serde_json::to_string_pretty(&stats).unwrap())
    }
}
