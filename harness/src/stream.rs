//! real stream codecs under the real adapters (`FramedRead`, later `WebSocketFramed`), driven by ops
use std::pin::Pin;
use std::sync::Arc;
use std::time::{SystemTime, UNIX_EPOCH};

use anyhow::Result;
use bytes::BytesMut;
use futures::{FutureExt, Stream, StreamExt};
use octo_squirrel::codec::DatagramPacket;
use octo_squirrel::config::ServerConfig;
use octo_squirrel::protocol::address::Address;
use octo_squirrel_server::server::verif::template::{InboundIn, OutboundIn};
use tokio::io::{AsyncWriteExt, DuplexStream};
use tokio_util::codec::{Decoder, Encoder, FramedRead};

use crate::util::*;

pub fn now_secs() -> u64 {
    SystemTime::now().duration_since(UNIX_EPOCH).unwrap().as_secs()
}

/// what a decoder hands out, in one common shape
pub enum Common {
    Data(Vec<u8>),
    Connect(Vec<u8>, Address),
    Udp(Vec<u8>, Option<Address>),
}

/// a `BytesMut` item that is one datagram (VMess UDP client side), not a piece of a byte stream
pub struct Datagram(pub BytesMut);

impl From<BytesMut> for Common {
    fn from(b: BytesMut) -> Self {
        Common::Data(b.to_vec())
    }
}

impl From<InboundIn> for Common {
    fn from(i: InboundIn) -> Self {
        match i {
            InboundIn::ConnectTcp(b, a) => Common::Connect(b.to_vec(), a),
            InboundIn::RelayTcp(b) => Common::Data(b.to_vec()),
            InboundIn::RelayUdp(b, a) => Common::Udp(b.to_vec(), Some(a)),
        }
    }
}

impl From<DatagramPacket> for Common {
    fn from(p: DatagramPacket) -> Self {
        Common::Udp(p.0.to_vec(), Some(p.1))
    }
}

/// what an encoder is given
pub enum EncItem {
    Tcp(Vec<u8>),
    Udp(Vec<u8>, Address),
}

pub trait FromEnc: Sized {
    fn from_enc(e: EncItem) -> Option<Self>;
}
impl FromEnc for BytesMut {
    fn from_enc(e: EncItem) -> Option<Self> {
        match e {
            EncItem::Tcp(b) => Some(BytesMut::from(&b[..])),
            EncItem::Udp(b, _) => Some(BytesMut::from(&b[..])),
        }
    }
}
impl FromEnc for OutboundIn {
    fn from_enc(e: EncItem) -> Option<Self> {
        match e {
            EncItem::Tcp(b) => Some(OutboundIn::Tcp(BytesMut::from(&b[..]))),
            EncItem::Udp(b, a) => a.to_socket_addr().ok().map(|sa| OutboundIn::Udp((BytesMut::from(&b[..]), sa))),
        }
    }
}
impl FromEnc for DatagramPacket {
    fn from_enc(e: EncItem) -> Option<Self> {
        match e {
            EncItem::Tcp(_) => None,
            EncItem::Udp(b, a) => Some((BytesMut::from(&b[..]), a)),
        }
    }
}

/// canonical event text; adjacent data is merged so that item granularity does not matter
#[derive(Default)]
pub struct Events(pub Vec<String>, pub Vec<u8>);

impl Events {
    pub fn item(&mut self, c: Common) {
        match c {
            Common::Data(b) => {
                self.1.extend_from_slice(&b);
                match self.0.last_mut() {
                    Some(last) if last.starts_with("d:") || last.starts_with("c:") => {
                        let (head, data) = last.rsplit_once(':').unwrap();
                        let mut all = unhex(data).unwrap_or_default();
                        all.extend_from_slice(&b);
                        *last = format!("{}:{}", head, hex(&all));
                    }
                    _ => self.0.push(format!("d:{}", hex(&b))),
                }
            }
            Common::Connect(b, a) => {
                self.1.extend_from_slice(&b);
                self.0.push(format!("c:{}:{}", show_addr(&a).replace(':', "/"), hex(&b)))
            }
            Common::Udp(b, a) => self.0.push(format!("u:{}:{}", a.map(|a| show_addr(&a).replace(':', "/")).unwrap_or("-".into()), hex(&b))),
        }
    }
    pub fn text(&self) -> String {
        if self.0.is_empty() { "-".into() } else { self.0.join(" ") }
    }
}

pub trait StreamObj {
    fn encode(&mut self, item: EncItem) -> Result<Vec<u8>>;
    fn feed(&mut self, rt: &tokio::runtime::Runtime, piece: &[u8]) -> Events;
    fn eof(&mut self, rt: &tokio::runtime::Runtime) -> Events;
}

pub struct Framed<C, E>
where
    C: Decoder,
{
    fr: Pin<Box<FramedRead<DuplexStream, C>>>,
    tx: Option<DuplexStream>,
    done: bool,
    datagrams: bool,
    _e: std::marker::PhantomData<E>,
}

impl<C, E, I> Framed<C, E>
where
    C: Decoder<Item = I, Error = anyhow::Error> + Encoder<E, Error = anyhow::Error>,
    I: Into<Common>,
    E: FromEnc,
{
    pub fn new(codec: C) -> Self {
        let (tx, rx) = tokio::io::duplex(1 << 26);
        Framed { fr: Box::pin(FramedRead::new(rx, codec)), tx: Some(tx), done: false, datagrams: false, _e: std::marker::PhantomData }
    }

    /// every item of this decoder is one datagram
    pub fn datagrams(mut self) -> Self {
        self.datagrams = true;
        self
    }

    fn drain(&mut self, ev: &mut Events) {
        if self.done {
            return;
        }
        let mut errs = 0;
        loop {
            match self.fr.as_mut().next().now_or_never() {
                None => break, // Pending
                Some(None) => {
                    ev.0.push("end".into());
                    self.done = true;
                    break;
                }
                Some(Some(Ok(item))) => match item.into() {
                    Common::Data(b) if self.datagrams => ev.item(Common::Udp(b, None)),
                    other => ev.item(other),
                },
                Some(Some(Err(_))) => {
                    ev.0.push("err".into());
                    errs += 1;
                    if errs > 200 {
                        // a stream that reports an error on every poll never ends: whoever forwards it spins
                        ev.0.push("err-forever".into());
                        self.done = true;
                        break;
                    }
                }
            }
        }
    }
}

impl<C, E, I> StreamObj for Framed<C, E>
where
    C: Decoder<Item = I, Error = anyhow::Error> + Encoder<E, Error = anyhow::Error>,
    I: Into<Common>,
    E: FromEnc,
{
    fn encode(&mut self, item: EncItem) -> Result<Vec<u8>> {
        let Some(e) = E::from_enc(item) else { anyhow::bail!("bad item") };
        let (mut dst, p) = crate::util::dst_stream();
        self.fr.as_mut().get_mut().decoder_mut().encode(e, &mut dst)?;
        crate::util::dst_take(dst, p)
    }

    fn feed(&mut self, rt: &tokio::runtime::Runtime, piece: &[u8]) -> Events {
        let mut ev = Events::default();
        rt.block_on(async {
            if let Some(tx) = self.tx.as_mut() {
                tx.write_all(piece).await.unwrap();
            }
            self.drain(&mut ev);
        });
        ev
    }

    fn eof(&mut self, rt: &tokio::runtime::Runtime) -> Events {
        let mut ev = Events::default();
        rt.block_on(async {
            if let Some(mut tx) = self.tx.take() {
                let _ = tx.shutdown().await;
                drop(tx);
            }
            self.drain(&mut ev);
        });
        ev
    }
}

/// the same codec under the repo's own `WebSocketFramed`, over a real in-process WebSocket connection:
/// every piece is sent as one binary message by a real WebSocket client
pub struct WsFramed<C, E, I>
where
    C: Decoder,
{
    ws: Pin<Box<octo_squirrel::codec::WebSocketFramed<DuplexStream, C, E, I>>>,
    peer: Option<tokio_websockets::WebSocketStream<DuplexStream>>,
    done: bool,
}

impl<C, E, I> WsFramed<C, E, I>
where
    C: Decoder<Item = I, Error = anyhow::Error> + Encoder<E, Error = anyhow::Error> + Unpin,
    I: Into<Common> + std::fmt::Debug,
    E: FromEnc,
{
    pub fn new(rt: &tokio::runtime::Runtime, codec: C) -> Result<Self> {
        let (a, b) = tokio::io::duplex(1 << 26);
        let (client, server) = rt.block_on(async {
            let c = async { tokio_websockets::ClientBuilder::new().uri("ws://localhost/").map_err(|e| anyhow::anyhow!(e))?.connect_on(a).await.map_err(|e| anyhow::anyhow!(e)) };
            let s = async { tokio_websockets::ServerBuilder::new().accept(b).await.map_err(|e| anyhow::anyhow!(e)) };
            tokio::join!(c, s)
        });
        let (client, _) = client?;
        let (_, server) = server?;
        Ok(WsFramed { ws: Box::pin(octo_squirrel::codec::WebSocketFramed::new(server, codec)), peer: Some(client), done: false })
    }

    fn drain(&mut self, ev: &mut Events) {
        if self.done {
            return;
        }
        let mut errs = 0;
        loop {
            match self.ws.as_mut().next().now_or_never() {
                None => break,
                Some(None) => {
                    ev.0.push("end".into());
                    self.done = true;
                    break;
                }
                Some(Some(Ok(item))) => ev.item(item.into()),
                Some(Some(Err(_))) => {
                    ev.0.push("err".into());
                    errs += 1;
                    if errs > 200 {
                        ev.0.push("err-forever".into());
                        self.done = true;
                        break;
                    }
                }
            }
        }
    }
}

impl<C, E, I> StreamObj for WsFramed<C, E, I>
where
    C: Decoder<Item = I, Error = anyhow::Error> + Encoder<E, Error = anyhow::Error> + Unpin,
    I: Into<Common> + std::fmt::Debug,
    E: FromEnc,
{
    fn encode(&mut self, _item: EncItem) -> Result<Vec<u8>> {
        anyhow::bail!("encode through the websocket adapter is not driven by ops")
    }

    fn feed(&mut self, rt: &tokio::runtime::Runtime, piece: &[u8]) -> Events {
        use futures::SinkExt;
        let mut ev = Events::default();
        rt.block_on(async {
            if let Some(peer) = self.peer.as_mut() {
                let _ = peer.send(tokio_websockets::Message::binary(bytes::Bytes::copy_from_slice(piece))).await;
            }
            self.drain(&mut ev);
        });
        ev
    }

    fn eof(&mut self, rt: &tokio::runtime::Runtime) -> Events {
        use futures::SinkExt;
        let mut ev = Events::default();
        rt.block_on(async {
            if let Some(peer) = self.peer.take() {
                // the peer goes away without a closing handshake (the adapter under test is polled only by `drain`, so
                // waiting for its answer to a close frame would wait forever)
                drop(peer);
            }
            tokio::time::sleep(std::time::Duration::from_millis(5)).await;
            self.drain(&mut ev);
        });
        ev
    }
}

/// `ServerConfig<S>` can only be built by deserialising (it has a private marker field)
pub fn server_config<S: Clone + Default + serde::de::DeserializeOwned>(protocol: &str, cipher: &str, password: &str, users: &[(String, String)]) -> Result<ServerConfig<S>> {
    let users: Vec<serde_json::Value> = users.iter().map(|(n, p)| serde_json::json!({"name": n, "password": p})).collect();
    let v = serde_json::json!({"host": "127.0.0.1", "port": 1, "password": password, "protocol": protocol, "cipher": cipher, "user": users});
    Ok(serde_json::from_value(v)?)
}

pub fn parse_users(s: &str) -> Vec<(String, String)> {
    if s == "-" {
        return vec![];
    }
    s.split(';').filter_map(|u| u.split_once(':').map(|(a, b)| (a.to_owned(), b.to_owned()))).collect()
}

pub type Boxed = Box<dyn StreamObj>;

pub mod ss {
    use octo_squirrel::manager::shadowsocks::{ServerUser, ServerUserManager};
    use octo_squirrel_client::client::verif as cv;
    use octo_squirrel_server::server::verif as sv;

    use super::*;

    pub enum SsCtx {
        C16(cv::shadowsocks::tcp::ClientContext<16>),
        C32(cv::shadowsocks::tcp::ClientContext<32>),
        S16(sv::shadowsocks::ServerContext<16>),
        S32(sv::shadowsocks::ServerContext<32>),
    }

    fn is16(cipher: &str) -> bool {
        cipher == "aes-128-gcm" || cipher == "2022-blake3-aes-128-gcm"
    }

    pub fn client_ctx(cipher: &str, password: &str) -> Result<SsCtx> {
        let cfg: ServerConfig<cv::SslConfig> = server_config("shadowsocks", cipher, password, &[])?;
        Ok(if is16(cipher) { SsCtx::C16((&cfg).try_into()?) } else { SsCtx::C32((&cfg).try_into()?) })
    }

    pub fn server_ctx(cipher: &str, password: &str, users: &[(String, String)]) -> Result<SsCtx> {
        let cfg: ServerConfig<sv::SslConfig> = server_config("shadowsocks", cipher, password, users)?;
        fn mgr<const N: usize>(cfg: &ServerConfig<sv::SslConfig>) -> Result<Arc<ServerUserManager<N>>> {
            // as server/shadowsocks.rs::startup does
            let mut m: ServerUserManager<N> = ServerUserManager::new();
            for user in cfg.user.iter() {
                m.add_user(ServerUser::try_from(user).map_err(|e| anyhow::anyhow!(e))?);
            }
            Ok(Arc::new(m))
        }
        Ok(if is16(cipher) {
            SsCtx::S16(sv::shadowsocks::ServerContext::init(&cfg, mgr::<16>(&cfg)?)?)
        } else {
            SsCtx::S32(sv::shadowsocks::ServerContext::init(&cfg, mgr::<32>(&cfg)?)?)
        })
    }

    pub fn new_ws_server(rt: &tokio::runtime::Runtime, ctx: &SsCtx) -> Result<Boxed> {
        Ok(match ctx {
            SsCtx::S16(c) => Box::new(WsFramed::<_, OutboundIn, _>::new(rt, sv::shadowsocks::PayloadCodec::from(c))?),
            SsCtx::S32(c) => Box::new(WsFramed::<_, OutboundIn, _>::new(rt, sv::shadowsocks::PayloadCodec::from(c))?),
            _ => anyhow::bail!("server context expected"),
        })
    }

    /// `n` threads decode the same wire bytes through fresh codecs of one shared server context, released together
    pub fn race(ctx: &SsCtx, wire: &[u8], n: usize) -> String {
        use tokio_util::codec::Decoder;
        fn go<const N: usize>(c: &sv::shadowsocks::ServerContext<N>, wire: &[u8], n: usize) -> String {
            let barrier = std::sync::Barrier::new(n);
            let accepted = std::sync::atomic::AtomicUsize::new(0);
            let panicked = std::sync::atomic::AtomicUsize::new(0);
            std::thread::scope(|s| {
                for _ in 0..n {
                    s.spawn(|| {
                        let mut codec = sv::shadowsocks::PayloadCodec::from(c);
                        let mut src = BytesMut::from(wire);
                        barrier.wait();
                        match std::panic::catch_unwind(std::panic::AssertUnwindSafe(|| codec.decode(&mut src))) {
                            Ok(Ok(Some(_))) => {
                                accepted.fetch_add(1, std::sync::atomic::Ordering::SeqCst);
                            }
                            Ok(_) => (),
                            Err(_) => {
                                panicked.fetch_add(1, std::sync::atomic::Ordering::SeqCst);
                            }
                        }
                    });
                }
            });
            let p = panicked.into_inner();
            format!("accepted={} of={}{}", accepted.into_inner(), n, if p > 0 { format!(" panics={}", p) } else { String::new() })
        }
        match ctx {
            SsCtx::S16(c) => go(c, wire, n),
            SsCtx::S32(c) => go(c, wire, n),
            _ => "bad-op".into(),
        }
    }

    pub fn new_stream(ctx: &SsCtx, addr: Option<Address>) -> Result<Boxed> {
        Ok(match ctx {
            SsCtx::C16(c) => Box::new(Framed::<_, BytesMut>::new(cv::shadowsocks::tcp::new_payload_codec(&addr.ok_or(anyhow::anyhow!("addr"))?, c.clone())?)),
            SsCtx::C32(c) => Box::new(Framed::<_, BytesMut>::new(cv::shadowsocks::tcp::new_payload_codec(&addr.ok_or(anyhow::anyhow!("addr"))?, c.clone())?)),
            SsCtx::S16(c) => Box::new(Framed::<_, OutboundIn>::new(sv::shadowsocks::PayloadCodec::from(c))),
            SsCtx::S32(c) => Box::new(Framed::<_, OutboundIn>::new(sv::shadowsocks::PayloadCodec::from(c))),
        })
    }
}

pub mod vm {
    use octo_squirrel::codec::aead::CipherKind;
    use octo_squirrel_client::client::verif as cv;
    use octo_squirrel_server::server::verif as sv;

    use super::*;

    pub fn client(uuid: &str, cipher: &str, udp: bool, addr: &Address) -> Result<Boxed> {
        let cfg: ServerConfig<cv::SslConfig> = server_config("vmess", cipher, uuid, &[])?;
        let codec = if udp { cv::vmess::udp::new_codec(addr, &cfg)? } else { cv::vmess::tcp::new_codec(addr, (cfg.cipher, cfg.password.clone()))? };
        let _ = CipherKind::Aes128Gcm;
        Ok(if udp { Box::new(Framed::<_, BytesMut>::new(codec).datagrams()) } else { Box::new(Framed::<_, BytesMut>::new(codec)) })
    }

    pub fn server(users: &[(String, String)]) -> Result<Boxed> {
        let cfg: ServerConfig<sv::SslConfig> = server_config("vmess", "aes-128-gcm", "-", users)?;
        Ok(Box::new(Framed::<_, OutboundIn>::new(sv::vmess::new_codec(&cfg)?)))
    }

    pub fn ws_server(rt: &tokio::runtime::Runtime, users: &[(String, String)]) -> Result<Boxed> {
        let cfg: ServerConfig<sv::SslConfig> = server_config("vmess", "aes-128-gcm", "-", users)?;
        Ok(Box::new(WsFramed::<_, OutboundIn, _>::new(rt, sv::vmess::new_codec(&cfg)?)?))
    }
}

pub mod tj {
    use octo_squirrel_client::client::verif as cv;
    use octo_squirrel_server::server::verif as sv;

    use super::*;

    pub fn client(password: &str, udp: bool, addr: &Address) -> Result<Boxed> {
        Ok(if udp {
            Box::new(Framed::<_, DatagramPacket>::new(cv::trojan::udp::ClientCodec::new(password.as_bytes(), 3, addr.clone())))
        } else {
            Box::new(Framed::<_, BytesMut>::new(cv::trojan::tcp::new_codec(addr, password.to_owned())?))
        })
    }

    pub fn server(password: &str) -> Result<Boxed> {
        let cfg: ServerConfig<sv::SslConfig> = server_config("trojan", "aes-128-gcm", password, &[])?;
        Ok(Box::new(Framed::<_, OutboundIn>::new(sv::trojan::new_codec(&cfg)?)))
    }

    pub fn ws_server(rt: &tokio::runtime::Runtime, password: &str) -> Result<Boxed> {
        let cfg: ServerConfig<sv::SslConfig> = server_config("trojan", "aes-128-gcm", password, &[])?;
        Ok(Box::new(WsFramed::<_, OutboundIn, _>::new(rt, sv::trojan::new_codec(&cfg)?)?))
    }
}
