//! C12: freshness of per-session randomness and exactness of the nonce sequence — many sessions of
//! every protocol; salts / auth ids / connection nonces / session keys must be pairwise distinct and
//! have no constant bit; every stream must parse under the Spec's nonce sequence 0,1,2,…
use std::collections::HashSet;

use crate::c02::timed;
use crate::c04::random_uuid;
use crate::craft::{Crafter, field};
use crate::gen_ss::*;
use crate::session::Session;
use crate::util::*;

fn check_fresh(s: &mut Session, key: &str, what: &str, vals: &[Vec<u8>]) {
    let set: HashSet<&Vec<u8>> = vals.iter().collect();
    if set.len() != vals.len() {
        s.oracle_fail(&format!("{}:repeat", key), &format!("{} repeated across {} sessions", what, vals.len()));
        return;
    }
    if vals.len() >= 64 && !vals[0].is_empty() {
        let n = vals[0].len();
        for byte in 0..n {
            for bit in 0..8 {
                let first = vals[0][byte] >> bit & 1;
                if vals.iter().all(|v| v.len() == n && (v[byte] >> bit & 1) == first) {
                    s.oracle_fail(&format!("{}:constant-bit", key), &format!("bit {} of byte {} of {} is constant over {} sessions", bit, byte, what, vals.len()));
                    return;
                }
            }
        }
    }
}

/// the two nonce generators called directly: call number n hands out exactly the n-th value of the
/// sequence the specifications define (Shadowsocks: 12-byte little-endian counter from 0; VMess: 16-bit
/// big-endian counter over the first two IV bytes, wrapping like a uint16), also far beyond 2^16 calls
pub fn nonce_generator_cases(s: &mut Session, tier: &str, rng: &mut Rng) {
    s.begin_case("nonce-generators");
    let mut ns: Vec<u64> = vec![0, 1, 2, 254, 255, 256, 257, 65534, 65535, 65536, 65537, 65538, 131071, 131072, 131073];
    for _ in 0..if tier == "thorough" { 40 } else { 6 } {
        ns.push(rng.below(if tier == "thorough" { 3_000_000 } else { 300_000 }));
    }
    let iv = rng.bytes(16);
        // the counter at every carry boundary of its 96 bits (reached through the verification hook)
    for k in (1..=12usize).chain(1..=12) {
        {
            let mut state = vec![0xffu8; k];
            state.extend(rng.bytes(12 - k));
            if k < 12 && state[k] == 0xff {
                state[k] = 0x7f;
            }
            let r = s.run(&format!("nonce.inc.at {}", hex(&state)));
            let v = state.iter().rev().fold(0u128, |a, b| (a << 8) | *b as u128).wrapping_add(1) & ((1u128 << 96) - 1);
            let want: Vec<u8> = (0..12).map(|i| (v >> (8 * i)) as u8).collect();
            if r != hex(&want) {
                s.oracle_fail("nonce:increasing", &format!("after {} the increasing generator hands out {} (a carry out of byte {} is lost or misplaced)", hex(&state), r, k - 1));
            }
        }
    }
    for n in ns {
        let r = s.run(&format!("nonce.cnt {} {}", hex(&iv), n));
        let mut want = ((n % 65536) as u16).to_be_bytes().to_vec();
        want.extend_from_slice(&iv[2..12]);
        if r != hex(&want) {
            s.oracle_fail("nonce:counting", &format!("call {} of the counting generator hands out {} instead of count {} over the IV", n, r, n % 65536));
        }
        let r = s.run(&format!("nonce.inc {}", n));
        let mut want = n.to_le_bytes().to_vec();
        want.extend_from_slice(&[0, 0, 0, 0]);
        if r != hex(&want) {
            s.oracle_fail("nonce:increasing", &format!("call {} of the increasing generator hands out {}", n, r));
        }
    }
    s.mark_nontrivial();
}

/// every udp session draws a fresh, unpredictable session id: 96 client sessions created in a row (all inside a second or
/// two) - no id repeats and no bit of the 64 is the same in all of them (an id built from the clock fails this at once;
/// 96 honest ids fail it with probability 64 * 2^-95)
pub fn session_id_freshness_cases(s: &mut Session, rng: &mut Rng) {
    for cipher in CIPHERS {
        if !is2022(cipher) {
            continue;
        }
        s.begin_case(&format!("udp-session-ids:{}", cipher));
        let cfg = random_cfg(rng, cipher, false);
        let us = s.fresh("us");
        s.run(&format!("ssu.server {} cipher={} password={} users=-", us, cipher, cfg.server_password));
        let mut ids: Vec<Vec<u8>> = vec![];
        for _ in 0..96 {
            let uc = s.fresh("uc");
            s.run(&format!("ssu.client {} cipher={} password={}", uc, cipher, cfg.client_password));
            let w = timed(s, &format!("ssu.cenc {} addr=4:01020304:53 payload={}", uc, hex(&rng.bytes(4))));
            let r = timed(s, &format!("ssu.sdec {} {}", us, w));
            let Some(id) = field(&r, "csid").and_then(|x| x.parse::<u64>().ok()) else {
                s.oracle_fail(&format!("udp-session-ids:{}", cipher), &format!("the first datagram of a fresh session is not accepted: {}", &r[..r.len().min(40)]));
                return;
            };
            ids.push(id.to_be_bytes().to_vec());
        }
        check_fresh(s, &format!("udp-session-ids:{}", cipher), "the client session id", &ids);
        s.mark_nontrivial();
    }
}

/// a udp session at the end of its packet-id space: ids stay distinct and the session ends (encode refuses)
/// rather than reuse one — reached through the client crate's verification hook that sets the counter
pub fn packet_id_exhaustion_cases(s: &mut Session, rng: &mut Rng) {
    for cipher in CIPHERS {
        if !is2022(cipher) {
            continue;
        }
        s.begin_case(&format!("udp-id-exhaustion:{}", cipher));
        let cfg = random_cfg(rng, cipher, false);
        let (uc, us) = (s.fresh("uc"), s.fresh("us"));
        s.run(&format!("ssu.client {} cipher={} password={}", uc, cipher, cfg.client_password));
        s.run(&format!("ssu.server {} cipher={} password={} users=-", us, cipher, cfg.server_password));
        let mut seen: Vec<(String, String)> = vec![];
        let mut ended = false;
        for i in 0..8 {
            if i == 2 {
                s.run(&format!("ssu.setid {} pid={}", uc, u64::MAX - 2));
            }
            let w = timed(s, &format!("ssu.cenc {} addr={} payload={}", uc, random_addr(rng), hex(&rng.bytes(6))));
            if w == "err" {
                ended = true;
                continue;
            }
            if ended {
                s.oracle_fail(&format!("udp-ids:{}:resumed", cipher), "a session that had exhausted its packet ids sent again");
                break;
            }
            let r = timed(s, &format!("ssu.sdec {} {}", us, w));
            let id = (field(&r, "csid").unwrap_or("?").to_owned(), field(&r, "pid").unwrap_or("?").to_owned());
            if seen.contains(&id) {
                s.oracle_fail(&format!("udp-ids:{}:reused", cipher), &format!("packet id {} of session {} was used for two datagrams", id.1, id.0));
                break;
            }
            seen.push(id);
        }
        if !ended {
            s.oracle_fail(&format!("udp-ids:{}:no-end", cipher), "the session did not end at the end of the packet-id space");
        }
        s.mark_nontrivial();
        // a busy sender that gets a few replies: the ids of what it sends go on strictly increasing whatever ids the replies carry
        s.begin_case(&format!("udp-ids-with-replies:{}", cipher));
        let (uc, us) = (s.fresh("uc"), s.fresh("us"));
        s.run(&format!("ssu.client {} cipher={} password={}", uc, cipher, cfg.client_password));
        s.run(&format!("ssu.server {} cipher={} password={} users=-", us, cipher, cfg.server_password));
        let mut last: Option<u64> = None;
        let mut csid = 0u64;
        for i in 0..14 {
            let w = timed(s, &format!("ssu.cenc {} addr={} payload={}", uc, random_addr(rng), hex(&rng.bytes(5))));
            let r = timed(s, &format!("ssu.sdec {} {}", us, w));
            let pid: u64 = field(&r, "pid").and_then(|x| x.parse().ok()).unwrap_or(0);
            csid = field(&r, "csid").and_then(|x| x.parse().ok()).unwrap_or(csid);
            if let Some(l) = last {
                if pid <= l {
                    s.oracle_fail(&format!("udp-ids:{}:not-increasing", cipher), &format!("datagram {} of a session went out with packet id {} after {}", i, pid, l));
                    break;
                }
            }
            last = Some(pid);
            if i % 3 == 2 {
                // a reply whose own (server side) packet id is small / equal / far ahead
                let spid = [1u64, pid, 2, 1 << 33][(i / 3) % 4];
                let w = timed(s, &format!("ssu.senc {} csid={} ssid=77 pid={} addr=4:01020304:53 payload=aa", us, csid, spid));
                timed(s, &format!("ssu.cdec {} {}", uc, w));
            }
        }
        s.mark_nontrivial();
    }
}

/// every udp association of the real server draws its own server session id: replies to different client
/// sessions never share a (server session id, packet id) pair (= never a (key, nonce) pair for the 2022 AES ciphers)
fn server_session_cases(s: &mut Session, rng: &mut Rng) {
    use crate::e2e_gen::*;
    for cfg in protocol_ciphers(rng) {
        if cfg.protocol != "shadowsocks" || !cfg.cipher.starts_with("2022") || cfg.users != "-" {
            continue;
        }
        s.begin_case(&format!("server-session-ids:{}", cfg.cipher));
        let Some(w) = cfg.start(s, false, 2) else { continue };
        let r = s.run(&format!("e2e.ssid {} sessions=3 per=2", w));
        if r != "distinct" {
            s.oracle_fail(&format!("udp-server-ids:{}", cfg.cipher), &format!("replies to different client sessions share server session id / packet id: `{}`", r));
        }
        s.run(&format!("e2e.stop {}", w));
        s.mark_nontrivial();
    }
}

pub fn generate(s: &mut Session, tier: &str, rng: &mut Rng) {
    session_id_freshness_cases(s, rng);
    let Some(mut cr) = Crafter::new() else {
        s.begin_case("no-driver");
        s.oracle_fail("craft", "the Lean driver could not be started for Spec-side parsing");
        return;
    };
    nonce_generator_cases(s, tier, rng);
    packet_id_exhaustion_cases(s, rng);
    server_session_cases(s, rng);
    let sessions = if tier == "thorough" { 2000 } else { 96 };
    for cipher in CIPHERS {
        s.begin_case(&format!("ss:{}", cipher));
        let cfg = random_cfg(rng, cipher, false);
        let n = key_len(cipher);
        let (cc, sc) = (s.fresh("cc"), s.fresh("sc"));
        s.run(&format!("ss.cctx {} cipher={} password={}", cc, cipher, cfg.client_password));
        s.run(&format!("ss.sctx {} cipher={} password={} users=-", sc, cipher, cfg.server_password));
        let (mut csalts, mut ssalts) = (vec![], vec![]);
        for i in 0..sessions {
            let (c, sv) = (s.fresh("c"), s.fresh("s"));
            s.run(&format!("ss.new {} {} {}", c, cc, random_addr(rng)));
            let writes: Vec<Vec<u8>> = (0..3).map(|_| rng.bytes(5)).collect();
            let Some(w) = encode_all(s, &c, &writes) else { return };
            csalts.push(w[..n].to_vec());
            if i < 8 {
                // the whole stream parses under nonces 0,1,2,…: no nonce is skipped or reused
                let q = if is2022(cipher) {
                    format!("spec.parse.ss2022 cipher={} password={} eih=0 fixedlen=11 wire={}", cipher, cfg.client_password, hex(&w))
                } else {
                    format!("spec.parse.sslegacy cipher={} password={} wire={}", cipher, cfg.client_password, hex(&w))
                };
                let a = cr.ask(&q);
                s.count("spec:parse");
                if !a.starts_with("ok") {
                    s.oracle_fail(&format!("ss:{}:nonce-sequence", cipher), "a stream of several writes does not parse under the nonce sequence 0,1,2,…");
                    return;
                }
                s.run(&format!("ss.new {} {} -", sv, sc));
                let d = feed_all(s, &sv, &[w], false);
                if d.err {
                    return;
                }
                if let Some(r) = encode_all(s, &sv, &[rng.bytes(9), rng.bytes(9)]) {
                    ssalts.push(r[..n].to_vec());
                    if r[..n] == csalts[csalts.len() - 1][..] {
                        s.oracle_fail(&format!("ss:{}:direction-salt", cipher), "the response reuses the request's salt (same sub-key in both directions)");
                    }
                }
            }
        }
        check_fresh(s, &format!("ss:{}", cipher), "the client salt", &csalts);
        check_fresh(s, &format!("ss:{}", cipher), "the server salt", &ssalts);
        s.mark_nontrivial();
    }
    s.begin_case("vmess");
    let uuid = random_uuid(rng);
    let (mut aids, mut nonces, mut ivs, mut keys) = (vec![], vec![], vec![], vec![]);
    for i in 0..sessions {
        let c = s.fresh("c");
        s.run(&format!("vm.client {} uuid={} cipher=aes-128-gcm cmd=tcp addr={}", c, uuid, random_addr(rng)));
        let Some(w) = encode_all(s, &c, &[rng.bytes(4), rng.bytes(4)]) else { return };
        aids.push(w[..16].to_vec());
        nonces.push(w[34..42].to_vec());
        if i < 64 {
            let a = cr.ask(&format!("spec.parse.vm uuid={} cipher=aes-128-gcm wire={}", uuid, hex(&w)));
            s.count("spec:parse");
            let instr = unhex(field(&a, "instr").unwrap_or("-")).unwrap_or_default();
            if instr.len() < 41 || field(&a, "chunks") == Some("reject") {
                s.oracle_fail("vmess:nonce-sequence", "a request of two writes does not parse under counts 0,1,…");
                return;
            }
            ivs.push(instr[1..17].to_vec());
            keys.push(instr[17..33].to_vec());
        }
    }
    // both directions of one session: "no two ciphertexts under one key share a nonce" also across directions.  The payload
    // ciphers have a key and IV per direction; the length cipher of the AuthenticatedLength option is looked at here: the
    // i-th size field of the request and the i-th size field of the response are opened with one and the same key and nonce
    s.begin_case("vmess:directions");
    for cipher in ["aes-128-gcm", "chacha20-poly1305"] {
        let (c, sv) = (s.fresh("c"), s.fresh("s"));
        s.run(&format!("vm.client {} uuid={} cipher={} cmd=tcp addr={}", c, uuid, cipher, random_addr(rng)));
        s.run(&format!("vm.server {} users=u:{}", sv, uuid));
        let Some(req) = encode_all(s, &c, &[rng.bytes(20)]) else { return };
        let d = feed_all(s, &sv, &[req.clone()], false);
        if d.err || d.connect.is_none() {
            continue;
        }
        let Some(resp) = encode_all(s, &sv, &[rng.bytes(33)]) else { return };
        let a = cr.ask(&format!("spec.parse.vm uuid={} cipher={} wire={}", uuid, cipher, hex(&req)));
        let instr = unhex(field(&a, "instr").unwrap_or("-")).unwrap_or_default();
        if instr.len() < 41 {
            continue;
        }
        let (iv, key) = (instr[1..17].to_vec(), instr[17..33].to_vec());
        // request: auth id 16, sealed length 18, nonce 8, sealed instruction; response: sealed length 18, sealed header 4 + 16
        let req_size = 16 + 18 + 8 + instr.len() + 16;
        let resp_size = 18 + 4 + 16;
        if req.len() < req_size + 18 || resp.len() < resp_size + 18 {
            continue;
        }
        let open = |cr: &mut Crafter, ct: &[u8]| cr.ask(&format!("spec.vm.lenopen cipher={} key={} iv={} count=0 ct={}", cipher, hex(&key), hex(&iv), hex(ct)));
        let (r1, r2) = (open(&mut cr, &req[req_size..req_size + 18]), open(&mut cr, &resp[resp_size..resp_size + 18]));
        s.count("spec:lenopen");
        if r1.starts_with("ok") && r2.starts_with("ok") && req[req_size..req_size + 18] != resp[resp_size..resp_size + 18] {
            s.oracle_fail("vmess:authlen-key-nonce-shared-by-directions", &format!("{}: the first size field of the request ({}) and the first size field of the response ({}) are two ciphertexts under the same key KDF(request body key, \"auth_len\") and the same nonce (request body IV, count 0)", cipher, r1, r2));
        }
    }
    s.mark_nontrivial();
    check_fresh(s, "vmess", "the auth id", &aids);
    check_fresh(s, "vmess", "the connection nonce", &nonces);
    check_fresh(s, "vmess", "the body IV", &ivs);
    check_fresh(s, "vmess", "the body key", &keys);
    s.mark_nontrivial();
}
