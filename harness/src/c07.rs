//! C07: no input can crash a decoder — truncations (+EOF) at every point, junk, bit flips, splits,
//! cross-protocol handshakes, for every network-facing decoder
use crate::c04::random_uuid;
use crate::c02::timed;
use crate::craft::Crafter;
use crate::gen_ss::*;
use crate::session::Session;
use crate::util::*;

/// a decoder under test: how to create a fresh instance and (optionally) a valid stream for it
#[derive(Clone)]
enum Target {
    SsServer { cipher: &'static str, users: bool },
    SsClient { cipher: &'static str },
    VmServer,
    VmClient { cipher: &'static str, udp: bool },
    TjServer { udp: bool },
    TjClient { udp: bool },
}

struct Fixture {
    target: Target,
    cfg: Option<SsCfg>,
    uuid: String,
    pw: String,
    addr: String,
}

impl Fixture {
    fn new(rng: &mut Rng, target: Target) -> Self {
        let cfg = match &target {
            Target::SsServer { cipher, users } => Some(random_cfg(rng, cipher, *users)),
            Target::SsClient { cipher } => Some(random_cfg(rng, cipher, false)),
            _ => None,
        };
        let len = rng.range(1, 20) as usize;
        let pw: String = (0..len).map(|_| *rng.pick(b"abcdefghijklmnopqrstuvwxyz0123456789") as char).collect();
        Fixture { target, cfg, uuid: random_uuid(rng), pw, addr: random_addr(rng) }
    }

    /// fresh decoder object; for client-side decoders the codec first encodes a request
    fn fresh(&self, s: &mut Session) -> Option<String> {
        let o = s.fresh("o");
        match &self.target {
            Target::SsServer { .. } => {
                let cfg = self.cfg.as_ref().unwrap();
                let sc = s.fresh("sc");
                s.run(&format!("ss.sctx {} cipher={} password={} users={}", sc, cfg.cipher, cfg.server_password, cfg.users));
                s.run(&format!("ss.new {} {} -", o, sc));
            }
            Target::SsClient { .. } => {
                let cfg = self.cfg.as_ref().unwrap();
                let cc = s.fresh("cc");
                s.run(&format!("ss.cctx {} cipher={} password={}", cc, cfg.cipher, cfg.client_password));
                s.run(&format!("ss.new {} {} {}", o, cc, self.addr));
                encode_all(s, &o, &[b"GET / HTTP/1.1\r\n\r\n".to_vec()])?;
            }
            Target::VmServer => {
                s.run(&format!("vm.server {} users=a:{}", o, self.uuid));
            }
            Target::VmClient { cipher, udp } => {
                s.run(&format!("vm.client {} uuid={} cipher={} cmd={} addr={}", o, self.uuid, cipher, if *udp { "udp" } else { "tcp" }, self.addr));
                encode_all(s, &o, &[b"hello".to_vec()])?;
            }
            Target::TjServer { .. } => {
                s.run(&format!("tj.server {} password={}", o, self.pw));
            }
            Target::TjClient { udp } => {
                s.run(&format!("tj.client {} password={} cmd={} addr={}", o, self.pw, if *udp { "udp" } else { "tcp" }, self.addr));
            }
        }
        Some(o)
    }

    /// a valid stream towards this decoder, built with the real peer codec
    fn valid_stream(&self, s: &mut Session, rng: &mut Rng) -> Option<Vec<u8>> {
        let n = rng.range(1, 60) as usize;
        let payload = rng.bytes(n);
        match &self.target {
            Target::SsServer { .. } => {
                let cfg = self.cfg.as_ref().unwrap();
                let (cc, c) = (s.fresh("cc"), s.fresh("c"));
                s.run(&format!("ss.cctx {} cipher={} password={}", cc, cfg.cipher, cfg.client_password));
                s.run(&format!("ss.new {} {} {}", c, cc, self.addr));
                encode_all(s, &c, &[payload, b"x".to_vec()])
            }
            Target::VmServer => {
                let c = s.fresh("c");
                let udp = rng.chance(1, 3);
                s.run(&format!("vm.client {} uuid={} cipher={} cmd={} addr={}", c, self.uuid, rng.pick(&["aes-128-gcm", "chacha20-poly1305"]), if udp { "udp" } else { "tcp" }, self.addr));
                encode_all(s, &c, &[payload, b"x".to_vec()])
            }
            Target::TjServer { udp } => {
                let c = s.fresh("c");
                let udp = *udp;
                s.run(&format!("tj.client {} password={} cmd={} addr={}", c, self.pw, if udp { "udp" } else { "tcp" }, self.addr));
                if udp {
                    let mut w = vec![];
                    for _ in 0..2 {
                        let r = s.run(&format!("st.enc {} {} to={}", c, hex(&payload), random_addr(rng)));
                        w.extend(unhex(&r)?);
                    }
                    Some(w)
                } else {
                    encode_all(s, &c, &[payload])
                }
            }
            // client-side decoders: a well-formed response needs the peer's state; junk and mutations
            // of *requests* reflected back are what an attacker can send without the key
            _ => None,
        }
    }
}

fn run_input(s: &mut Session, fx: &Fixture, key: &str, pieces: &[Vec<u8>], eof: bool) {
    let Some(o) = fx.fresh(s) else { return };
    let d = feed_all(s, &o, pieces, eof);
    if d.panic {
        s.oracle_fail(&format!("panic:{}", key), "decoder panicked on network input");
    }
}

fn target_key(t: &Target) -> String {
    match t {
        Target::SsServer { cipher, users } => format!("ss-server:{}{}", cipher, if *users { ":eih" } else { "" }),
        Target::SsClient { cipher } => format!("ss-client:{}", cipher),
        Target::VmServer => "vmess-server".into(),
        Target::VmClient { cipher, udp } => format!("vmess-client:{}{}", cipher, if *udp { ":udp" } else { "" }),
        Target::TjServer { udp } => format!("trojan-server{}", if *udp { ":udp" } else { "" }),
        Target::TjClient { udp } => format!("trojan-client{}", if *udp { ":udp" } else { "" }),
    }
}

/// Shadowsocks datagram decoders (server and client side): junk, every truncation and bit flips of a valid
/// datagram, and *authenticated* datagrams (sealed under the right key by the Spec-side crafter) whose
/// plaintext is cut at every position or carries inconsistent lengths — none may panic
fn udp_cases(s: &mut Session, cr: &mut Crafter, rng: &mut Rng, thorough: bool) {
    for cipher in CIPHERS {
        s.begin_case(&format!("ss-udp:{}", cipher));
        let cfg = random_cfg(rng, cipher, false);
        let (uc, us) = (s.fresh("uc"), s.fresh("us"));
        s.run(&format!("ssu.client {} cipher={} password={}", uc, cipher, cfg.client_password));
        s.run(&format!("ssu.server {} cipher={} password={} users=-", us, cipher, cfg.server_password));
        let key = format!("ss-udp:{}", cipher);
        let mut offer = |s: &mut Session, w: &[u8]| {
            for (op, o) in [("ssu.sdec", &us), ("ssu.cdec", &uc)] {
                let r = timed(s, &format!("{} {} {}", op, o, hex(w)));
                if r.starts_with("panic") {
                    s.oracle_fail(&format!("panic:{}:{}", key, op), "datagram decoder panicked on network input");
                }
            }
        };
        // junk and a valid datagram cut / flipped everywhere
        for l in [0usize, 1, 2, 15, 16, 17, 31, 32, 33, 40, 41, 42, 43, 57, 58, 59, 60, 75, 76, 77, 200] {
            let j = rng.bytes(l);
            offer(s, &j);
        }
        let valid = unhex(&timed(s, &format!("ssu.cenc {} addr={} payload={}", uc, random_addr(rng), hex(&rng.bytes(9))))).unwrap_or_default();
        for k in 0..valid.len() {
            offer(s, &valid[..k]);
        }
        for _ in 0..if thorough { 200 } else { 30 } {
            let mut m = valid.clone();
            if m.is_empty() {
                break;
            }
            let i = rng.below(m.len() as u64) as usize;
            m[i] ^= 1 << rng.below(8);
            offer(s, &m);
        }
        // authenticated but malformed plaintexts
        let now = crate::stream::now_secs();
        let n = key_len(cipher);
        let addrs = ["4:01020304:53".to_owned(), "6:20010db8000000000000000000000001:53".to_owned(), format!("d:{}:53", hex(b"dns.example.org")), format!("d:{}:443", hex(&vec![b'a'; 255]))];
        let mut bodies: Vec<Vec<u8>> = vec![];
        for a in &addrs {
            let enc = unhex(&s.run(&format!("addr.enc s5 {}", a))).unwrap_or_default();
            let full = [enc.clone(), b"payload".to_vec()].concat();
            let step = if thorough || full.len() < 40 { 1 } else { 37 };
            for k in (0..=enc.len().min(full.len())).step_by(step).chain([1usize, 2, 3]) {
                bodies.push(full[..k.min(full.len())].to_vec());
            }
        }
        bodies.push(vec![3]);
        bodies.push(vec![3, 0]);
        bodies.push(vec![3, 255]);
        bodies.push(vec![9, 1, 2, 3]);
        let mut asked = 0;
        for tail in bodies {
            let variants: Vec<Vec<u8>> = if is2022(cipher) {
                let mut v = vec![];
                for (ty, extra) in [(0u8, vec![]), (1u8, 7u64.to_be_bytes().to_vec())] {
                    for (padlen, pad) in [(0u16, 0usize), (5, 5), (900, 3), (65535, 0)] {
                        v.push([vec![ty], now.to_be_bytes().to_vec(), extra.clone(), padlen.to_be_bytes().to_vec(), vec![0u8; pad], tail.clone()].concat());
                    }
                }
                // the fixed part itself cut short
                let whole = v[0].clone();
                for k in [0usize, 1, 5, 9, 10] {
                    v.push(whole[..k.min(whole.len())].to_vec());
                }
                v
            } else {
                vec![tail.clone()]
            };
            for body in variants {
                let rnd = if is2022(cipher) { rng.bytes(24) } else { rng.bytes(n) };
                let w = cr.ask(&format!("craft.ssu cipher={} password={} sid={} pid={} rnd={} body={}", cipher, cfg.server_password, rng.below(1 << 40), 1 + rng.below(1000), hex(&rnd), if body.is_empty() { "-".to_owned() } else { hex(&body) }));
                asked += 1;
                s.count("craft:ssu");
                let Some(w) = unhex(&w) else {
                    s.oracle_fail("craft", "the Spec-side crafter did not build a datagram");
                    return;
                };
                offer(s, &w);
            }
        }
        s.count(&format!("crafted:{}", if asked > 0 { "some" } else { "none" }));
        s.mark_nontrivial();
    }
}

/// VMess server, body chunk headers as a third-party client (or a tamperer of the unauthenticated size field) may
/// send them: for every option mask, sizes from 0 upwards — smaller than the padding, smaller than the tag, exact
fn vmess_forged_sizes(s: &mut Session, cr: &mut Crafter, rng: &mut Rng, thorough: bool) {
    for sec in [3u32, 4] {
        for mask in [0x01u32, 0x05, 0x09, 0x0d, 0x11, 0x1d] {
            s.begin_case(&format!("vmess-server:forged-size:mask{:02x}:sec{}", mask, sec));
            let uuid = random_uuid(rng);
            let addr = random_addr(rng);
            let vm_target = unhex(s.run(&format!("addr.enc vm {}", addr)).strip_prefix("ok ").unwrap_or("-")).unwrap_or_default();
            let sizes: Vec<usize> = if thorough { (0..=90).chain([2048, 2049, 16383, 65535]).collect() } else { vec![0, 1, 2, 7, 15, 16, 17, 18, 31, 33, 47, 62, 63, 64, 79, 80, 81, 65535] };
            for n in sizes {
                let sv = s.fresh("s");
                s.run(&format!("vm.server {} users=u:{}", sv, uuid));
                let first = if rng.chance(1, 2) { hex(&rng.bytes(20)) } else { "none".to_owned() };
                let Some(wire) = crate::c03::vm_crafted_request(s, cr, rng, &uuid, &vm_target, mask, sec, &first, Some(n)) else {
                    s.oracle_fail("craft", "spec builder unavailable");
                    return;
                };
                let d = feed_all(s, &sv, &[wire], true);
                if d.panic {
                    s.oracle_fail(&format!("panic:vmess-server:size{}", if mask & 0x10 != 0 { ":auth" } else if mask & 4 != 0 { ":masked" } else { ":plain" }), &format!("options {:#04x}: a chunk whose size field says {} made the decoder panic", mask, n));
                }
            }
            s.mark_nontrivial();
        }
    }
}

/// VMess request headers that are *authentic* (sealed under a registered user's key by the Spec-side crafter, fresh
/// auth id) but whose instruction is cut at every length, or whose address type / command / padding nibble / domain
/// length is inconsistent with what follows — with the trailing FNV-1a checksum recomputed so that the parse runs to
/// the inconsistency.  None may panic; the model must report the same outcome.
fn fnv1a32(d: &[u8]) -> u32 {
    d.iter().fold(2166136261u32, |h, b| (h ^ *b as u32).wrapping_mul(16777619))
}

fn vmess_malformed_headers(s: &mut Session, cr: &mut Crafter, rng: &mut Rng, thorough: bool) {
    let addrs = ["4:01020304:80".to_owned(), "6:20010db8000000000000000000000007:443".to_owned(), format!("d:{}:8080", hex(b"example.org")), random_addr(rng)];
    for (ai, addr) in addrs.iter().enumerate() {
        s.begin_case(&format!("vmess-server:malformed-header:{}", ai));
        let uuid = random_uuid(rng);
        let vm_target = unhex(s.run(&format!("addr.enc vm {}", addr)).strip_prefix("ok ").unwrap_or("-")).unwrap_or_default();
        let (iv, key16) = (rng.bytes(16), rng.bytes(16));
        let padding = rng.bytes([0usize, 3, 15, 7][ai % 4]);
        let instr = crate::c03::spec(s, cr, &format!("craft.vm.instr iv={} key={} v=1 opt=29 padsec={} cmd={} pta={} padding={}", hex(&iv), hex(&key16), padding.len() * 16 + 3, 1 + ai % 2 * 2, hex(&vm_target), if padding.is_empty() { "-".to_owned() } else { hex(&padding) }));
        let Some(instr) = unhex(&instr) else {
            s.oracle_fail("craft", "spec builder unavailable");
            return;
        };
        let refix = |mut v: Vec<u8>| -> Vec<u8> {
            if v.len() >= 4 {
                let n = v.len() - 4;
                let f = fnv1a32(&v[..n]).to_be_bytes();
                v[n..].copy_from_slice(&f);
            }
            v
        };
        let mut variants: Vec<Vec<u8>> = vec![instr.clone()];
        let step = if thorough { 1 } else { 1 };
        for l in (0..instr.len()).step_by(step) {
            variants.push(instr[..l].to_vec());
            variants.push(refix(instr[..l].to_vec()));
        }
        for t in [0u8, 1, 2, 3, 4, 5, 0x7f, 0xff] {
            let mut v = instr.clone();
            v[40] = t;
            variants.push(refix(v));
        }
        for c in [0u8, 2, 3, 4, 0xff] {
            let mut v = instr.clone();
            v[37] = c;
            variants.push(refix(v));
        }
        for p in 0..16u8 {
            let mut v = instr.clone();
            v[35] = (p << 4) | (v[35] & 0xf);
            variants.push(refix(v));
        }
        for sec in [0u8, 1, 2, 5, 6, 0xf] {
            let mut v = instr.clone();
            v[35] = (v[35] & 0xf0) | sec;
            variants.push(refix(v));
        }
        if instr[40] == 2 {
            for dl in [0u8, 1, 2, 200, 255] {
                let mut v = instr.clone();
                v[41] = dl;
                variants.push(refix(v.clone()));
                // and with as many bytes as the length byte asks for
                let mut w = v[..42].to_vec();
                w.extend(std::iter::repeat(b'a').take(dl as usize));
                w.extend([0u8; 4]);
                variants.push(refix(w));
            }
            // a name that is not UTF-8
            let mut v = instr.clone();
            v[42] = 0xff;
            variants.push(refix(v));
        }
        for v in variants {
            let sv = s.fresh("s");
            s.run(&format!("vm.server {} users=u:{}", sv, uuid));
            let time = crate::stream::now_secs() as i64 + rng.range(0, 40) as i64 - 20;
            let head = crate::c03::spec(s, cr, &format!("craft.vm.req uuid={} time={} rand={} nonce={} header={}", uuid, time, hex(&rng.bytes(4)), hex(&rng.bytes(8)), if v.is_empty() { "-".to_owned() } else { hex(&v) }));
            let Some(wire) = unhex(&head) else {
                s.oracle_fail("craft", "spec builder unavailable");
                return;
            };
            let d = feed_all(s, &sv, &[wire], true);
            if d.panic {
                s.oracle_fail("panic:vmess-server:header", &format!("an authentic request header whose instruction is malformed ({} bytes) made the decoder panic", v.len()));
            }
        }
        s.mark_nontrivial();
    }
}

pub fn generate(s: &mut Session, tier: &str, rng: &mut Rng) {
    let thorough = tier == "thorough";
    // authentic VMess headers of unusual shapes at both ends (a response header without any byte, tokens at the edges of
    // their window): refused or accepted, never a panic
    if let Some(mut cr) = crate::craft::Crafter::new() {
        crate::c10::vm_cases(s, &mut cr, rng);
    }
    let mut targets = vec![];
    for cipher in CIPHERS {
        targets.push(Target::SsServer { cipher, users: false });
        if eih(cipher) {
            targets.push(Target::SsServer { cipher, users: true });
        }
        targets.push(Target::SsClient { cipher });
    }
    targets.push(Target::VmServer);
    for cipher in ["aes-128-gcm", "chacha20-poly1305"] {
        targets.push(Target::VmClient { cipher, udp: false });
        targets.push(Target::VmClient { cipher, udp: true });
    }
    targets.push(Target::TjServer { udp: false });
    targets.push(Target::TjServer { udp: true });
    targets.push(Target::TjClient { udp: false });
    targets.push(Target::TjClient { udp: true });
    for t in targets {
        let key = target_key(&t);
        let fx = Fixture::new(rng, t);
        // (1) immediate EOF, tiny inputs
        s.begin_case(&format!("{}:tiny", key));
        run_input(s, &fx, &key, &[], true);
        for b in [vec![0u8], vec![0xff], vec![5, 1], vec![1, 2, 3]] {
            run_input(s, &fx, &key, &[b], true);
        }
        s.mark_nontrivial();
        // (2) junk of many lengths
        s.begin_case(&format!("{}:junk", key));
        let lens: Vec<usize> = if thorough { (1..=120).chain([200, 300, 600, 2000]).collect() } else { vec![4, 15, 16, 17, 31, 32, 33, 42, 43, 58, 59, 60, 61, 62, 75, 90, 300] };
        for l in lens {
            let junk = rng.bytes(l);
            run_input(s, &fx, &key, &[junk], true);
        }
        s.mark_nontrivial();
        // (3) truncations of a valid stream at every offset, then EOF; and two-piece splits
        s.begin_case(&format!("{}:truncate", key));
        if let Some(w) = fx.valid_stream(s, rng) {
            let step = if thorough || w.len() < 140 { 1 } else { 3 };
            for k in (0..w.len()).step_by(step) {
                run_input(s, &fx, &key, &[w[..k].to_vec()], true);
            }
            s.mark_nontrivial();
            s.begin_case(&format!("{}:split", key));
            for k in (1..w.len()).step_by(if thorough || w.len() < 400 { 1 } else { 3 }) {
                run_input(s, &fx, &key, &[w[..k].to_vec(), w[k..].to_vec()], false);
            }
            s.mark_nontrivial();
            // (4) single-byte modifications
            s.begin_case(&format!("{}:mutate", key));
            let n = if thorough { w.len().min(400) } else { w.len().min(90) };
            for i in 0..n {
                let mut m = w.clone();
                m[i] ^= 1 << rng.below(8);
                run_input(s, &fx, &key, &[m], rng.chance(1, 2));
            }
            s.mark_nontrivial();
            // (5) the same bytes offered to every other kind of decoder (cross-protocol)
            s.begin_case(&format!("{}:cross", key));
            for other in [Target::SsServer { cipher: "aes-256-gcm", users: false }, Target::SsServer { cipher: "2022-blake3-aes-128-gcm", users: true }, Target::VmServer, Target::TjServer { udp: false }, Target::TjClient { udp: true }, Target::VmClient { cipher: "aes-128-gcm", udp: false }] {
                let fo = Fixture::new(rng, other.clone());
                run_input(s, &fo, &format!("{}<-{}", target_key(&other), key), &[w.clone()], true);
            }
            s.mark_nontrivial();
        } else {
            // reflect the client's own request back at it, whole and truncated
            s.begin_case(&format!("{}:reflect", key));
            if let Some(o) = fx.fresh(s) {
                // the request the fresh codec just encoded is the last st.enc line
                let req = s.lines.iter().rev().find(|l| l.starts_with(&format!("st.enc {} ", o))).and_then(|l| l.split(" => ").nth(1)).and_then(unhex);
                if let Some(req) = req {
                    for k in [req.len(), req.len() / 2, 17, 18, 19, 33, 34, 35, 50] {
                        let k = k.min(req.len());
                        run_input(s, &fx, &key, &[req[..k].to_vec()], true);
                    }
                }
            }
            s.mark_nontrivial();
        }
    }
    // socks5 message decoders and the udp codec: junk, truncations of valid messages
    s.begin_case("socks5:messages");
    let kinds = ["ireq", "creq", "iresp", "cresp", "udp"];
    let mut valid: Vec<Vec<u8>> = vec![vec![5, 1, 0], vec![5, 3, 0, 1, 2], vec![5, 0], vec![5, 2]];
    for _ in 0..6 {
        let a = random_addr(rng);
        let enc = unhex(&s.run(&format!("addr.enc s5 {}", a))).unwrap_or_default();
        let mut m = vec![5, 1, 0];
        m.extend(&enc);
        valid.push(m);
        let mut u = vec![0, 0, 0];
        u.extend(&enc);
        u.extend(rng.bytes(7));
        valid.push(u);
    }
    for v in &valid {
        for k in 0..=v.len() {
            for kind in kinds {
                let r = s.run(&format!("s5.dec {} {}", kind, hex(&v[..k])));
                if r.starts_with("panic") {
                    s.oracle_fail(&format!("panic:socks5-{}", kind), "socks5 decoder panicked");
                }
            }
        }
    }
    for _ in 0..if thorough { 3000 } else { 300 } {
        let l = rng.below(30) as usize;
        let mut junk = rng.bytes(l);
        if !junk.is_empty() && rng.chance(2, 3) {
            junk[0] = 5;
        }
        for kind in kinds {
            let r = s.run(&format!("s5.dec {} {}", kind, hex(&junk)));
            if r.starts_with("panic") {
                s.oracle_fail(&format!("panic:socks5-{}", kind), "socks5 decoder panicked");
            }
        }
    }
    s.mark_nontrivial();
    crate::c13::handshake_early_close(s, thorough);
    crate::c13::http_non_ascii(s);
    match Crafter::new() {
        Some(mut cr) => {
            udp_cases(s, &mut cr, rng, thorough);
            vmess_forged_sizes(s, &mut cr, rng, thorough);
            vmess_malformed_headers(s, &mut cr, rng, thorough);
        }
        None => {
            s.begin_case("no-driver");
            s.oracle_fail("craft", "the Lean driver could not be started for Spec-side building");
        }
    }
}
