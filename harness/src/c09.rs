//! C09: the same flows alone and all at once (real client and server on a multi-threaded runtime,
//! 2..16 workers); concurrent presentations of one handshake to codecs sharing a server context;
//! concurrent udp sessions through the shared codec and the process-wide cipher cache.
use base64ct::{Base64, Encoding};

use crate::e2e_gen::*;
use crate::session::Session;
use crate::util::*;

/// one Shadowsocks-2022 handshake presented by n threads at once to codecs sharing a server context:
/// exactly one is accepted; presented again (all replays): none.  (Also part of C10: "also when copies arrive concurrently".)
pub fn race_cases(s: &mut Session, tier: &str, rng: &mut Rng) {
    let thorough = tier == "thorough";
    // ---- codec level: one handshake presented by n threads at once
    for (cipher, keylen) in SS_CIPHERS.iter().filter(|c| c.1 > 0) {
        s.begin_case(&format!("race:{}", cipher));
        let key = Base64::encode_string(&rng.bytes(*keylen));
        s.run(&format!("ss.cctx c cipher={} password={}", cipher, key));
        s.run(&format!("ss.sctx s cipher={} password={} users=-", cipher, key));
        for _ in 0..if thorough { 40 } else { 6 } {
            let cs = s.fresh("cs");
            s.run(&format!("ss.new {} c d:{}:{}", cs, hex(b"example.org"), 1 + rng.below(65000)));
            let n = rng.below(200) as usize;
            let wire = s.run(&format!("st.enc {} {}", cs, hex(&rng.bytes(n + 1))));
            let n = 2 + rng.below(if thorough { 63 } else { 15 });
            let r = s.run(&format!("ss.race s {} {}", wire, n));
            if r != format!("accepted=1 of={}", n) {
                s.oracle_fail(&format!("race:{}", cipher), &format!("{} identical handshakes presented at once: `{}`", n, r));
            }
            let r = s.run(&format!("ss.rerace s {} {}", wire, n));
            if r != format!("accepted=0 of={}", n) {
                s.oracle_fail(&format!("rerace:{}", cipher), &format!("{} replays presented at once: `{}`", n, r));
            }
        }
        s.mark_nontrivial();
    }
}

/// the order the binding tables sort their keys by (`impl Ord for Address`): every pair of a pool built for
/// coincidences (equal ports with different hosts, equal hosts with different ports, a name whose bytes are an
/// address's octets, both families) is compared both ways by the real code; the answers must form a total order -
/// antisymmetric, equal exactly for equal addresses, transitive over every triple
pub fn address_order_cases(s: &mut Session, tier: &str, rng: &mut Rng) {
    let thorough = tier == "thorough";
    s.begin_case("address-order");
    let mut pool: Vec<String> = vec![];
    let ports = [52u16, 53, 54, 8000, 8500, 9000];
    let v4s: [[u8; 4]; 5] = [[1, 2, 3, 4], [1, 2, 3, 5], [127, 0, 0, 1], [127, 0, 0, 2], [200, 0, 0, 1]];
    let mut v6a = [0u8; 16];
    v6a[15] = 1;
    let mut v6b = [0u8; 16];
    v6b[..4].copy_from_slice(&[1, 2, 3, 4]);
    let mut v6c = [0xffu8; 16];
    v6c[0] = 100;
    let names: Vec<Vec<u8>> = vec![vec![1, 2, 3, 4], vec![1, 2, 3], vec![127, 0, 0, 1], b"a".to_vec(), b"x".to_vec(), b"localhost".to_vec(), v6a.to_vec(), vec![150], vec![]];
    let n_ports = if thorough { ports.len() } else { 3 };
    for k in 0..(if thorough { 40 } else { 22 }) {
        let p = ports[(rng.below(n_ports as u64) as usize + if k % 2 == 0 { 0 } else { 3 }) % ports.len()];
        let a = match rng.below(3) {
            0 => format!("4:{}:{}", hex(&rng.pick(&v4s[..])[..]), p),
            1 => format!("6:{}:{}", hex(&rng.pick(&[v6a, v6b, v6c][..])[..]), p),
            _ => {
                let n = rng.pick(&names[..]);
                format!("d:{}:{}", if n.is_empty() { "-".to_owned() } else { hex(n) }, p)
            }
        };
        if !pool.contains(&a) {
            pool.push(a);
        }
    }
    // the three of the repaired defect, always
    for a in ["4:7f000001:9000", "4:7f000002:8000", "d:78:8500", "d:01020304:53", "4:01020304:53"] {
        if !pool.contains(&a.to_owned()) {
            pool.push(a.to_owned());
        }
    }
    let n = pool.len();
    let mut m = vec![vec![0i8; n]; n];
    for i in 0..n {
        for j in 0..n {
            let r = s.run(&format!("addr.cmp {} {}", pool[i], pool[j]));
            m[i][j] = match r.as_str() { "lt" => -1, "eq" => 0, "gt" => 1, _ => 9 };
        }
    }
    let mut bad = vec![];
    for i in 0..n {
        for j in 0..n {
            if m[i][j] == 9 || m[i][j] != -m[j][i] {
                bad.push(format!("not antisymmetric: {} vs {}", pool[i], pool[j]));
            }
            if (m[i][j] == 0) != (i == j) {
                bad.push(format!("equal by the order, different addresses (or the reverse): {} vs {}", pool[i], pool[j]));
            }
            for k in 0..n {
                if m[i][j] == -1 && m[j][k] == -1 && m[i][k] != -1 {
                    bad.push(format!("not transitive: {} < {} < {} but not {} < {}", pool[i], pool[j], pool[k], pool[i], pool[k]));
                }
            }
        }
    }
    s.count(&format!("address-order:pool:{}", n));
    if let Some(b) = bad.first() {
        s.oracle_fail("address-order", &format!("the order of addresses is not a total order ({} violations), e.g. {}", bad.len(), b));
    }
    s.mark_nontrivial();
}

pub fn generate(s: &mut Session, tier: &str, rng: &mut Rng) {
    let thorough = tier == "thorough";
    race_cases(s, tier, rng);
    address_order_cases(s, tier, rng);
    // ---- codec level: concurrent udp sessions through the shared cipher cache
    for (cipher, keylen) in SS_CIPHERS {
        s.begin_case(&format!("udp-sessions:{}", cipher));
        let pw = if keylen == 0 { "pw".to_owned() } else { Base64::encode_string(&rng.bytes(keylen)) };
        let (t, k) = if thorough { (16, 400) } else { (8, 60) };
        let r = s.run(&format!("ssu.par cipher={} password={} threads={} packets={} seed={}", cipher, pw, t, k, rng.below(1 << 40)));
        if r != format!("ok={} bad=0", t * k) {
            s.oracle_fail(&format!("udp-sessions:{}", cipher), &format!("concurrent udp sessions: `{}`", r));
        }
        s.mark_nontrivial();
    }
    // ---- codec level: two users whose udp sessions carry the same session id, interleaved through the shared cache:
    // each datagram is decoded exactly as it is when that user's flow runs alone
    for (cipher, keylen) in [("2022-blake3-aes-128-gcm", 16usize), ("2022-blake3-aes-256-gcm", 32)] {
        s.begin_case(&format!("udp-same-session-id:{}", cipher));
        let psk = Base64::encode_string(&rng.bytes(keylen));
        let (ka, kb) = (Base64::encode_string(&rng.bytes(keylen)), Base64::encode_string(&rng.bytes(keylen)));
        let us = s.fresh("us");
        s.run(&format!("ssu.server {} cipher={} password={} users=alice:{};bob:{}", us, cipher, psk, ka, kb));
        let csid = 1 + rng.below(1 << 50);
        let mut clients = vec![];
        for (name, k) in [("alice", &ka), ("bob", &kb)] {
            let uc = s.fresh("uc");
            s.run(&format!("ssu.client {} cipher={} password={}:{}", uc, cipher, psk, k));
            s.run(&format!("ssu.setid {} csid={}", uc, csid));
            clients.push((name, uc));
        }
        // datagrams built by the Spec-side crafter (an encoder outside this process' cipher cache), then the
        // implementation's own clients
        let mut cr = crate::craft::Crafter::new();
        for round in 0..if thorough { 12 } else { 4 } {
            for (name, k) in [("alice", &ka), ("bob", &kb)] {
                let Some(cr) = cr.as_mut() else { break };
                let body = [vec![0u8], crate::stream::now_secs().to_be_bytes().to_vec(), vec![0, 0], vec![1, 1, 2, 3, 4, 0, 53], rng.bytes(8)].concat();
                let w = cr.ask(&format!("craft.ssu cipher={} password={} ipsk={} sid={} pid={} rnd=- body={}", cipher, k, psk, csid, round + 1, hex(&body)));
                let r = crate::c02::timed(s, &format!("ssu.sdec {} {}", us, w));
                if !r.starts_with("ok ") || !r.contains(&format!(" user={} ", name)) {
                    s.oracle_fail(&format!("udp-same-session-id:{}", cipher), &format!("round {}: {}'s datagram is not decoded as it is alone when another user uses the same session id: {}", round, name, &r[..r.len().min(50)]));
                }
            }
            for (name, uc) in &clients {
                let w = crate::c02::timed(s, &format!("ssu.cenc {} addr=4:01020304:53 payload={}", uc, hex(&rng.bytes(8))));
                let r = crate::c02::timed(s, &format!("ssu.sdec {} {}", us, w));
                if !r.starts_with("ok ") || !r.contains(&format!(" user={} ", name)) {
                    s.oracle_fail(&format!("udp-same-session-id:{}", cipher), &format!("round {}: {}'s datagram is not decoded as it is alone when another user uses the same session id: {}", round, name, &r[..r.len().min(50)]));
                }
            }
        }
        s.mark_nontrivial();
    }
    // ---- system level: a flow while another peer sits in its tls handshake gets what it gets alone
    if tls_available() {
        for base in protocol_ciphers(rng).into_iter().filter(|c| matches!((c.protocol, c.cipher), ("trojan", _) | ("vmess", "aes-128-gcm") | ("shadowsocks", "aes-256-gcm"))) {
            for t in if thorough { vec!["tls", "wss"] } else { vec!["tls"] } {
                let cfg = base.with(t);
                s.begin_case(&format!("beside-a-stalled-handshake:{}", cfg.label()));
                let Some(w) = cfg.start(s, false, 4) else { continue };
                let script = format!("kind=socks5 host=127.0.0.1 up={} down={} seed={} close=target", sizes(rng, 20000), sizes(rng, 20000), rng.below(1 << 40));
                let solo = s.run(&format!("e2e.tcp {} {}", w, script));
                s.run(&format!("e2e.fault {} tls-stall -", w));
                s.run(&format!("e2e.fault {} server-stall -", w));
                let r = s.run(&format!("e2e.tcp {} {}", w, script));
                if r != solo || field(&r, "down") != "ok" {
                    s.oracle_fail(&format!("beside-a-stalled-handshake:{}", cfg.label()), &format!("a flow next to a peer stuck in its handshake: `{}`; alone: `{}`", r, solo));
                }
                s.run(&format!("e2e.stop {}", w));
                s.mark_nontrivial();
            }
        }
    }
    // ---- system level: a flow that only receives, beside more short flows than the client keeps bindings
    for base in protocol_ciphers(rng).into_iter().filter(|c| matches!((c.protocol, c.cipher, c.users.as_str()), ("shadowsocks", "aes-128-gcm", _) | ("vmess", "aes-128-gcm", _))) {
        let mut base = base;
        base.udp = true;
        let cfg = base.with("tcp");
        s.begin_case(&format!("receive-only-flow-beside-many:{}", cfg.label()));
        let Some(w) = cfg.start(s, false, 4) else { continue };
        let r = s.run(&format!("e2e.udplru {} n=70", w));
        if r != "stream=alive answered=70" {
            s.oracle_fail(&format!("receive-only-flow-beside-many:{}", cfg.label()), &format!("a flow that goes on receiving lost its binding to short flows that came and went (or they went unanswered): `{}`", r));
        }
        s.run(&format!("e2e.stop {}", w));
        s.mark_nontrivial();
    }
    // ---- system level: alone, then all at once
    let all = protocol_ciphers(rng);
    let picks: Vec<Cfg> = if thorough { all } else { all.into_iter().filter(|c| matches!((c.protocol, c.cipher, c.users.as_str()), ("shadowsocks", "chacha20-ietf-poly1305", _) | ("shadowsocks", "2022-blake3-chacha20-poly1305", _) | ("shadowsocks", "2022-blake3-aes-256-gcm", "alice") | ("vmess", "aes-128-gcm", _) | ("trojan", _, _)) || c.users.starts_with("alice") && c.cipher.ends_with("256-gcm")).collect() };
    let mut transports = vec!["tcp", "ws"];
    if tls_available() && thorough {
        transports.extend(["tls", "wss", "quic"]);
    }
    for base in picks {
        for t in &transports {
            let cfg = base.with(t);
            let threads = *rng.pick(&[2usize, 4, 8, 16]);
            s.begin_case(&format!("concurrent:{}:{}w", cfg.label(), threads));
            let Some(w) = cfg.start(s, false, threads) else {
                s.oracle_fail(&format!("start:{}", cfg.label()), "a README-supported configuration does not start");
                continue;
            };
            for _ in 0..if thorough { 4 } else { 1 } {
                let n = if thorough { 2 + rng.below(63) } else { 2 + rng.below(14) };
                let m = if cfg.udp { 1 + rng.below(if thorough { 16 } else { 4 }) } else { 0 };
                let close = if rng.below(2) == 0 { "target" } else { "app" };
                let kind = *rng.pick(&KINDS);
                let script = format!("kind={} host=127.0.0.1 up={} down={} seed={} close={}", kind, sizes(rng, 60000), sizes(rng, 60000), rng.below(1 << 40), close);
                let solo = s.run(&format!("e2e.tcp {} {}", w, script));
                let solo_udp = if m > 0 { s.run(&format!("e2e.udp {} sizes=10,200 seed=5", w)) } else { String::new() };
                let r = s.run(&format!("e2e.par {} n={} m={} {} sizes=10,200", w, n, m, script));
                let mut want = format!("tcp:{}x[{}]", n, solo);
                if m > 0 {
                    want.push_str(&format!(" udp:{}x[{}]", m, solo_udp));
                }
                if r != want {
                    s.oracle_fail(&format!("differs-from-solo:{}", cfg.label()), &format!("{} tcp + {} udp flows at once on {} workers: `{}`; alone: `{}`", n, m, threads, r, want));
                }
                s.count(&format!("par:n{}:m{}", if n < 8 { "<8" } else if n < 32 { "<32" } else { ">=32" }, m.min(9)));
            }
            let r = s.run(&format!("e2e.alive {}", w));
            if r != "alive" {
                s.oracle_fail(&format!("service-ended:{}", cfg.label()), &format!("a service task ended under concurrent load: `{}`", r));
            }
            s.run(&format!("e2e.stop {}", w));
            s.mark_nontrivial();
        }
    }
}
